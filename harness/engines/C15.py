"""C15 — unbalanced (compiled) estimator matches the balanced one, skips missing channels.

Engine interface (see harness/run_check.py).  Real code: `calc_rdm_unbalanced`,
`calc_one_similarity`, `calc_rdm` (imported from the working tree, compiled kernel = the .so
the tree provides).  Model: `Rsa.Core.Unbalanced` through driver ops `c15.calc`, `c15.one`.
Helpers live in engines/C15_oracle.py (independent transcription of the property).
"""
import math
import warnings
from fractions import Fraction as F

import numpy as np

from lean import rat, unrat, fbits, unfbits, first_diff, close
from engines import C15_oracle as orc

PROPERTY = 'C15'
LEVEL = 'proof'
P_ = 'Rsa.Props.C15.'
THEOREMS = [P_ + n for n in (
    'idx_is_tri', 'idx_injective', 'idx_lt_buffer', 'idx_position',
    'loop_eq_pair_average', 'unb_eq_spec',
    'unb_euclid_eq_balanced', 'unb_mahalanobis_eq_balanced',
    'missing_channel_skipped', 'missing_everywhere_no_effect', 'no_valid_product_nan',
    'no_shared_channel_weight_zero',
    'equal_eq_number_no_missing', 'coded_half_is_zero', 'equal_weighting_ok_partial',
    'corr_kernel_ok_partial', 'mahal_kernel_ok_partial', 'labels_first_appearance',
    'unb_single_obs_eq_balanced', 'single_obs_correlation', 'single_obs_poisson',
    'entry_eq_rectangle_average', 'unb_cv_eq_balanced', 'unb_poisson_cv_eq_balanced',
    'unb_poisson_cv_partial',
    'calc_one_eq_entry', 'leaf_combine_and_prior',
    # round 3
    'layout_dtype_invariant', 'layouts_hold_matrix', 'leaf_guards', 'model_uses_leaves',
    'leaf_kernel_terms', 'kernels_by_leaves', 'dispatch_table', 'calc_one_weight',
    'leaf_python_slices',
    # round 4: list input
    'list_loop_stateless', 'list_rowwise', 'list_row_eq_spec', 'list_noninterference',
    'cached_coding_sound', 'coding_key_needs_folds')]
RULE = ('one PRNG; a case = dataset (2-14 observations, 2-5 conditions, 2-6 channels, small '
        'dyadic values; dtype int64 / int32 / uint8 / float64 / float32; memory layout C / Fortran / '
        'strided slice of a padded array / negative strides; value classes: random, channel exactly '
        'zero everywhere / wherever observed / for one condition, all observations identical, constant '
        'channel, all-zero observation, values not representable in float32; condition and fold labels '
        'are opaque values of 13 kinds: small / negative / large ints, uint8, int32, python int lists, '
        'floats with fractional parts (float64, float32, float16), str arrays, bytes, lists of np.str_, '
        'bools; arbitrary order) x design (single / unbalanced counts / fold-balanced / random folds / '
        'descriptor=None / list of datasets with one design / list, tuple or iterator of 2-4 datasets '
        'each derived from its predecessor by: same design, same condition vector with other folds '
        '(re-assigned within conditions, keeping fold balance, or re-drawn with another fold count), '
        'other missing-channel mask, permuted observations, other repetition counts, other number of '
        'channels, other label dtype, return to the design before the previous one; own dtype / layout '
        'per member) x missing-channel mask (none / '
        'whole channels / per observation / whole observation / disjoint supports) x method (6) x '
        'weighting (2) x precision (none / SPD, C or F ordered, shared or per dataset) x fold descriptor '
        '(none / given) x arguments given / left to the signature defaults (+ one condition '
        'pair for the single-pair helper, for every method x weighting x mask).  Non-trivial: >= 2 conditions and at least one finite '
        'dissimilarity or a NaN forced by the mask; distinct = distinct (method, weighting, design, '
        'mask, labels, folds, values).')
BRANCHES = ['method:euclidean', 'method:correlation', 'method:mahalanobis', 'method:crossnobis',
            'method:poisson', 'method:poisson_cv', 'weighting:number', 'weighting:equal',
            'cv:given', 'cv:none', 'mask:none', 'mask:whole', 'mask:perobs', 'mask:obs',
            'mask:disjoint', 'dtype:int', 'dtype:float', 'order:C', 'order:F',
            'design:single', 'design:unbalanced', 'design:foldbal', 'noise:given',
            'one:cross', 'one:self', 'nan-entry', 'balanced-compared']
LABEL_KINDS = ['int', 'negint', 'bigint', 'float', 'float32', 'str', 'npstr', 'bool',
               'float16', 'uint8', 'int32', 'bytes', 'pylist']
BRANCHES += ['cond:' + k for k in LABEL_KINDS]
BRANCHES += ['fold:' + k for k in LABEL_KINDS]
# round 3: value classes (seeded C15-6), dtypes / layouts, the single-pair helper for every
# method / weighting / missing data, signature defaults, precision layout, list input with priors
VCLASSES = ['silent-all', 'silent-observed', 'silent-cond', 'identical', 'constant-channel', 'zero-obs',
            'fine']
BRANCHES += ['values:' + v for v in VCLASSES]
BRANCHES += ['dtype:int32', 'dtype:uint8', 'dtype:float32', 'order:strided', 'order:reversed',
             'layout-compared', 'layout:colmajor-kept', 'layout:int-cast']
BRANCHES += ['one:' + m for m in ('euclidean', 'correlation', 'mahalanobis', 'crossnobis', 'poisson',
                                  'poisson_cv')]
BRANCHES += ['one:equal', 'one:number', 'one:missing', 'one:noise', 'defaults', 'noise:F',
             'list:prior', 'cv:index-fallback']
BRANCHES += ['fold:collide-int', 'descriptor:none', 'input:list', 'noise:list', 'noise:shared-list',
             'noise:list-complete', 'noise:shared-list-complete']
# round 4 (seeded C15-7): lists of datasets whose members have their own design.  All tags are
# computed from the data of consecutive members, not taken from the generator's intention.
LIST_TAGS = ['fold-changed',        # same condition vector, other observation pairs share a fold
             'fold-changed-balanced',   # ... and both are fold-balanced (calc_rdm must be matched)
             'same-design', 'mask-changed', 'cond-vector-changed', 'first-order-changed',
             'nobs-changed', 'channels-changed', 'cond-dtype-changed', 'fold-dtype-changed',
             'data-dtype-changed', 'layout-changed', 'revisit',
             'len2', 'len3', 'len4', 'tuple', 'iter', 'no-folds', 'member-missing',
             'noise-tuple', 'noise-per-dataset-complete']
BRANCHES += ['list:' + t for t in LIST_TAGS]
BRANCHES += ['list-fold-changed:' + m for m in
             ('euclidean', 'correlation', 'mahalanobis', 'crossnobis', 'poisson', 'poisson_cv',
              'number', 'equal')]
ASSUMPTIONS = [
    'float64 evaluation of either side is within 1e-9 relative (+1e-10 x scale absolute) of the '
    'exact value on the generated small dyadic inputs',
    'precision matrices are symmetric (the kernel applies the transposed block; equal for symmetric input)',
    'single-observation and balanced-equality claims for correlation exclude constant patterns',
]
TRUSTED_EXTRA = [
    'the compiled similarity*.so of the working tree is what is exercised; similarity.pyx is tied '
    'by the translator leaves (C division semantics) and by the coded-variant comparison',
    'numpy.unique / argsort contracts behind get_unique_inverse',
    "numpy's astype(order='K') keeps the axis order of the source (row-major iff |stride 1| <= |stride 0|): "
    'modelled rule, compared with the strides numpy produces on every case',
    'thorough tier: gcc, the Python / numpy headers and the Cython-generated similarity.c shipped in the '
    'tree (similarity.pyx -> similarity.c cannot be regenerated: no Cython)',
]

METHODS = ['euclidean', 'correlation', 'mahalanobis', 'crossnobis', 'poisson', 'poisson_cv']
KERNEL = {'euclidean': 'euclidean', 'correlation': 'correlation', 'mahalanobis': 'mahalanobis',
          'crossnobis': 'mahalanobis', 'poisson': 'poisson', 'poisson_cv': 'poisson'}
EXACT = {'euclidean', 'mahalanobis', 'crossnobis'}


# ---------------------------------------------------------------- generation

def _label_kind(rng, n, force=None):
    """kind of a descriptor with n distinct values (bool only has two)"""
    if force and (force != 'bool' or n <= 2):
        return force
    kinds = [k for k in LABEL_KINDS if k != 'bool' or n <= 2]
    return rng.choice(kinds)


def _labels(rng, n, kind):
    """n distinct label values of a kind; labels are opaque (only equality matters), so
    the pools contain values that collide under int(), lower(), bool() or float32 rounding"""
    if kind == 'int':
        return rng.sample(range(0, 40), n)
    if kind == 'negint':
        return rng.sample(range(-20, 6), n)
    if kind == 'bigint':
        return rng.sample([10 ** 12, 10 ** 12 + 1, 2 ** 40, 2 ** 31, 2 ** 31 - 1, 2 ** 32, 7, 0,
                           -2 ** 33, 999999999999], n)
    if kind == 'pylist':
        return rng.sample(range(-3, 30), n)
    if kind == 'uint8':
        return rng.sample([0, 1, 2, 3, 7, 100, 127, 128, 200, 254, 255], n)
    if kind == 'int32':
        return rng.sample([0, 1, -1, 5, 17, -40, 2 ** 31 - 1, -2 ** 31, 65536, 99], n)
    if kind == 'bytes':
        return rng.sample(['a', 'A', 'b', 'zz', 'm1', 'cat', 'B', 'x9', '1', '10', ' a'], n)
    if kind in ('float', 'float32', 'float16'):
        # dyadic, several values per integer part (1.0, 1.25, 1.5 ...), also negative / zero
        if n <= 4 and rng.random() < 0.6:       # all in one unit interval: equal under int()
            b = rng.choice([0, 1, 2, -3, 7])
            return [b + q for q in rng.sample([0.0, 0.25, 0.5, 0.75], n)]
        return rng.sample([0.0, 0.25, 0.5, 0.75, 1.0, 1.25, 1.5, 1.75, 2.0, 2.5, -0.5, -0.25,
                           -1.5, 3.0, 3.5], n)
    if kind == 'bool':
        return rng.sample([False, True], n)
    return rng.sample(['a', 'A', 'b', 'zz', 'm1', 'cat', 'dog', 'B', 'x9', 'face', 'k', '1', '1.0',
                       '10', ' a'], n)


def _gen_case(rng, force=None):
    force = force or {}
    method = force.get('method') or rng.choice(METHODS)
    kern = KERNEL[method]
    weighting = force.get('weighting') or rng.choice(['number', 'number', 'equal'])
    n_cond = rng.randint(2, 5)
    P = rng.randint(3 if kern == 'correlation' else 2, 6)
    design = force.get('design') or rng.choice(
        ['single', 'unbalanced', 'unbalanced', 'foldbal', 'foldbal', 'foldbal1', 'randfolds'])
    cv_method = method in ('crossnobis', 'poisson_cv')
    if cv_method and design == 'single':
        design = 'foldbal1'
    if force.get('cond_kind') == 'bool':
        n_cond = 2
    lab_kind = _label_kind(rng, n_cond, force.get('cond_kind'))
    conds = _labels(rng, n_cond, lab_kind)
    fold_kind = None
    obs = []                                   # (cond label, fold label or None)
    folds_used = None
    if design == 'single':
        obs = [(c, None) for c in conds]
    elif design == 'unbalanced':
        for c in conds:
            obs += [(c, None)] * rng.randint(1, 3)
        while len(obs) > 12:
            obs.pop()
        if len({c for c, _ in obs}) < 2:
            obs = [(conds[0], None), (conds[1], None), (conds[0], None)]
    elif design in ('foldbal', 'foldbal1'):
        nf = 2 if force.get('fold_kind') == 'bool' else rng.randint(2, 3)
        fold_kind = _label_kind(rng, nf, force.get('fold_kind'))
        fl = _labels(rng, nf, fold_kind)
        for c in conds:
            r = 1 if design == 'foldbal1' else rng.randint(1, 2)
            for f in fl:
                obs += [(c, f)] * r
        while len(obs) > 14 and len(conds) > 2:     # drop a whole condition to stay small
            dropc = conds.pop()
            obs = [o for o in obs if o[0] != dropc]
        folds_used = True
    else:   # random folds
        nf = 2 if force.get('fold_kind') == 'bool' else rng.randint(2, 3)
        fold_kind = _label_kind(rng, nf, force.get('fold_kind'))
        fl = _labels(rng, nf, fold_kind)
        for c in conds:
            for _ in range(rng.randint(1, 3)):
                obs.append((c, rng.choice(fl)))
        obs = obs[:12]
        if len({c for c, _ in obs}) < 2:
            obs = [(conds[0], fl[0]), (conds[1], fl[0]), (conds[0], fl[1])]
        folds_used = True
    rng.shuffle(obs)
    labels = [c for c, _ in obs]
    give_cv = bool(folds_used) and (cv_method or rng.random() < 0.35)
    if cv_method and folds_used and rng.random() < 0.08:
        give_cv = False                      # falls back to 'index' inside the library
    if force.get('give_cv') is not None and folds_used:
        give_cv = force['give_cv']
    folds = [f for _, f in obs] if give_cv else None
    n_obs = len(obs)
    lo = 1 if kern == 'poisson' else -4
    scale = rng.choice([1, 1, 2, 4])
    mask = force.get('mask') or rng.choice(['none'] * 5 + ['whole', 'whole', 'perobs', 'perobs',
                                                       'perobs', 'obs', 'disjoint'])
    vclass = force.get('vclass') or (rng.choice(VCLASSES) if rng.random() < 0.3 else 'random')
    if vclass == 'zero-obs' and kern == 'correlation':
        vclass = 'silent-all'                # an all-zero pattern is constant: outside the property
    if vclass == 'silent-observed' and mask in ('none', 'whole'):
        mask = 'perobs'
    dtype = 'float'
    if mask == 'none' and rng.random() < 0.4:
        dtype, scale = rng.choice(['int', 'int', 'int32', 'uint8']), 1
    elif rng.random() < 0.15:
        dtype = 'float32'
    if force.get('dtype') and (force['dtype'] in ('float', 'float32') or mask == 'none'):
        dtype = force['dtype']
        scale = scale if dtype in ('float', 'float32') else 1
    if vclass == 'fine':
        # values k + r / 2^22 (r odd): exact in float64, not representable in float32
        dtype, scale = 'float', FINE
    if dtype == 'uint8':
        lo = max(lo, 0)
    order = force.get('order') or rng.choice(['C', 'C', 'F', 'F', 'strided', 'reversed'])
    for _attempt in range(40):
        vals = [[rng.randint(lo, 8) for _ in range(P)] for _ in range(n_obs)]
        if vclass == 'fine':
            vals = [[v * FINE + (rng.randrange(1, FINE, 2) if rng.random() < 0.8 else 0) for v in row]
                    for row in vals]
        _apply_vclass(rng, vals, labels, vclass, P, lo)
        if mask == 'whole':
            for c in rng.sample(range(P), rng.randint(1, max(1, P - (3 if kern == 'correlation' else 1)))):
                for row in vals:
                    row[c] = None
        elif mask == 'perobs':
            for row in vals:
                if rng.random() < 0.5:
                    for c in rng.sample(range(P), rng.randint(1, max(1, P - 3))):
                        row[c] = None
            if vclass == 'silent-observed':
                # the silent channel: missing for some observations, zero for all the others
                c0 = next(c for c in range(P) if all(r[c] in (0, None) for r in vals))
                for k in range(n_obs):
                    vals[k][c0] = None if k % 2 == 0 and k + 1 < n_obs else 0
        elif mask == 'obs':
            i = rng.randrange(n_obs)
            vals[i] = [None] * P
            if rng.random() < 0.4:           # a whole condition without data
                for k in range(n_obs):
                    if labels[k] == labels[i]:
                        vals[k] = [None] * P
        elif mask == 'disjoint':
            ca, cb = labels[0], next(l for l in labels if l != labels[0])
            cut = P // 2
            for k in range(n_obs):
                if labels[k] == ca:
                    vals[k][cut:] = [None] * (P - cut)
                elif labels[k] == cb:
                    vals[k][:cut] = [None] * cut
        if kern != 'correlation' or _corr_ok(vals, P):
            break
    else:
        mask = 'none'
        vals = [[(i * 3 + c * c + (i * c) % 5) % 7 + 1 for c in range(P)] for i in range(n_obs)]
        if vclass == 'fine':                 # small integers: keep them of order one
            scale = 1
    noise = None
    noise_scale = 1
    if kern == 'mahalanobis' and (force.get('noise') or rng.random() < 0.65):
        B = [[rng.randint(-1, 1) for _ in range(P)] for _ in range(P)]
        noise = [[sum(B[i][k] * B[j][k] for k in range(P)) + (2 if i == j else 0)
                  for j in range(P)] for i in range(P)]
        noise_scale = rng.choice([1, 2])
    lam, pw = force.get('prior') or (rng.choice([1.0, 0.5, 2.0]), rng.choice([0.1, 0.25, 1.0]))
    defaults = force.get('defaults', rng.random() < 0.08)
    if defaults:                             # leave prior_lambda / prior_weight / weighting to the signature
        lam, pw, weighting = 1.0, 0.1, 'number'
    case = {
        'vals': vals, 'scale': scale, 'dtype': dtype, 'order': order, 'labels': labels,
        'folds': folds, 'method': method, 'weighting': weighting, 'noise': noise,
        'noise_scale': noise_scale, 'lam': lam, 'pw': pw, 'design': design, 'mask': mask, 'one': None,
        'cond_kind': lab_kind, 'fold_kind': fold_kind if folds is not None else None,
        'vclass': vclass, 'defaults': defaults,
        'noise_order': (force.get('noise_order') or rng.choice(['C', 'F'])) if noise is not None else None,
    }
    if force.get('nodesc') or (force.get('nodesc') is None and rng.random() < 0.06):
        # descriptor=None: every observation is its own condition ('index')
        case['nodesc'] = True
        case['labels'] = labels = list(range(n_obs))
        case['cond_kind'] = 'int'
        case['design'] = 'single' if folds is None else case['design']
    n_extra = force.get('extra', 0 if rng.random() < 0.88 else rng.randint(1, 2))
    if n_extra:
        case['extra'] = []
        case['noise_mode'] = force.get('noise_mode') or rng.choice(['shared', 'list'])
        for _ in range(n_extra):
            ev = [[None if v is None else rng.randint(lo, 8) for v in row] for row in vals]
            if kern == 'correlation' and not _corr_ok(ev, P):
                ev = [list(row) for row in vals]
            en = noise
            if noise is not None and case['noise_mode'] == 'list':
                B = [[rng.randint(-1, 1) for _ in range(P)] for _ in range(P)]
                en = [[sum(B[i][k] * B[j][k] for k in range(P)) + (2 if i == j else 0)
                       for j in range(P)] for i in range(P)]
            case['extra'].append({'vals': ev, 'noise': en})
    uniq = orc.first_appearance(labels)
    if force.get('one') or (force.get('one') is None and rng.random() < 0.6):
        crossval = orc.crossval_of(case)
        if crossval and rng.random() < 0.3:
            a = rng.choice(uniq)
            case['one'] = [a, a]
        else:
            case['one'] = rng.sample(uniq, 2)
    return case


FINE = 2 ** 22

# ---- round 4: lists of 2-4 datasets whose members are related to their predecessor in a stated way
RELATIONS = ['same-design', 'fold-changed', 'fold-recount', 'mask-changed', 'perm-obs', 'nobs-changed',
             'channels-changed', 'label-dtype']
MEMBER_KEYS = ('vals', 'noise', 'labels', 'folds', 'cond_kind', 'fold_kind', 'dtype', 'order', 'scale',
               'mask')
NUMERIC_KINDS = ['int', 'pylist', 'int32', 'uint8', 'float', 'float32', 'float16']
FLOAT_KINDS = ('float', 'float32', 'float16')


def _partition(folds):
    groups = {}
    for i, f in enumerate(folds):
        groups.setdefault(f, []).append(i)
    return {frozenset(g) for g in groups.values()}


def _refold(rng, labels, folds):
    """the same fold values handed to other observations *within each condition* (the counts per
    condition and fold are unchanged, so a fold-balanced design stays balanced) such that other
    observation pairs share a fold; None if the design admits no such reassignment"""
    for _ in range(40):
        new = list(folds)
        for a in first_seen(labels):
            idx = [i for i, l in enumerate(labels) if l == a]
            fs = [folds[i] for i in idx]
            rng.shuffle(fs)
            for i, f in zip(idx, fs):
                new[i] = f
        if _partition(new) != _partition(folds):
            return new
    return None


def first_seen(labels):
    return orc.first_appearance(labels)


def _rekind(rng, values, kind):
    """the same label values held in another container / dtype (numeric kinds for small
    non-negative integers, str <-> list of np.str_); None if the kind has no equivalent"""
    if kind in NUMERIC_KINDS and all(float(v) == int(v) and 0 <= v <= 100 for v in values):
        new = rng.choice([k for k in NUMERIC_KINDS if k != kind])
        conv = float if new in FLOAT_KINDS else int
        return [conv(v) for v in values], new
    if kind in ('str', 'npstr'):
        return list(values), ('npstr' if kind == 'str' else 'str')
    return None


def _spd(rng, P):
    B = [[rng.randint(-1, 1) for _ in range(P)] for _ in range(P)]
    return [[sum(B[i][k] * B[j][k] for k in range(P)) + (2 if i == j else 0) for j in range(P)]
            for i in range(P)]


def _member(rng, case, prev, rel):
    """the next dataset of a list, related to its predecessor `prev` by `rel`; returns the
    override dict (MEMBER_KEYS) and the relation actually realised"""
    kern = KERNEL[case['method']]
    labels, folds = list(prev['labels']), (None if prev['folds'] is None else list(prev['folds']))
    cond_kind, fold_kind = prev.get('cond_kind'), prev.get('fold_kind')
    n, P = len(labels), len(prev['vals'][0])
    pattern = [[v is None for v in row] for row in prev['vals']]
    shared_noise = case['noise'] is not None and case.get('noise_mode') != 'list'
    if rel in ('fold-changed', 'fold-recount') and folds is None:
        rel = 'perm-obs'
    if rel == 'channels-changed' and shared_noise:
        rel = 'mask-changed'
    if rel == 'fold-changed':
        new = _refold(rng, labels, folds)
        if new is None:
            rel = 'fold-recount'
        else:
            folds = new
    if rel == 'fold-recount':
        # another number of folds, assigned at random (same condition vector)
        old = first_seen(folds)
        pool = _labels(rng, 3, fold_kind) if fold_kind != 'bool' else [False, True]
        for _ in range(40):
            k = rng.choice([x for x in (2, 3) if x <= len(pool)])
            new = [rng.choice(pool[:k]) for _ in labels]
            if len(set(new)) >= 2 and _partition(new) != _partition(folds):
                folds = new
                break
        else:
            folds = [old[(old.index(f) + (i % 2)) % len(old)] for i, f in enumerate(folds)]
    elif rel == 'perm-obs':
        perm = list(range(n))
        for _ in range(10):
            rng.shuffle(perm)
            if [labels[i] for i in perm] != labels:
                break
        labels = [labels[i] for i in perm]
        folds = None if folds is None else [folds[i] for i in perm]
        pattern = [pattern[i] for i in perm]
    elif rel == 'nobs-changed':
        fl = None if folds is None else first_seen(folds)
        for _ in range(20):
            obs = []
            for a in first_seen(labels):
                for _r in range(rng.randint(1, 3)):
                    obs.append((a, None if fl is None else rng.choice(fl)))
            if len(obs) != n and len(obs) <= 14:
                break
        rng.shuffle(obs)
        labels = [a for a, _ in obs]
        folds = None if fl is None else [f for _, f in obs]
        n = len(labels)
        pattern = None
    elif rel == 'channels-changed':
        lo_p = 3 if kern == 'correlation' else 2
        P = rng.choice([p for p in range(lo_p, 7) if p != P])
        pattern = None
    elif rel == 'label-dtype':
        r = _rekind(rng, labels, cond_kind) if not case.get('nodesc') else None
        done = False
        if r is not None:
            (labels, cond_kind), done = r, True
        if folds is not None and (not done or rng.random() < 0.5):
            r = _rekind(rng, folds, fold_kind)
            if r is not None:
                (folds, fold_kind), done = r, True
        if not done:
            rel = 'same-design'
    # missing-channel pattern of the member
    if rel == 'mask-changed' or pattern is None:
        want_change = rel == 'mask-changed'
        old = pattern
        for _ in range(20):
            kind = rng.choice(['perobs', 'whole', 'none'] if want_change else ['none', 'none', 'perobs'])
            if not want_change and case['noise'] is not None and case['mask'] == 'none':
                kind = 'none'        # complete data with a precision: outside the known mahalanobis finding
            pattern = [[False] * P for _ in range(n)]
            if kind == 'whole':
                for c in rng.sample(range(P), rng.randint(1, max(1, P - (3 if kern == 'correlation' else 1)))):
                    for row in pattern:
                        row[c] = True
            elif kind == 'perobs':
                for row in pattern:
                    if rng.random() < 0.5:
                        for c in rng.sample(range(P), rng.randint(1, max(1, P - 3))):
                            row[c] = True
            if not want_change or pattern != old:
                break
    lo = 1 if kern == 'poisson' else -4
    scale = 1 if prev['scale'] == FINE else prev['scale']
    for _attempt in range(40):
        vals = [[None if pattern[i][c] else rng.randint(lo, 8) for c in range(P)] for i in range(n)]
        if kern != 'correlation' or _corr_ok(vals, P):
            break
    else:
        vals = [[(i * 3 + c * c + (i * c) % 5) % 7 + 1 for c in range(P)] for i in range(n)]
    noise = case['noise']
    if noise is not None and not shared_noise:
        noise = _spd(rng, P)
    m = {'vals': vals, 'noise': noise, 'labels': labels, 'folds': folds, 'cond_kind': cond_kind,
         'fold_kind': fold_kind, 'scale': scale, 'dtype': 'float',
         'order': rng.choice(['C', 'F', 'strided', 'reversed']),
         'mask': 'none' if not any(v is None for row in vals for v in row) else 'perobs'}
    if rng.random() < 0.4:
        dt = rng.choice(['int', 'int32', 'uint8', 'float32'])
        if orc.dtype_ok(dict(case, scale=scale), dt, vals):
            m['dtype'] = dt
    m['rel'] = rel
    return m


def _gen_session(rng, force=None, rels=None, n_members=None):
    """a list of 2-4 datasets in one call: the first is an ordinary case, every further one is
    derived from its predecessor by one of RELATIONS"""
    force = dict(force or {})
    force.update(extra=0, nodesc=False)
    if 'give_cv' not in force:
        force['give_cv'] = True if rng.random() < 0.75 else None
    if 'design' not in force and force.get('give_cv'):
        force['design'] = rng.choice(['foldbal', 'foldbal', 'foldbal1', 'randfolds'])
    case = _gen_case(rng, force)
    case.pop('extra', None)
    if rels is None:
        k = n_members or rng.choice([2, 2, 3, 3, 4])
        pool = RELATIONS + ['fold-changed', 'fold-changed', 'fold-recount', 'revisit']
        rels = [rng.choice(pool) for _ in range(k - 1)]
    case['noise_mode'] = force.get('noise_mode') or rng.choice(['shared', 'list'])
    case['container'] = force.get('container') or rng.choice(['list', 'list', 'tuple', 'iter'])
    case['extra'] = []
    for rel in rels:
        subs = orc.sub_cases(case)
        if rel == 'revisit':
            # back to the design before the previous one (A, B, A)
            shared = case['noise'] is not None and case['noise_mode'] != 'list'
            if len(subs) >= 2 and not (shared and len(subs[-2]['vals'][0]) != len(subs[-1]['vals'][0])):
                m = _member(rng, case, subs[-2], 'same-design')
                m['rel'] = 'revisit'
                case['extra'].append(m)
                continue
            rel = 'fold-changed'
        case['extra'].append(_member(rng, case, subs[-1], rel))
    return case


def _apply_vclass(rng, vals, labels, vclass, P, lo):
    """value classes that random small integers (almost) never produce"""
    n = len(vals)
    if vclass in ('silent-all', 'silent-observed'):
        for c in rng.sample(range(P), 1 if P < 4 else rng.randint(1, 2)):
            for row in vals:                 # a channel that is exactly zero for every observation
                row[c] = 0
    elif vclass == 'silent-cond':
        c = rng.randrange(P)                 # a channel silent for one condition only
        a = rng.choice(labels)
        for k in range(n):
            if labels[k] == a:
                vals[k][c] = 0
    elif vclass == 'identical':
        for k in range(1, n):                # all observations identical
            vals[k] = list(vals[0])
    elif vclass == 'constant-channel':
        c = rng.randrange(P)                 # a channel with the same non-zero value everywhere
        v = rng.choice([x for x in (1, 3, 8, -2) if x >= lo])
        for row in vals:
            row[c] = v
    elif vclass == 'zero-obs':
        k = rng.randrange(n)                 # an observation that is zero in every channel
        vals[k] = [0] * P


def value_tags(case):
    """value classes actually present in the data (computed, not taken from the generator)"""
    vals, labels = case['vals'], case['labels']
    P = len(vals[0])
    tags = []
    cols = [[row[c] for row in vals] for c in range(P)]
    obs = [[v for v in col if v is not None] for col in cols]
    if any(o and len(o) == len(vals) and all(v == 0 for v in o) for o in obs):
        tags.append('silent-all')
    if any(o and len(o) < len(vals) and all(v == 0 for v in o) for o in obs):
        tags.append('silent-observed')
    for a in set(labels):
        for c in range(P):
            mine = [vals[k][c] for k in range(len(vals)) if labels[k] == a and vals[k][c] is not None]
            rest = [vals[k][c] for k in range(len(vals)) if labels[k] != a and vals[k][c] is not None]
            if mine and all(v == 0 for v in mine) and any(v != 0 for v in rest):
                tags.append('silent-cond')
    if len(vals) > 1 and all(row == vals[0] for row in vals) and any(v is not None for v in vals[0]):
        tags.append('identical')
    if any(len(o) == len(vals) and len(set(o)) == 1 and o[0] != 0 for o in obs):
        tags.append('constant-channel')
    if any(all(v == 0 for v in row) for row in vals):
        tags.append('zero-obs')
    sc = case['scale']
    if any(v is not None and float(np.float32(v / sc)) != v / sc for row in vals for v in row):
        tags.append('fine')
    return sorted(set(tags))


def _corr_ok(vals, P):
    """no pair of observations whose shared valid channels are 1-2 or constant"""
    n = len(vals)
    for i in range(n):
        for j in range(i, n):
            sh = [c for c in range(P) if vals[i][c] is not None and vals[j][c] is not None]
            if not sh:
                continue
            if len(sh) < 3:
                return False
            if len({vals[i][c] for c in sh}) < 2 or len({vals[j][c] for c in sh}) < 2:
                return False
    return True


def generate(rng, tier):
    n = 500 if tier == 'quick' else 10000
    if tier == 'thorough':
        # differential run of the shipped binary against a rebuild of the shipped C text
        if 'rebuilt-so' not in BRANCHES:
            BRANCHES.append('rebuilt-so')
        orc.rebuild_kernel()
    # a deterministic skeleton that reaches every method x weighting x mask (each with the
    # single-pair helper), then random cases
    k = 0
    for method in METHODS:
        for weighting in ('number', 'equal'):
            for mask in ('none', 'whole', 'perobs'):
                yield _gen_case(rng, {'method': method, 'weighting': weighting, 'mask': mask,
                                      'one': True, 'defaults': False})
                k += 1
    # value classes (seeded C15-6: a channel that is exactly zero wherever it is observed is data)
    for vclass in VCLASSES:
        for method in METHODS:
            yield _gen_case(rng, {'method': method, 'vclass': vclass, 'defaults': False,
                                  'mask': 'none' if vclass != 'silent-observed' else 'perobs',
                                  'weighting': 'number', 'nodesc': False})
            k += 1
    # dtypes x layouts of the measurement array; defaults of the signature; precision layout
    for dtype in ('int', 'int32', 'uint8', 'float', 'float32'):
        for order in orc.LAYOUTS:
            yield _gen_case(rng, {'method': rng.choice(METHODS), 'dtype': dtype, 'order': order,
                                  'mask': 'none'})
            k += 1
    for method in METHODS:
        yield _gen_case(rng, {'method': method, 'defaults': True, 'mask': 'none', 'one': True})
        k += 1
    for method in ('mahalanobis', 'crossnobis'):
        yield _gen_case(rng, {'method': method, 'noise': True, 'noise_order': 'F', 'mask': 'none',
                              'weighting': 'number', 'one': True})
        k += 1
    for method in ('poisson', 'poisson_cv'):
        yield _gen_case(rng, {'method': method, 'extra': 2, 'nodesc': False, 'defaults': False,
                              'mask': 'none', 'prior': (2.0, 0.25)})
        k += 1
    for method in METHODS:
        yield _gen_case(rng, {'method': method, 'mask': 'none', 'weighting': 'number',
                              'design': 'foldbal1' if method in ('crossnobis', 'poisson_cv') else 'single'})
        k += 1
    for method in ('euclidean', 'correlation', 'poisson', 'crossnobis'):
        yield _gen_case(rng, {'method': method, 'nodesc': True, 'mask': 'none'})
        k += 1
    for method in ('euclidean', 'mahalanobis', 'crossnobis', 'poisson_cv'):
        yield _gen_case(rng, {'method': method, 'extra': 2, 'nodesc': False})
        k += 1
    for method in ('mahalanobis', 'crossnobis'):
        for mode in ('list', 'shared'):     # complete data, so outside the known-finding region
            yield _gen_case(rng, {'method': method, 'extra': 2, 'nodesc': False, 'mask': 'none',
                                  'noise': True, 'noise_mode': mode, 'weighting': 'number'})
            k += 1
    # round 4 (seeded C15-7): lists of 2-4 datasets that share / differ in condition vector, fold
    # vector (same conditions, other folds), number of observations, channels, masks, label dtype
    for method in METHODS:
        for weighting in ('number', 'equal'):
            yield _gen_session(rng, {'method': method, 'weighting': weighting, 'give_cv': True,
                                     'mask': 'none', 'defaults': False,
                                     'design': 'foldbal1' if method == 'poisson_cv' else 'foldbal'},
                               rels=['fold-changed'] + [rng.choice(RELATIONS)
                                                        for _ in range(rng.randint(0, 2))])
            k += 1
    for rel in RELATIONS:
        for method in rng.sample(METHODS, 3):
            yield _gen_session(rng, {'method': method, 'defaults': False,
                                     'give_cv': True if rel.startswith('fold') else None},
                               rels=[rng.choice(RELATIONS) for _ in range(rng.randint(0, 1))] + [rel])
            k += 1
    for cont in ('tuple', 'iter'):
        yield _gen_session(rng, {'container': cont, 'defaults': False}, n_members=3)
        k += 1
    for method in ('crossnobis', 'poisson_cv', 'euclidean'):
        yield _gen_session(rng, {'method': method, 'give_cv': True, 'defaults': False},
                           rels=[rng.choice(['fold-changed', 'perm-obs', 'nobs-changed']), 'revisit'])
        k += 1
    for method, cont in (('mahalanobis', 'tuple'), ('crossnobis', 'tuple'), ('mahalanobis', 'iter'),
                         ('crossnobis', 'list')):
        # one precision per dataset, handed over as a tuple / list beside a tuple / iterator / list of
        # datasets; complete data (outside the known mahalanobis finding)
        yield _gen_session(rng, {'method': method, 'container': cont, 'noise': True, 'noise_mode': 'list',
                                 'mask': 'none', 'weighting': 'number', 'defaults': False},
                           rels=[rng.choice(['same-design', 'fold-changed', 'perm-obs', 'channels-changed']),
                                 rng.choice(['same-design', 'nobs-changed'])])
        k += 1
    for n_mem in (2, 3, 4):
        yield _gen_session(rng, {'defaults': False}, n_members=n_mem)
        k += 1
    for kind in ('int', 'uint8', 'float', 'pylist', 'str'):      # label dtype changes along the list
        yield _gen_session(rng, {'cond_kind': kind, 'fold_kind': rng.choice(['int', 'float32', 'pylist']),
                                 'give_cv': True, 'defaults': False,
                                 'method': rng.choice(['crossnobis', 'poisson_cv', 'euclidean'])},
                           rels=['label-dtype', rng.choice(['label-dtype', 'fold-changed'])])
        k += 1
    for kind in LABEL_KINDS:
        yield _gen_case(rng, {'cond_kind': kind, 'method': rng.choice(METHODS)})
        for method in ('crossnobis', 'poisson_cv', 'euclidean'):
            yield _gen_case(rng, {'fold_kind': kind, 'method': method, 'mask': 'none',
                                  'weighting': 'number',
                                  'design': 'foldbal1' if method == 'poisson_cv' else 'foldbal'})
            k += 1
        k += 1
    while k < n:
        yield _gen_session(rng) if rng.random() < 0.12 else _gen_case(rng)
        k += 1


def search(rng, tier):
    """cases for the failing-input search: single datasets and (round 4) lists of datasets with
    related designs, half and half"""
    while True:
        yield _gen_session(rng) if rng.random() < 0.5 else _gen_case(rng)


# ---------------------------------------------------------------- real code

def run_impl(case):
    return orc.observe(case, full=False)


# ---------------------------------------------------------------- model

def _num(case):
    return rat if case['method'] in EXACT else fbits


def _model_req(case, coded):
    exact = case['method'] in EXACT
    enc = rat if exact else fbits
    sc = case['scale']
    data = [[None if v is None else enc(F(v, sc) if exact else v / sc) for v in row]
            for row in case['vals']]
    lab_code = orc.label_codes(case['labels'])
    labels = [lab_code[l] for l in case['labels']]
    folds = None
    if case['folds'] is not None:
        fc = orc.label_codes(case['folds'])
        folds = [fc[f] for f in case['folds']]
    noise = None
    if case['noise'] is not None:
        ns = case['noise_scale']
        noise = [[enc(F(v, ns) if exact else v / ns) for v in row] for row in case['noise']]
    bal, nF = orc.balanced_kind(case)
    if bal == 'cv':
        # fold codes 0..F-1 for the balanced formula
        fs = sorted(set(folds))
        folds = [fs.index(f) for f in folds]
    return {
        'op': 'c15.calc', 'mode': 'rat' if exact else 'float', 'data': data, 'labels': labels,
        'folds': folds, 'cv_given': case['folds'] is not None, 'method': case['method'],
        'P': len(case['vals'][0]),
        'number': case['weighting'] == 'number', 'coded': coded, 'noise': noise,
        'lam': enc(F(case['lam']) if exact else case['lam']),
        'pw': enc(F(case['pw']) if exact else case['pw']),
        'bal': bal if not coded else 'none', 'F': nF}


def _one_req(case):
    exact = case['method'] in EXACT
    enc = rat if exact else fbits
    sc = case['scale']
    a, b = case['one']
    ia = [i for i, l in enumerate(case['labels']) if l == a]
    ib = [i for i, l in enumerate(case['labels']) if l == b]
    cva, cvb = orc.one_cv_codes(case, ia, ib)
    rows = lambda idx: [[None if v is None else enc(F(v, sc) if exact else v / sc)
                         for v in case['vals'][i]] for i in idx]
    noise = None
    if case['noise'] is not None:
        ns = case['noise_scale']
        noise = [[enc(F(v, ns) if exact else v / ns) for v in row] for row in case['noise']]
    return {'op': 'c15.one', 'mode': 'rat' if exact else 'float', 'data_i': rows(ia),
            'data_j': rows(ib), 'cv_i': cva, 'cv_j': cvb, 'method': case['method'],
            'P': len(case['vals'][0]), 'number': case['weighting'] == 'number', 'coded': False,
            'noise': noise, 'lam': enc(F(case['lam']) if exact else case['lam']),
            'pw': enc(F(case['pw']) if exact else case['pw'])}


def _layout_req(case):
    """the measurement array as raw memory (flat buffer, offset, strides in elements)"""
    X = orc._matrix(case)
    flat, off, s0, s1 = orc.raw_view(X)
    ints = X.dtype.kind in 'iu'
    if ints:
        buf = [int(v) for v in flat]
    else:
        buf = [None if math.isnan(float(v)) else fbits(float(v)) for v in flat]
    return {'op': 'c15.layout', 'ints': ints, 'buf': buf, 'off': int(off), 's0': int(s0),
            's1': int(s1), 'n': int(X.shape[0]), 'P': int(X.shape[1])}


def model_requests(case):
    reqs = [_model_req(case, False), _model_req(case, True), _layout_req(case)]
    if case.get('one'):
        reqs.append(_one_req(case))
    for sc in orc.sub_cases(case)[1:]:
        reqs.append(_model_req(sc, False))
    return reqs


def _dec(case, x):
    if x is None:
        return float('nan')
    return float(unrat(x)) if case['method'] in EXACT else unfbits(x)


def model_result(case, answers):
    for a in answers:
        if isinstance(a, dict) and 'model_error' in a:
            return {'model_error': a['model_error']}
    spec, coded = answers[0], answers[1]
    back = {v: k for k, v in orc.label_codes(case['labels']).items()}
    res = {
        'labels': [back[u] for u in spec['uniq']],
        'rdm': [_dec(case, x) for x in spec['rdm']],
        'buf': [_dec(case, x) for x in spec['out']],
        'spec': [_dec(case, x) for x in spec['spec']],
        'specbuf': [_dec(case, x) for x in spec['specself'] + spec['speccross']],
        'bal': [_dec(case, x) for x in spec['bal']],
        'coded_buf': [_dec(case, x) for x in coded['out']],
        'one': None,
    }
    lay = answers[2]
    res['layout'] = {'s0': lay['s0'], 's1': lay['s1'],
                     'read': [[float('nan') if x is None else unfbits(x) for x in row]
                              for row in lay['read']]}
    k = 3
    if case.get('one'):
        res['one'] = [_dec(case, x) for x in answers[3]]
        k = 4
    res['multi'] = None
    if case.get('extra'):
        # every dataset of the list modelled alone (own labels, folds, mask); pair maps keyed by the
        # labels of the first dataset, as the rows of the list result are
        res['multi'] = [orc.as_map(res['labels'], res['rdm'])]
        for sc, a in zip(orc.sub_cases(case)[1:], answers[k:]):
            bk = {v: kk for kk, v in orc.label_codes(sc['labels']).items()}
            uq = orc.to_first(res['labels'], [bk[u] for u in a['uniq']])
            res['multi'].append(orc.as_map(uq, [_dec(case, x) for x in a['rdm']]))
    return res


def _tol(impl, model):
    vals = [abs(v) for v in (impl.get('buf') or []) + (model.get('buf') or [])
            if isinstance(v, float) and math.isfinite(v)]
    return 1e-10 * max([1.0] + vals)


def compare(case, impl, model):
    if 'model_error' in model:
        return f"model error {model['model_error']}"
    if 'exc' in impl:
        return f"implementation raised {impl['exc']}"
    atol = _tol(impl, model)
    if impl['labels'] != model['labels']:
        return f"labels {impl['labels']} != {model['labels']}"
    for key, mkey in (('buf', 'buf'), ('rdm', 'rdm'), ('rdm_alt', 'rdm')):
        d = first_diff(impl[key], model[mkey], 1e-9, atol, key)
        if d:
            return 'impl vs model ' + d
    # dtype / memory layout: what `ensure_double` hands to the kernel (strides and content) against
    # the layout model reading the raw memory of the user's array; and against the case's values
    il, ml = impl.get('layout'), model['layout']
    if il is not None:
        if 'exc' in il:
            return 'ensure_double: ' + il['exc']
        want = [[float('nan') if v is None else v / case['scale'] for v in row] for row in case['vals']]
        d = first_diff(il['read'], ml['read'], 0.0, 0.0, 'ensure_double content') or \
            first_diff(ml['read'], want, 0.0, 0.0, 'layout model vs logical matrix')
        if not d and min(len(want), len(want[0])) >= 2 and (il['s0'], il['s1']) != (ml['s0'], ml['s1']):
            d = f"ensure_double strides {(il['s0'], il['s1'])} != layout model {(ml['s0'], ml['s1'])}"
        if d:
            return 'impl vs model ' + d
    if case.get('one'):
        d = first_diff(impl['one'], model['one'], 1e-9, atol, 'calc_one')
        if d:
            return 'impl vs model ' + d
    if case.get('extra'):
        if len(impl['multi']) != len(model['multi']):
            return f"impl vs model list input: {len(impl['multi'])} rows != {len(model['multi'])}"
        for kk, (ri, rm) in enumerate(zip(impl['multi'], model['multi'])):
            d = orc.map_diff(ri, rm, 1e-9, atol)
            if d:
                return f'impl vs model list input, dataset {kk}: ' + d
    # the executed model against its own specification / balanced formulas (runtime echo of
    # the theorems `unb_eq_spec`, `unb_*_eq_balanced`)
    d = first_diff(model['rdm'], model['spec'], 1e-9, atol, 'model rdm vs specDist')
    d = d or first_diff(model['buf'], model['specbuf'], 1e-9, atol, 'model buffer vs specSim')
    if d:
        return 'model-internal ' + d
    if model['bal']:
        d = first_diff(model['rdm'], model['bal'], 1e-9, atol, 'model rdm vs balanced formula')
        if d:
            return 'model-internal ' + d
        if impl.get('balanced') is not None:
            want = orc.as_map(model['labels'], model['bal'])
            d = orc.map_diff(impl['balanced'], want, 1e-9, atol)
            if d:
                return 'calc_rdm vs model balanced formula: ' + d
    # (thorough tier) the shipped binary against the binary rebuilt from the tree's similarity.c;
    # not where the kernel reads past its buffers (values not reproducible, known finding)
    rb = impl.get('rebuilt')
    if rb is not None and not (orc.has_missing(case) and case['noise'] is not None):
        if 'exc' in rb:
            return f"kernel rebuilt from similarity.c raised {rb['exc']}"
        d = first_diff(impl['buf'], rb['buf'], 1e-12, 1e-300, 'buffer') or \
            first_diff(impl['rdm'], rb['rdm'], 1e-12, 1e-300, 'rdm')
        if not d and case.get('one'):
            d = first_diff(impl['one'], rb['one'], 1e-12, 1e-300, 'calc_one')
        if d:
            return 'shipped similarity*.so vs the kernel rebuilt from similarity.c: ' + d
    # the kernel *text* (leaves with C semantics) against the compiled kernel
    if orc.coded_comparable(case):
        d = first_diff(impl['buf'], model['coded_buf'], 1e-9, atol, 'buf')
        if d:
            return 'compiled kernel vs model of the .pyx text: ' + d
    return None


# ---------------------------------------------------------------- features

def list_tags(case):
    """how consecutive datasets of a list input are related (computed from the data)"""
    subs = orc.sub_cases(case)
    if len(subs) < 2:
        return []
    tags = {'len%d' % min(len(subs), 4)}
    cont = case.get('container', 'list')
    if cont != 'list':
        tags.add(cont)
    if case['folds'] is None:
        tags.add('no-folds')
    if case['noise'] is not None and case.get('noise_mode') == 'list':
        if cont == 'tuple':
            tags.add('noise-tuple')
        if not any(orc.has_missing(c) for c in subs):
            tags.add('noise-per-dataset-complete')
    pat = lambda c: [[v is None for v in row] for row in c['vals']]
    design = lambda c: (list(c['labels']), None if c['folds'] is None else _partition(c['folds']))
    for k in range(1, len(subs)):
        a, b = subs[k - 1], subs[k]
        same_cond = list(a['labels']) == list(b['labels'])
        if orc.has_missing(b):
            tags.add('member-missing')
        if same_cond and a['folds'] is not None and _partition(a['folds']) != _partition(b['folds']):
            tags.add('fold-changed')
            if orc.balanced_kind(a)[0] == 'cv' and orc.balanced_kind(b)[0] == 'cv':
                tags.add('fold-changed-balanced')
        if same_cond and design(a) == design(b) and len(a['vals'][0]) == len(b['vals'][0]):
            tags.add('same-design' if pat(a) == pat(b) else 'mask-changed')
        if not same_cond:
            tags.add('cond-vector-changed')
        if orc.first_appearance(a['labels']) != orc.first_appearance(b['labels']):
            tags.add('first-order-changed')
        if len(a['labels']) != len(b['labels']):
            tags.add('nobs-changed')
        if len(a['vals'][0]) != len(b['vals'][0]):
            tags.add('channels-changed')
        if orc.kind_of(a, 'cond') != orc.kind_of(b, 'cond'):
            tags.add('cond-dtype-changed')
        if a['folds'] is not None and orc.kind_of(a, 'fold') != orc.kind_of(b, 'fold'):
            tags.add('fold-dtype-changed')
        if a['dtype'] != b['dtype']:
            tags.add('data-dtype-changed')
        if a['order'] != b['order']:
            tags.add('layout-changed')
        # a design met earlier in the list comes back after a different one
        if any(design(subs[j]) == design(b) for j in range(k - 1)) and design(a) != design(b):
            tags.add('revisit')
    return sorted(tags)


def features(case, impl):
    has_missing = any(v is None for row in case['vals'] for v in row)
    crossval = orc.crossval_of(case)
    br = ['method:' + case['method'], 'weighting:' + case['weighting'],
          'cv:given' if case['folds'] is not None else 'cv:none', 'mask:' + case['mask'],
          'dtype:' + case['dtype'], 'order:' + case['order']]
    d = case['design']
    br.append('design:' + {'foldbal1': 'foldbal', 'randfolds': 'unbalanced'}.get(d, d))
    if case['noise'] is not None:
        br.append('noise:given')
    if case.get('nodesc'):
        br.append('descriptor:none')
    if case.get('extra'):
        br.append('input:list')
        lt = list_tags(case)
        br += ['list:' + t for t in lt]
        if 'fold-changed' in lt:
            br += ['list-fold-changed:' + case['method'], 'list-fold-changed:' + case['weighting']]
        if case['noise'] is not None:
            br.append('noise:list' if case.get('noise_mode') == 'list' else 'noise:shared-list')
            if not has_missing:
                br.append('noise:list-complete' if case.get('noise_mode') == 'list'
                          else 'noise:shared-list-complete')
    br += ['values:' + t for t in value_tags(case)]
    if case.get('defaults'):
        br.append('defaults')
    if case.get('noise_order') == 'F' and case['noise'] is not None:
        br.append('noise:F')
    if case.get('extra') and KERNEL[case['method']] == 'poisson' and \
            (case['lam'], case['pw']) != (1.0, 0.1) and not case.get('defaults'):
        br.append('list:prior')
    if case['folds'] is None and case['method'] in ('crossnobis', 'poisson_cv'):
        br.append('cv:index-fallback')
    if impl and impl.get('layout') and 'exc' not in impl['layout']:
        br.append('layout-compared')
        if impl['layout']['s0'] < impl['layout']['s1']:
            br.append('layout:colmajor-kept')
        if case['dtype'] in ('int', 'int32', 'uint8'):
            br.append('layout:int-cast')
    br.append('cond:' + orc.kind_of(case, 'cond'))
    if case['folds'] is not None:
        br.append('fold:' + orc.kind_of(case, 'fold'))
        fs = set(case['folds'])
        if all(isinstance(f, (int, float)) and not isinstance(f, bool) for f in fs) and \
                len({int(f) for f in fs}) < len(fs):
            br.append('fold:collide-int')      # distinct folds that a cast to int would merge
    if case.get('one'):
        br.append('one:self' if case['one'][0] == case['one'][1] else 'one:cross')
        br += ['one:' + case['method'], 'one:' + case['weighting']]
        if has_missing:
            br.append('one:missing')
        if case['noise'] is not None:
            br.append('one:noise')
    if impl and impl.get('rebuilt') and 'exc' not in impl['rebuilt']:
        br.append('rebuilt-so')
    if impl and 'rdm' in impl:
        if any(isinstance(v, float) and math.isnan(v) for v in impl['rdm']):
            br.append('nan-entry')
        if impl.get('balanced') is not None:
            br.append('balanced-compared')
    return {'method': case['method'], 'weighting': case['weighting'], 'crossval': crossval,
            'has_missing': has_missing, 'noise_given': case['noise'] is not None,
            'design': case['design'], 'mask': case['mask'], 'dtype': case['dtype'],
            'order': case['order'], 'n_obs': len(case['labels']),
            'cond_kind': orc.kind_of(case, 'cond'),
            'fold_kind': orc.kind_of(case, 'fold') if case['folds'] is not None else 'none',
            'n_cond': len(set(case['labels'])), 'n_channel': len(case['vals'][0]),
            'vclass': '+'.join(value_tags(case)) or 'none', 'defaults': bool(case.get('defaults')),
            'has_one': bool(case.get('one')), 'is_list': bool(case.get('extra')),
            'list_len': 1 + len(case.get('extra') or []),
            'list_relation': '+'.join(t for t in list_tags(case) if not t.startswith('len')) or 'none',
            'branches': br}


def nontrivial_key(case, impl):
    if len(set(case['labels'])) < 2 or not impl or 'rdm' not in impl:
        return None
    return [case['method'], case['weighting'], case['design'], case['mask'], case['labels'],
            case['folds'], case['vals'], case['noise'], case.get('extra')]


# ---------------------------------------------------------------- oracle / shrink

def oracle(case):
    with warnings.catch_warnings():
        warnings.simplefilter('ignore')
        return orc.oracle(case)


def _klass(case):
    o = oracle(case)
    if not o:
        return None
    f = o.get('features', {})
    return (f.get('violation'), f.get('signature'), f.get('variant'))


def shrink(case, still_fails):
    """smaller case failing in the *same way* (same check, same defect signature), so that a
    genuine violation is not shrunk into a known finding or vice versa"""
    k0 = _klass(case)
    if k0 is None:
        return case
    return orc.shrink(case, lambda c: _klass(c) == k0)
