"""C15 — unbalanced (compiled) estimator matches the balanced one, skips missing channels.

Engine interface (see harness/run_check.py).  Real code: `calc_rdm_unbalanced`,
`calc_one_similarity`, `calc_rdm` (imported from the working tree, compiled kernel = the .so
the tree provides).  Model: `Rsa.Core.Unbalanced` through driver ops `c15.calc`, `c15.one`.
Helpers live in engines/C15_oracle.py (independent transcription of the property).
"""
import math
import warnings
from fractions import Fraction as F

import numpy as np

from lean import rat, unrat, fbits, unfbits, first_diff, close
from engines import C15_oracle as orc

PROPERTY = 'C15'
LEVEL = 'proof'
P_ = 'Rsa.Props.C15.'
THEOREMS = [P_ + n for n in (
    'idx_is_tri', 'idx_injective', 'idx_lt_buffer', 'idx_position',
    'loop_eq_pair_average', 'unb_eq_spec',
    'unb_euclid_eq_balanced', 'unb_mahalanobis_eq_balanced',
    'missing_channel_skipped', 'missing_everywhere_no_effect', 'no_valid_product_nan',
    'no_shared_channel_weight_zero',
    'equal_eq_number_no_missing', 'coded_half_is_zero', 'equal_weighting_ok_partial',
    'corr_kernel_ok_partial', 'mahal_kernel_ok_partial', 'labels_first_appearance',
    'unb_single_obs_eq_balanced', 'single_obs_correlation', 'single_obs_poisson',
    'entry_eq_rectangle_average', 'unb_cv_eq_balanced', 'unb_poisson_cv_eq_balanced',
    'unb_poisson_cv_partial',
    'calc_one_eq_entry', 'leaf_combine_and_prior')]
RULE = ('one PRNG; a case = dataset (3-12 observations, 2-5 conditions, 2-6 channels, small '
        'dyadic values, int/float dtype, C/F order; condition and fold labels are opaque values '
        'of 8 kinds: small / negative / large ints, floats with fractional parts (float64, '
        'float32), str arrays, lists of np.str_, bools; arbitrary order) x design '
        '(single / unbalanced counts / fold-balanced / random folds) x missing-channel mask (none / '
        'whole channels / per observation / whole observation / disjoint supports) x method (6) x '
        'weighting (2) x precision (none / SPD) x fold descriptor (none / given) (+ one condition '
        'pair for the single-pair helper).  Non-trivial: >= 2 conditions and at least one finite '
        'dissimilarity or a NaN forced by the mask; distinct = distinct (method, weighting, design, '
        'mask, labels, folds, values).')
BRANCHES = ['method:euclidean', 'method:correlation', 'method:mahalanobis', 'method:crossnobis',
            'method:poisson', 'method:poisson_cv', 'weighting:number', 'weighting:equal',
            'cv:given', 'cv:none', 'mask:none', 'mask:whole', 'mask:perobs', 'mask:obs',
            'mask:disjoint', 'dtype:int', 'dtype:float', 'order:C', 'order:F',
            'design:single', 'design:unbalanced', 'design:foldbal', 'noise:given',
            'one:cross', 'one:self', 'nan-entry', 'balanced-compared']
BRANCHES += ['cond:' + k for k in ('int', 'negint', 'bigint', 'float', 'float32', 'str', 'npstr', 'bool')]
BRANCHES += ['fold:' + k for k in ('int', 'negint', 'bigint', 'float', 'float32', 'str', 'npstr', 'bool')]
BRANCHES += ['fold:collide-int', 'descriptor:none', 'input:list', 'noise:list', 'noise:shared-list',
             'noise:list-complete', 'noise:shared-list-complete']
ASSUMPTIONS = [
    'float64 evaluation of either side is within 1e-9 relative (+1e-10 x scale absolute) of the '
    'exact value on the generated small dyadic inputs',
    'precision matrices are symmetric (the kernel applies the transposed block; equal for symmetric input)',
    'single-observation and balanced-equality claims for correlation exclude constant patterns',
]
TRUSTED_EXTRA = [
    'the compiled similarity*.so of the working tree is what is exercised; similarity.pyx is tied '
    'by the translator leaves (C division semantics) and by the coded-variant comparison',
    'numpy.unique / argsort contracts behind get_unique_inverse',
]

METHODS = ['euclidean', 'correlation', 'mahalanobis', 'crossnobis', 'poisson', 'poisson_cv']
KERNEL = {'euclidean': 'euclidean', 'correlation': 'correlation', 'mahalanobis': 'mahalanobis',
          'crossnobis': 'mahalanobis', 'poisson': 'poisson', 'poisson_cv': 'poisson'}
EXACT = {'euclidean', 'mahalanobis', 'crossnobis'}


# ---------------------------------------------------------------- generation

LABEL_KINDS = ['int', 'negint', 'bigint', 'float', 'float32', 'str', 'npstr', 'bool']


def _label_kind(rng, n, force=None):
    """kind of a descriptor with n distinct values (bool only has two)"""
    if force and (force != 'bool' or n <= 2):
        return force
    kinds = [k for k in LABEL_KINDS if k != 'bool' or n <= 2]
    return rng.choice(kinds)


def _labels(rng, n, kind):
    """n distinct label values of a kind; labels are opaque (only equality matters), so
    the pools contain values that collide under int(), lower(), bool() or float32 rounding"""
    if kind == 'int':
        return rng.sample(range(0, 40), n)
    if kind == 'negint':
        return rng.sample(range(-20, 6), n)
    if kind == 'bigint':
        return rng.sample([10 ** 12, 10 ** 12 + 1, 2 ** 40, 2 ** 31, 2 ** 31 - 1, 2 ** 32, 7, 0,
                           -2 ** 33, 999999999999], n)
    if kind in ('float', 'float32'):
        # dyadic, several values per integer part (1.0, 1.25, 1.5 ...), also negative / zero
        if n <= 4 and rng.random() < 0.6:       # all in one unit interval: equal under int()
            b = rng.choice([0, 1, 2, -3, 7])
            return [b + q for q in rng.sample([0.0, 0.25, 0.5, 0.75], n)]
        return rng.sample([0.0, 0.25, 0.5, 0.75, 1.0, 1.25, 1.5, 1.75, 2.0, 2.5, -0.5, -0.25,
                           -1.5, 3.0, 3.5], n)
    if kind == 'bool':
        return rng.sample([False, True], n)
    return rng.sample(['a', 'A', 'b', 'zz', 'm1', 'cat', 'dog', 'B', 'x9', 'face', 'k', '1', '1.0',
                       '10', ' a'], n)


def _gen_case(rng, force=None):
    force = force or {}
    method = force.get('method') or rng.choice(METHODS)
    kern = KERNEL[method]
    weighting = force.get('weighting') or rng.choice(['number', 'number', 'equal'])
    n_cond = rng.randint(2, 5)
    P = rng.randint(3 if kern == 'correlation' else 2, 6)
    design = force.get('design') or rng.choice(
        ['single', 'unbalanced', 'unbalanced', 'foldbal', 'foldbal', 'foldbal1', 'randfolds'])
    cv_method = method in ('crossnobis', 'poisson_cv')
    if cv_method and design == 'single':
        design = 'foldbal1'
    if force.get('cond_kind') == 'bool':
        n_cond = 2
    lab_kind = _label_kind(rng, n_cond, force.get('cond_kind'))
    conds = _labels(rng, n_cond, lab_kind)
    fold_kind = None
    obs = []                                   # (cond label, fold label or None)
    folds_used = None
    if design == 'single':
        obs = [(c, None) for c in conds]
    elif design == 'unbalanced':
        for c in conds:
            obs += [(c, None)] * rng.randint(1, 3)
        while len(obs) > 12:
            obs.pop()
        if len({c for c, _ in obs}) < 2:
            obs = [(conds[0], None), (conds[1], None), (conds[0], None)]
    elif design in ('foldbal', 'foldbal1'):
        nf = 2 if force.get('fold_kind') == 'bool' else rng.randint(2, 3)
        fold_kind = _label_kind(rng, nf, force.get('fold_kind'))
        fl = _labels(rng, nf, fold_kind)
        for c in conds:
            r = 1 if design == 'foldbal1' else rng.randint(1, 2)
            for f in fl:
                obs += [(c, f)] * r
        while len(obs) > 14 and len(conds) > 2:     # drop a whole condition to stay small
            dropc = conds.pop()
            obs = [o for o in obs if o[0] != dropc]
        folds_used = True
    else:   # random folds
        nf = 2 if force.get('fold_kind') == 'bool' else rng.randint(2, 3)
        fold_kind = _label_kind(rng, nf, force.get('fold_kind'))
        fl = _labels(rng, nf, fold_kind)
        for c in conds:
            for _ in range(rng.randint(1, 3)):
                obs.append((c, rng.choice(fl)))
        obs = obs[:12]
        if len({c for c, _ in obs}) < 2:
            obs = [(conds[0], fl[0]), (conds[1], fl[0]), (conds[0], fl[1])]
        folds_used = True
    rng.shuffle(obs)
    labels = [c for c, _ in obs]
    give_cv = bool(folds_used) and (cv_method or rng.random() < 0.35)
    if cv_method and folds_used and rng.random() < 0.08:
        give_cv = False                      # falls back to 'index' inside the library
    folds = [f for _, f in obs] if give_cv else None
    n_obs = len(obs)
    lo = 1 if kern == 'poisson' else -4
    scale = rng.choice([1, 1, 2, 4])
    mask = force.get('mask') or rng.choice(['none'] * 5 + ['whole', 'whole', 'perobs', 'perobs',
                                                       'perobs', 'obs', 'disjoint'])
    dtype = 'float'
    if mask == 'none' and rng.random() < 0.3:
        dtype, scale = 'int', 1
    order = rng.choice(['C', 'C', 'F'])
    for _attempt in range(30):
        vals = [[rng.randint(lo, 8) for _ in range(P)] for _ in range(n_obs)]
        if mask == 'whole':
            for c in rng.sample(range(P), rng.randint(1, max(1, P - (3 if kern == 'correlation' else 1)))):
                for row in vals:
                    row[c] = None
        elif mask == 'perobs':
            for row in vals:
                if rng.random() < 0.5:
                    for c in rng.sample(range(P), rng.randint(1, max(1, P - 3))):
                        row[c] = None
        elif mask == 'obs':
            i = rng.randrange(n_obs)
            vals[i] = [None] * P
            if rng.random() < 0.4:           # a whole condition without data
                for k in range(n_obs):
                    if labels[k] == labels[i]:
                        vals[k] = [None] * P
        elif mask == 'disjoint':
            ca, cb = labels[0], next(l for l in labels if l != labels[0])
            cut = P // 2
            for k in range(n_obs):
                if labels[k] == ca:
                    vals[k][cut:] = [None] * (P - cut)
                elif labels[k] == cb:
                    vals[k][:cut] = [None] * cut
        if kern != 'correlation' or _corr_ok(vals, P):
            break
    else:
        mask = 'none'
        vals = [[(i * 3 + c * c + (i * c) % 5) % 7 + 1 for c in range(P)] for i in range(n_obs)]
    noise = None
    noise_scale = 1
    if kern == 'mahalanobis' and (force.get('noise') or rng.random() < 0.65):
        B = [[rng.randint(-1, 1) for _ in range(P)] for _ in range(P)]
        noise = [[sum(B[i][k] * B[j][k] for k in range(P)) + (2 if i == j else 0)
                  for j in range(P)] for i in range(P)]
        noise_scale = rng.choice([1, 2])
    case = {
        'vals': vals, 'scale': scale, 'dtype': dtype, 'order': order, 'labels': labels,
        'folds': folds, 'method': method, 'weighting': weighting, 'noise': noise,
        'noise_scale': noise_scale, 'lam': rng.choice([1.0, 0.5, 2.0]),
        'pw': rng.choice([0.1, 0.25, 1.0]), 'design': design, 'mask': mask, 'one': None,
        'cond_kind': lab_kind, 'fold_kind': fold_kind if folds is not None else None,
    }
    if force.get('nodesc') or (force.get('nodesc') is None and rng.random() < 0.06):
        # descriptor=None: every observation is its own condition ('index')
        case['nodesc'] = True
        case['labels'] = labels = list(range(n_obs))
        case['cond_kind'] = 'int'
        case['design'] = 'single' if folds is None else case['design']
    n_extra = force.get('extra', 0 if rng.random() < 0.88 else rng.randint(1, 2))
    if n_extra:
        case['extra'] = []
        case['noise_mode'] = force.get('noise_mode') or rng.choice(['shared', 'list'])
        for _ in range(n_extra):
            ev = [[None if v is None else rng.randint(lo, 8) for v in row] for row in vals]
            if kern == 'correlation' and not _corr_ok(ev, P):
                ev = [list(row) for row in vals]
            en = noise
            if noise is not None and case['noise_mode'] == 'list':
                B = [[rng.randint(-1, 1) for _ in range(P)] for _ in range(P)]
                en = [[sum(B[i][k] * B[j][k] for k in range(P)) + (2 if i == j else 0)
                       for j in range(P)] for i in range(P)]
            case['extra'].append({'vals': ev, 'noise': en})
    uniq = orc.first_appearance(labels)
    if rng.random() < 0.6:
        crossval = orc.crossval_of(case)
        if crossval and rng.random() < 0.3:
            a = rng.choice(uniq)
            case['one'] = [a, a]
        else:
            case['one'] = rng.sample(uniq, 2)
    return case


def _corr_ok(vals, P):
    """no pair of observations whose shared valid channels are 1-2 or constant"""
    n = len(vals)
    for i in range(n):
        for j in range(i, n):
            sh = [c for c in range(P) if vals[i][c] is not None and vals[j][c] is not None]
            if not sh:
                continue
            if len(sh) < 3:
                return False
            if len({vals[i][c] for c in sh}) < 2 or len({vals[j][c] for c in sh}) < 2:
                return False
    return True


def generate(rng, tier):
    n = 330 if tier == 'quick' else 9000
    # a deterministic skeleton that reaches every method x weighting x mask, then random cases
    k = 0
    for method in METHODS:
        for weighting in ('number', 'equal'):
            for mask in ('none', 'whole', 'perobs'):
                yield _gen_case(rng, {'method': method, 'weighting': weighting, 'mask': mask})
                k += 1
    for method in METHODS:
        yield _gen_case(rng, {'method': method, 'mask': 'none', 'weighting': 'number',
                              'design': 'foldbal1' if method in ('crossnobis', 'poisson_cv') else 'single'})
        k += 1
    for method in ('euclidean', 'correlation', 'poisson', 'crossnobis'):
        yield _gen_case(rng, {'method': method, 'nodesc': True, 'mask': 'none'})
        k += 1
    for method in ('euclidean', 'mahalanobis', 'crossnobis', 'poisson_cv'):
        yield _gen_case(rng, {'method': method, 'extra': 2, 'nodesc': False})
        k += 1
    for method in ('mahalanobis', 'crossnobis'):
        for mode in ('list', 'shared'):     # complete data, so outside the known-finding region
            yield _gen_case(rng, {'method': method, 'extra': 2, 'nodesc': False, 'mask': 'none',
                                  'noise': True, 'noise_mode': mode, 'weighting': 'number'})
            k += 1
    for kind in LABEL_KINDS:
        yield _gen_case(rng, {'cond_kind': kind, 'method': rng.choice(METHODS)})
        for method in ('crossnobis', 'poisson_cv', 'euclidean'):
            yield _gen_case(rng, {'fold_kind': kind, 'method': method, 'mask': 'none',
                                  'weighting': 'number',
                                  'design': 'foldbal1' if method == 'poisson_cv' else 'foldbal'})
            k += 1
        k += 1
    while k < n:
        yield _gen_case(rng)
        k += 1


def search(rng, tier):
    while True:
        yield _gen_case(rng)


# ---------------------------------------------------------------- real code

def run_impl(case):
    return orc.observe(case, full=False)


# ---------------------------------------------------------------- model

def _num(case):
    return rat if case['method'] in EXACT else fbits


def _model_req(case, coded):
    exact = case['method'] in EXACT
    enc = rat if exact else fbits
    sc = case['scale']
    data = [[None if v is None else enc(F(v, sc) if exact else v / sc) for v in row]
            for row in case['vals']]
    lab_code = orc.label_codes(case['labels'])
    labels = [lab_code[l] for l in case['labels']]
    folds = None
    crossval = orc.crossval_of(case)
    if crossval:
        if case['folds'] is not None:
            fc = orc.label_codes(case['folds'])
            folds = [fc[f] for f in case['folds']]
        else:
            folds = list(range(len(labels)))
    noise = None
    if case['noise'] is not None:
        ns = case['noise_scale']
        noise = [[enc(F(v, ns) if exact else v / ns) for v in row] for row in case['noise']]
    bal, nF = orc.balanced_kind(case)
    if bal == 'cv':
        # fold codes 0..F-1 for the balanced formula
        fs = sorted(set(folds))
        folds = [fs.index(f) for f in folds]
    return {
        'op': 'c15.calc', 'mode': 'rat' if exact else 'float', 'data': data, 'labels': labels,
        'folds': folds, 'method': KERNEL[case['method']], 'P': len(case['vals'][0]),
        'number': case['weighting'] == 'number', 'coded': coded, 'noise': noise,
        'lam': enc(F(case['lam']) if exact else case['lam']),
        'pw': enc(F(case['pw']) if exact else case['pw']),
        'bal': bal if not coded else 'none', 'F': nF}


def _one_req(case):
    exact = case['method'] in EXACT
    enc = rat if exact else fbits
    sc = case['scale']
    a, b = case['one']
    ia = [i for i, l in enumerate(case['labels']) if l == a]
    ib = [i for i, l in enumerate(case['labels']) if l == b]
    cva, cvb = orc.one_cv_codes(case, ia, ib)
    rows = lambda idx: [[None if v is None else enc(F(v, sc) if exact else v / sc)
                         for v in case['vals'][i]] for i in idx]
    noise = None
    if case['noise'] is not None:
        ns = case['noise_scale']
        noise = [[enc(F(v, ns) if exact else v / ns) for v in row] for row in case['noise']]
    return {'op': 'c15.one', 'mode': 'rat' if exact else 'float', 'data_i': rows(ia),
            'data_j': rows(ib), 'cv_i': cva, 'cv_j': cvb, 'method': KERNEL[case['method']],
            'P': len(case['vals'][0]), 'number': case['weighting'] == 'number', 'coded': False,
            'noise': noise, 'lam': enc(F(case['lam']) if exact else case['lam']),
            'pw': enc(F(case['pw']) if exact else case['pw'])}


def model_requests(case):
    reqs = [_model_req(case, False), _model_req(case, True)]
    if case.get('one'):
        reqs.append(_one_req(case))
    for sc in orc.sub_cases(case)[1:]:
        reqs.append(_model_req(sc, False))
    return reqs


def _dec(case, x):
    if x is None:
        return float('nan')
    return float(unrat(x)) if case['method'] in EXACT else unfbits(x)


def model_result(case, answers):
    for a in answers:
        if isinstance(a, dict) and 'model_error' in a:
            return {'model_error': a['model_error']}
    spec, coded = answers[0], answers[1]
    back = {v: k for k, v in orc.label_codes(case['labels']).items()}
    res = {
        'labels': [back[u] for u in spec['uniq']],
        'rdm': [_dec(case, x) for x in spec['rdm']],
        'buf': [_dec(case, x) for x in spec['out']],
        'spec': [_dec(case, x) for x in spec['spec']],
        'specbuf': [_dec(case, x) for x in spec['specself'] + spec['speccross']],
        'bal': [_dec(case, x) for x in spec['bal']],
        'coded_buf': [_dec(case, x) for x in coded['out']],
        'one': None,
    }
    k = 2
    if case.get('one'):
        res['one'] = [_dec(case, x) for x in answers[2]]
        k = 3
    res['multi'] = None
    if case.get('extra'):
        res['multi'] = [res['rdm']] + [[_dec(case, x) for x in a['rdm']] for a in answers[k:]]
    return res


def _tol(impl, model):
    vals = [abs(v) for v in (impl.get('buf') or []) + (model.get('buf') or [])
            if isinstance(v, float) and math.isfinite(v)]
    return 1e-10 * max([1.0] + vals)


def compare(case, impl, model):
    if 'model_error' in model:
        return f"model error {model['model_error']}"
    if 'exc' in impl:
        return f"implementation raised {impl['exc']}"
    atol = _tol(impl, model)
    if impl['labels'] != model['labels']:
        return f"labels {impl['labels']} != {model['labels']}"
    for key, mkey in (('buf', 'buf'), ('rdm', 'rdm'), ('rdm_alt', 'rdm')):
        d = first_diff(impl[key], model[mkey], 1e-9, atol, key)
        if d:
            return 'impl vs model ' + d
    if case.get('one'):
        d = first_diff(impl['one'], model['one'], 1e-9, atol, 'calc_one')
        if d:
            return 'impl vs model ' + d
    if case.get('extra'):
        d = first_diff(impl['multi'], model['multi'], 1e-9, atol, 'list input, row')
        if d:
            return 'impl vs model ' + d
    # the executed model against its own specification / balanced formulas (runtime echo of
    # the theorems `unb_eq_spec`, `unb_*_eq_balanced`)
    d = first_diff(model['rdm'], model['spec'], 1e-9, atol, 'model rdm vs specDist')
    d = d or first_diff(model['buf'], model['specbuf'], 1e-9, atol, 'model buffer vs specSim')
    if d:
        return 'model-internal ' + d
    if model['bal']:
        d = first_diff(model['rdm'], model['bal'], 1e-9, atol, 'model rdm vs balanced formula')
        if d:
            return 'model-internal ' + d
        if impl.get('balanced') is not None:
            want = orc.as_map(model['labels'], model['bal'])
            d = orc.map_diff(impl['balanced'], want, 1e-9, atol)
            if d:
                return 'calc_rdm vs model balanced formula: ' + d
    # the kernel *text* (leaves with C semantics) against the compiled kernel
    if orc.coded_comparable(case):
        d = first_diff(impl['buf'], model['coded_buf'], 1e-9, atol, 'buf')
        if d:
            return 'compiled kernel vs model of the .pyx text: ' + d
    return None


# ---------------------------------------------------------------- features

def features(case, impl):
    has_missing = any(v is None for row in case['vals'] for v in row)
    crossval = orc.crossval_of(case)
    br = ['method:' + case['method'], 'weighting:' + case['weighting'],
          'cv:given' if case['folds'] is not None else 'cv:none', 'mask:' + case['mask'],
          'dtype:' + case['dtype'], 'order:' + case['order']]
    d = case['design']
    br.append('design:' + {'foldbal1': 'foldbal', 'randfolds': 'unbalanced'}.get(d, d))
    if case['noise'] is not None:
        br.append('noise:given')
    if case.get('nodesc'):
        br.append('descriptor:none')
    if case.get('extra'):
        br.append('input:list')
        if case['noise'] is not None:
            br.append('noise:list' if case.get('noise_mode') == 'list' else 'noise:shared-list')
            if not has_missing:
                br.append('noise:list-complete' if case.get('noise_mode') == 'list'
                          else 'noise:shared-list-complete')
    br.append('cond:' + orc.kind_of(case, 'cond'))
    if case['folds'] is not None:
        br.append('fold:' + orc.kind_of(case, 'fold'))
        fs = set(case['folds'])
        if all(isinstance(f, (int, float)) and not isinstance(f, bool) for f in fs) and \
                len({int(f) for f in fs}) < len(fs):
            br.append('fold:collide-int')      # distinct folds that a cast to int would merge
    if case.get('one'):
        br.append('one:self' if case['one'][0] == case['one'][1] else 'one:cross')
    if impl and 'rdm' in impl:
        if any(isinstance(v, float) and math.isnan(v) for v in impl['rdm']):
            br.append('nan-entry')
        if impl.get('balanced') is not None:
            br.append('balanced-compared')
    return {'method': case['method'], 'weighting': case['weighting'], 'crossval': crossval,
            'has_missing': has_missing, 'noise_given': case['noise'] is not None,
            'design': case['design'], 'mask': case['mask'], 'dtype': case['dtype'],
            'order': case['order'], 'n_obs': len(case['labels']),
            'cond_kind': orc.kind_of(case, 'cond'),
            'fold_kind': orc.kind_of(case, 'fold') if case['folds'] is not None else 'none',
            'n_cond': len(set(case['labels'])), 'n_channel': len(case['vals'][0]),
            'branches': br}


def nontrivial_key(case, impl):
    if len(set(case['labels'])) < 2 or not impl or 'rdm' not in impl:
        return None
    return [case['method'], case['weighting'], case['design'], case['mask'], case['labels'],
            case['folds'], case['vals'], case['noise']]


# ---------------------------------------------------------------- oracle / shrink

def oracle(case):
    with warnings.catch_warnings():
        warnings.simplefilter('ignore')
        return orc.oracle(case)


def _klass(case):
    o = oracle(case)
    if not o:
        return None
    f = o.get('features', {})
    return (f.get('violation'), f.get('signature'), f.get('variant'))


def shrink(case, still_fails):
    """smaller case failing in the *same way* (same check, same defect signature), so that a
    genuine violation is not shrunk into a known finding or vice versa"""
    k0 = _klass(case)
    if k0 is None:
        return case
    return orc.shrink(case, lambda c: _klass(c) == k0)
