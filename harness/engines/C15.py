"""C15 — unbalanced (compiled) estimator matches the balanced one, skips missing channels.

Engine interface (see harness/run_check.py).  Real code: `calc_rdm_unbalanced`,
`calc_one_similarity`, `calc_rdm` (imported from the working tree, compiled kernel = the .so
the tree provides).  Model: `Rsa.Core.Unbalanced` through driver ops `c15.calc`, `c15.one`.
Helpers live in engines/C15_oracle.py (independent transcription of the property).
"""
import math
import warnings
from fractions import Fraction as F

import numpy as np

from lean import rat, unrat, fbits, unfbits, first_diff, close
from engines import C15_oracle as orc

PROPERTY = 'C15'
LEVEL = 'proof'
P_ = 'Rsa.Props.C15.'
THEOREMS = [P_ + n for n in (
    'idx_is_tri', 'idx_injective', 'idx_lt_buffer', 'idx_position',
    'loop_eq_pair_average', 'unb_eq_spec',
    'unb_euclid_eq_balanced', 'unb_mahalanobis_eq_balanced',
    'missing_channel_skipped', 'missing_everywhere_no_effect', 'no_valid_product_nan',
    'no_shared_channel_weight_zero',
    'equal_eq_number_no_missing', 'coded_half_is_zero', 'equal_weighting_ok_partial',
    'corr_kernel_ok_partial', 'mahal_kernel_ok_partial', 'labels_first_appearance',
    'unb_single_obs_eq_balanced', 'single_obs_correlation', 'single_obs_poisson',
    'entry_eq_rectangle_average', 'unb_cv_eq_balanced', 'unb_poisson_cv_eq_balanced',
    'unb_poisson_cv_partial',
    'calc_one_eq_entry', 'leaf_combine_and_prior',
    # round 3
    'layout_dtype_invariant', 'layouts_hold_matrix', 'leaf_guards', 'model_uses_leaves',
    'leaf_kernel_terms', 'kernels_by_leaves', 'dispatch_table', 'calc_one_weight',
    'leaf_python_slices')]
RULE = ('one PRNG; a case = dataset (2-14 observations, 2-5 conditions, 2-6 channels, small '
        'dyadic values; dtype int64 / int32 / uint8 / float64 / float32; memory layout C / Fortran / '
        'strided slice of a padded array / negative strides; value classes: random, channel exactly '
        'zero everywhere / wherever observed / for one condition, all observations identical, constant '
        'channel, all-zero observation, values not representable in float32; condition and fold labels '
        'are opaque values of 13 kinds: small / negative / large ints, uint8, int32, python int lists, '
        'floats with fractional parts (float64, float32, float16), str arrays, bytes, lists of np.str_, '
        'bools; arbitrary order) x design (single / unbalanced counts / fold-balanced / random folds / '
        'descriptor=None / list of datasets) x missing-channel mask (none / '
        'whole channels / per observation / whole observation / disjoint supports) x method (6) x '
        'weighting (2) x precision (none / SPD, C or F ordered, shared or per dataset) x fold descriptor '
        '(none / given) x arguments given / left to the signature defaults (+ one condition '
        'pair for the single-pair helper, for every method x weighting x mask).  Non-trivial: >= 2 conditions and at least one finite '
        'dissimilarity or a NaN forced by the mask; distinct = distinct (method, weighting, design, '
        'mask, labels, folds, values).')
BRANCHES = ['method:euclidean', 'method:correlation', 'method:mahalanobis', 'method:crossnobis',
            'method:poisson', 'method:poisson_cv', 'weighting:number', 'weighting:equal',
            'cv:given', 'cv:none', 'mask:none', 'mask:whole', 'mask:perobs', 'mask:obs',
            'mask:disjoint', 'dtype:int', 'dtype:float', 'order:C', 'order:F',
            'design:single', 'design:unbalanced', 'design:foldbal', 'noise:given',
            'one:cross', 'one:self', 'nan-entry', 'balanced-compared']
LABEL_KINDS = ['int', 'negint', 'bigint', 'float', 'float32', 'str', 'npstr', 'bool',
               'float16', 'uint8', 'int32', 'bytes', 'pylist']
BRANCHES += ['cond:' + k for k in LABEL_KINDS]
BRANCHES += ['fold:' + k for k in LABEL_KINDS]
# round 3: value classes (seeded C15-6), dtypes / layouts, the single-pair helper for every
# method / weighting / missing data, signature defaults, precision layout, list input with priors
VCLASSES = ['silent-all', 'silent-observed', 'silent-cond', 'identical', 'constant-channel', 'zero-obs',
            'fine']
BRANCHES += ['values:' + v for v in VCLASSES]
BRANCHES += ['dtype:int32', 'dtype:uint8', 'dtype:float32', 'order:strided', 'order:reversed',
             'layout-compared', 'layout:colmajor-kept', 'layout:int-cast']
BRANCHES += ['one:' + m for m in ('euclidean', 'correlation', 'mahalanobis', 'crossnobis', 'poisson',
                                  'poisson_cv')]
BRANCHES += ['one:equal', 'one:number', 'one:missing', 'one:noise', 'defaults', 'noise:F',
             'list:prior', 'cv:index-fallback']
BRANCHES += ['fold:collide-int', 'descriptor:none', 'input:list', 'noise:list', 'noise:shared-list',
             'noise:list-complete', 'noise:shared-list-complete']
ASSUMPTIONS = [
    'float64 evaluation of either side is within 1e-9 relative (+1e-10 x scale absolute) of the '
    'exact value on the generated small dyadic inputs',
    'precision matrices are symmetric (the kernel applies the transposed block; equal for symmetric input)',
    'single-observation and balanced-equality claims for correlation exclude constant patterns',
]
TRUSTED_EXTRA = [
    'the compiled similarity*.so of the working tree is what is exercised; similarity.pyx is tied '
    'by the translator leaves (C division semantics) and by the coded-variant comparison',
    'numpy.unique / argsort contracts behind get_unique_inverse',
    "numpy's astype(order='K') keeps the axis order of the source (row-major iff |stride 1| <= |stride 0|): "
    'modelled rule, compared with the strides numpy produces on every case',
    'thorough tier: gcc, the Python / numpy headers and the Cython-generated similarity.c shipped in the '
    'tree (similarity.pyx -> similarity.c cannot be regenerated: no Cython)',
]

METHODS = ['euclidean', 'correlation', 'mahalanobis', 'crossnobis', 'poisson', 'poisson_cv']
KERNEL = {'euclidean': 'euclidean', 'correlation': 'correlation', 'mahalanobis': 'mahalanobis',
          'crossnobis': 'mahalanobis', 'poisson': 'poisson', 'poisson_cv': 'poisson'}
EXACT = {'euclidean', 'mahalanobis', 'crossnobis'}


# ---------------------------------------------------------------- generation

def _label_kind(rng, n, force=None):
    """kind of a descriptor with n distinct values (bool only has two)"""
    if force and (force != 'bool' or n <= 2):
        return force
    kinds = [k for k in LABEL_KINDS if k != 'bool' or n <= 2]
    return rng.choice(kinds)


def _labels(rng, n, kind):
    """n distinct label values of a kind; labels are opaque (only equality matters), so
    the pools contain values that collide under int(), lower(), bool() or float32 rounding"""
    if kind == 'int':
        return rng.sample(range(0, 40), n)
    if kind == 'negint':
        return rng.sample(range(-20, 6), n)
    if kind == 'bigint':
        return rng.sample([10 ** 12, 10 ** 12 + 1, 2 ** 40, 2 ** 31, 2 ** 31 - 1, 2 ** 32, 7, 0,
                           -2 ** 33, 999999999999], n)
    if kind == 'pylist':
        return rng.sample(range(-3, 30), n)
    if kind == 'uint8':
        return rng.sample([0, 1, 2, 3, 7, 100, 127, 128, 200, 254, 255], n)
    if kind == 'int32':
        return rng.sample([0, 1, -1, 5, 17, -40, 2 ** 31 - 1, -2 ** 31, 65536, 99], n)
    if kind == 'bytes':
        return rng.sample(['a', 'A', 'b', 'zz', 'm1', 'cat', 'B', 'x9', '1', '10', ' a'], n)
    if kind in ('float', 'float32', 'float16'):
        # dyadic, several values per integer part (1.0, 1.25, 1.5 ...), also negative / zero
        if n <= 4 and rng.random() < 0.6:       # all in one unit interval: equal under int()
            b = rng.choice([0, 1, 2, -3, 7])
            return [b + q for q in rng.sample([0.0, 0.25, 0.5, 0.75], n)]
        return rng.sample([0.0, 0.25, 0.5, 0.75, 1.0, 1.25, 1.5, 1.75, 2.0, 2.5, -0.5, -0.25,
                           -1.5, 3.0, 3.5], n)
    if kind == 'bool':
        return rng.sample([False, True], n)
    return rng.sample(['a', 'A', 'b', 'zz', 'm1', 'cat', 'dog', 'B', 'x9', 'face', 'k', '1', '1.0',
                       '10', ' a'], n)


def _gen_case(rng, force=None):
    force = force or {}
    method = force.get('method') or rng.choice(METHODS)
    kern = KERNEL[method]
    weighting = force.get('weighting') or rng.choice(['number', 'number', 'equal'])
    n_cond = rng.randint(2, 5)
    P = rng.randint(3 if kern == 'correlation' else 2, 6)
    design = force.get('design') or rng.choice(
        ['single', 'unbalanced', 'unbalanced', 'foldbal', 'foldbal', 'foldbal1', 'randfolds'])
    cv_method = method in ('crossnobis', 'poisson_cv')
    if cv_method and design == 'single':
        design = 'foldbal1'
    if force.get('cond_kind') == 'bool':
        n_cond = 2
    lab_kind = _label_kind(rng, n_cond, force.get('cond_kind'))
    conds = _labels(rng, n_cond, lab_kind)
    fold_kind = None
    obs = []                                   # (cond label, fold label or None)
    folds_used = None
    if design == 'single':
        obs = [(c, None) for c in conds]
    elif design == 'unbalanced':
        for c in conds:
            obs += [(c, None)] * rng.randint(1, 3)
        while len(obs) > 12:
            obs.pop()
        if len({c for c, _ in obs}) < 2:
            obs = [(conds[0], None), (conds[1], None), (conds[0], None)]
    elif design in ('foldbal', 'foldbal1'):
        nf = 2 if force.get('fold_kind') == 'bool' else rng.randint(2, 3)
        fold_kind = _label_kind(rng, nf, force.get('fold_kind'))
        fl = _labels(rng, nf, fold_kind)
        for c in conds:
            r = 1 if design == 'foldbal1' else rng.randint(1, 2)
            for f in fl:
                obs += [(c, f)] * r
        while len(obs) > 14 and len(conds) > 2:     # drop a whole condition to stay small
            dropc = conds.pop()
            obs = [o for o in obs if o[0] != dropc]
        folds_used = True
    else:   # random folds
        nf = 2 if force.get('fold_kind') == 'bool' else rng.randint(2, 3)
        fold_kind = _label_kind(rng, nf, force.get('fold_kind'))
        fl = _labels(rng, nf, fold_kind)
        for c in conds:
            for _ in range(rng.randint(1, 3)):
                obs.append((c, rng.choice(fl)))
        obs = obs[:12]
        if len({c for c, _ in obs}) < 2:
            obs = [(conds[0], fl[0]), (conds[1], fl[0]), (conds[0], fl[1])]
        folds_used = True
    rng.shuffle(obs)
    labels = [c for c, _ in obs]
    give_cv = bool(folds_used) and (cv_method or rng.random() < 0.35)
    if cv_method and folds_used and rng.random() < 0.08:
        give_cv = False                      # falls back to 'index' inside the library
    folds = [f for _, f in obs] if give_cv else None
    n_obs = len(obs)
    lo = 1 if kern == 'poisson' else -4
    scale = rng.choice([1, 1, 2, 4])
    mask = force.get('mask') or rng.choice(['none'] * 5 + ['whole', 'whole', 'perobs', 'perobs',
                                                       'perobs', 'obs', 'disjoint'])
    vclass = force.get('vclass') or (rng.choice(VCLASSES) if rng.random() < 0.3 else 'random')
    if vclass == 'zero-obs' and kern == 'correlation':
        vclass = 'silent-all'                # an all-zero pattern is constant: outside the property
    if vclass == 'silent-observed' and mask in ('none', 'whole'):
        mask = 'perobs'
    dtype = 'float'
    if mask == 'none' and rng.random() < 0.4:
        dtype, scale = rng.choice(['int', 'int', 'int32', 'uint8']), 1
    elif rng.random() < 0.15:
        dtype = 'float32'
    if force.get('dtype') and (force['dtype'] in ('float', 'float32') or mask == 'none'):
        dtype = force['dtype']
        scale = scale if dtype in ('float', 'float32') else 1
    if vclass == 'fine':
        # values k + r / 2^22 (r odd): exact in float64, not representable in float32
        dtype, scale = 'float', FINE
    if dtype == 'uint8':
        lo = max(lo, 0)
    order = force.get('order') or rng.choice(['C', 'C', 'F', 'F', 'strided', 'reversed'])
    for _attempt in range(40):
        vals = [[rng.randint(lo, 8) for _ in range(P)] for _ in range(n_obs)]
        if vclass == 'fine':
            vals = [[v * FINE + (rng.randrange(1, FINE, 2) if rng.random() < 0.8 else 0) for v in row]
                    for row in vals]
        _apply_vclass(rng, vals, labels, vclass, P, lo)
        if mask == 'whole':
            for c in rng.sample(range(P), rng.randint(1, max(1, P - (3 if kern == 'correlation' else 1)))):
                for row in vals:
                    row[c] = None
        elif mask == 'perobs':
            for row in vals:
                if rng.random() < 0.5:
                    for c in rng.sample(range(P), rng.randint(1, max(1, P - 3))):
                        row[c] = None
            if vclass == 'silent-observed':
                # the silent channel: missing for some observations, zero for all the others
                c0 = next(c for c in range(P) if all(r[c] in (0, None) for r in vals))
                for k in range(n_obs):
                    vals[k][c0] = None if k % 2 == 0 and k + 1 < n_obs else 0
        elif mask == 'obs':
            i = rng.randrange(n_obs)
            vals[i] = [None] * P
            if rng.random() < 0.4:           # a whole condition without data
                for k in range(n_obs):
                    if labels[k] == labels[i]:
                        vals[k] = [None] * P
        elif mask == 'disjoint':
            ca, cb = labels[0], next(l for l in labels if l != labels[0])
            cut = P // 2
            for k in range(n_obs):
                if labels[k] == ca:
                    vals[k][cut:] = [None] * (P - cut)
                elif labels[k] == cb:
                    vals[k][:cut] = [None] * cut
        if kern != 'correlation' or _corr_ok(vals, P):
            break
    else:
        mask = 'none'
        vals = [[(i * 3 + c * c + (i * c) % 5) % 7 + 1 for c in range(P)] for i in range(n_obs)]
        if vclass == 'fine':                 # small integers: keep them of order one
            scale = 1
    noise = None
    noise_scale = 1
    if kern == 'mahalanobis' and (force.get('noise') or rng.random() < 0.65):
        B = [[rng.randint(-1, 1) for _ in range(P)] for _ in range(P)]
        noise = [[sum(B[i][k] * B[j][k] for k in range(P)) + (2 if i == j else 0)
                  for j in range(P)] for i in range(P)]
        noise_scale = rng.choice([1, 2])
    lam, pw = force.get('prior') or (rng.choice([1.0, 0.5, 2.0]), rng.choice([0.1, 0.25, 1.0]))
    defaults = force.get('defaults', rng.random() < 0.08)
    if defaults:                             # leave prior_lambda / prior_weight / weighting to the signature
        lam, pw, weighting = 1.0, 0.1, 'number'
    case = {
        'vals': vals, 'scale': scale, 'dtype': dtype, 'order': order, 'labels': labels,
        'folds': folds, 'method': method, 'weighting': weighting, 'noise': noise,
        'noise_scale': noise_scale, 'lam': lam, 'pw': pw, 'design': design, 'mask': mask, 'one': None,
        'cond_kind': lab_kind, 'fold_kind': fold_kind if folds is not None else None,
        'vclass': vclass, 'defaults': defaults,
        'noise_order': (force.get('noise_order') or rng.choice(['C', 'F'])) if noise is not None else None,
    }
    if force.get('nodesc') or (force.get('nodesc') is None and rng.random() < 0.06):
        # descriptor=None: every observation is its own condition ('index')
        case['nodesc'] = True
        case['labels'] = labels = list(range(n_obs))
        case['cond_kind'] = 'int'
        case['design'] = 'single' if folds is None else case['design']
    n_extra = force.get('extra', 0 if rng.random() < 0.88 else rng.randint(1, 2))
    if n_extra:
        case['extra'] = []
        case['noise_mode'] = force.get('noise_mode') or rng.choice(['shared', 'list'])
        for _ in range(n_extra):
            ev = [[None if v is None else rng.randint(lo, 8) for v in row] for row in vals]
            if kern == 'correlation' and not _corr_ok(ev, P):
                ev = [list(row) for row in vals]
            en = noise
            if noise is not None and case['noise_mode'] == 'list':
                B = [[rng.randint(-1, 1) for _ in range(P)] for _ in range(P)]
                en = [[sum(B[i][k] * B[j][k] for k in range(P)) + (2 if i == j else 0)
                       for j in range(P)] for i in range(P)]
            case['extra'].append({'vals': ev, 'noise': en})
    uniq = orc.first_appearance(labels)
    if force.get('one') or (force.get('one') is None and rng.random() < 0.6):
        crossval = orc.crossval_of(case)
        if crossval and rng.random() < 0.3:
            a = rng.choice(uniq)
            case['one'] = [a, a]
        else:
            case['one'] = rng.sample(uniq, 2)
    return case


FINE = 2 ** 22


def _apply_vclass(rng, vals, labels, vclass, P, lo):
    """value classes that random small integers (almost) never produce"""
    n = len(vals)
    if vclass in ('silent-all', 'silent-observed'):
        for c in rng.sample(range(P), 1 if P < 4 else rng.randint(1, 2)):
            for row in vals:                 # a channel that is exactly zero for every observation
                row[c] = 0
    elif vclass == 'silent-cond':
        c = rng.randrange(P)                 # a channel silent for one condition only
        a = rng.choice(labels)
        for k in range(n):
            if labels[k] == a:
                vals[k][c] = 0
    elif vclass == 'identical':
        for k in range(1, n):                # all observations identical
            vals[k] = list(vals[0])
    elif vclass == 'constant-channel':
        c = rng.randrange(P)                 # a channel with the same non-zero value everywhere
        v = rng.choice([x for x in (1, 3, 8, -2) if x >= lo])
        for row in vals:
            row[c] = v
    elif vclass == 'zero-obs':
        k = rng.randrange(n)                 # an observation that is zero in every channel
        vals[k] = [0] * P


def value_tags(case):
    """value classes actually present in the data (computed, not taken from the generator)"""
    vals, labels = case['vals'], case['labels']
    P = len(vals[0])
    tags = []
    cols = [[row[c] for row in vals] for c in range(P)]
    obs = [[v for v in col if v is not None] for col in cols]
    if any(o and len(o) == len(vals) and all(v == 0 for v in o) for o in obs):
        tags.append('silent-all')
    if any(o and len(o) < len(vals) and all(v == 0 for v in o) for o in obs):
        tags.append('silent-observed')
    for a in set(labels):
        for c in range(P):
            mine = [vals[k][c] for k in range(len(vals)) if labels[k] == a and vals[k][c] is not None]
            rest = [vals[k][c] for k in range(len(vals)) if labels[k] != a and vals[k][c] is not None]
            if mine and all(v == 0 for v in mine) and any(v != 0 for v in rest):
                tags.append('silent-cond')
    if len(vals) > 1 and all(row == vals[0] for row in vals) and any(v is not None for v in vals[0]):
        tags.append('identical')
    if any(len(o) == len(vals) and len(set(o)) == 1 and o[0] != 0 for o in obs):
        tags.append('constant-channel')
    if any(all(v == 0 for v in row) for row in vals):
        tags.append('zero-obs')
    sc = case['scale']
    if any(v is not None and float(np.float32(v / sc)) != v / sc for row in vals for v in row):
        tags.append('fine')
    return sorted(set(tags))


def _corr_ok(vals, P):
    """no pair of observations whose shared valid channels are 1-2 or constant"""
    n = len(vals)
    for i in range(n):
        for j in range(i, n):
            sh = [c for c in range(P) if vals[i][c] is not None and vals[j][c] is not None]
            if not sh:
                continue
            if len(sh) < 3:
                return False
            if len({vals[i][c] for c in sh}) < 2 or len({vals[j][c] for c in sh}) < 2:
                return False
    return True


def generate(rng, tier):
    n = 420 if tier == 'quick' else 9000
    if tier == 'thorough':
        # differential run of the shipped binary against a rebuild of the shipped C text
        if 'rebuilt-so' not in BRANCHES:
            BRANCHES.append('rebuilt-so')
        orc.rebuild_kernel()
    # a deterministic skeleton that reaches every method x weighting x mask (each with the
    # single-pair helper), then random cases
    k = 0
    for method in METHODS:
        for weighting in ('number', 'equal'):
            for mask in ('none', 'whole', 'perobs'):
                yield _gen_case(rng, {'method': method, 'weighting': weighting, 'mask': mask,
                                      'one': True, 'defaults': False})
                k += 1
    # value classes (seeded C15-6: a channel that is exactly zero wherever it is observed is data)
    for vclass in VCLASSES:
        for method in METHODS:
            yield _gen_case(rng, {'method': method, 'vclass': vclass, 'defaults': False,
                                  'mask': 'none' if vclass != 'silent-observed' else 'perobs',
                                  'weighting': 'number', 'nodesc': False})
            k += 1
    # dtypes x layouts of the measurement array; defaults of the signature; precision layout
    for dtype in ('int', 'int32', 'uint8', 'float', 'float32'):
        for order in orc.LAYOUTS:
            yield _gen_case(rng, {'method': rng.choice(METHODS), 'dtype': dtype, 'order': order,
                                  'mask': 'none'})
            k += 1
    for method in METHODS:
        yield _gen_case(rng, {'method': method, 'defaults': True, 'mask': 'none', 'one': True})
        k += 1
    for method in ('mahalanobis', 'crossnobis'):
        yield _gen_case(rng, {'method': method, 'noise': True, 'noise_order': 'F', 'mask': 'none',
                              'weighting': 'number', 'one': True})
        k += 1
    for method in ('poisson', 'poisson_cv'):
        yield _gen_case(rng, {'method': method, 'extra': 2, 'nodesc': False, 'defaults': False,
                              'mask': 'none', 'prior': (2.0, 0.25)})
        k += 1
    for method in METHODS:
        yield _gen_case(rng, {'method': method, 'mask': 'none', 'weighting': 'number',
                              'design': 'foldbal1' if method in ('crossnobis', 'poisson_cv') else 'single'})
        k += 1
    for method in ('euclidean', 'correlation', 'poisson', 'crossnobis'):
        yield _gen_case(rng, {'method': method, 'nodesc': True, 'mask': 'none'})
        k += 1
    for method in ('euclidean', 'mahalanobis', 'crossnobis', 'poisson_cv'):
        yield _gen_case(rng, {'method': method, 'extra': 2, 'nodesc': False})
        k += 1
    for method in ('mahalanobis', 'crossnobis'):
        for mode in ('list', 'shared'):     # complete data, so outside the known-finding region
            yield _gen_case(rng, {'method': method, 'extra': 2, 'nodesc': False, 'mask': 'none',
                                  'noise': True, 'noise_mode': mode, 'weighting': 'number'})
            k += 1
    for kind in LABEL_KINDS:
        yield _gen_case(rng, {'cond_kind': kind, 'method': rng.choice(METHODS)})
        for method in ('crossnobis', 'poisson_cv', 'euclidean'):
            yield _gen_case(rng, {'fold_kind': kind, 'method': method, 'mask': 'none',
                                  'weighting': 'number',
                                  'design': 'foldbal1' if method == 'poisson_cv' else 'foldbal'})
            k += 1
        k += 1
    while k < n:
        yield _gen_case(rng)
        k += 1


def search(rng, tier):
    while True:
        yield _gen_case(rng)


# ---------------------------------------------------------------- real code

def run_impl(case):
    return orc.observe(case, full=False)


# ---------------------------------------------------------------- model

def _num(case):
    return rat if case['method'] in EXACT else fbits


def _model_req(case, coded):
    exact = case['method'] in EXACT
    enc = rat if exact else fbits
    sc = case['scale']
    data = [[None if v is None else enc(F(v, sc) if exact else v / sc) for v in row]
            for row in case['vals']]
    lab_code = orc.label_codes(case['labels'])
    labels = [lab_code[l] for l in case['labels']]
    folds = None
    if case['folds'] is not None:
        fc = orc.label_codes(case['folds'])
        folds = [fc[f] for f in case['folds']]
    noise = None
    if case['noise'] is not None:
        ns = case['noise_scale']
        noise = [[enc(F(v, ns) if exact else v / ns) for v in row] for row in case['noise']]
    bal, nF = orc.balanced_kind(case)
    if bal == 'cv':
        # fold codes 0..F-1 for the balanced formula
        fs = sorted(set(folds))
        folds = [fs.index(f) for f in folds]
    return {
        'op': 'c15.calc', 'mode': 'rat' if exact else 'float', 'data': data, 'labels': labels,
        'folds': folds, 'cv_given': case['folds'] is not None, 'method': case['method'],
        'P': len(case['vals'][0]),
        'number': case['weighting'] == 'number', 'coded': coded, 'noise': noise,
        'lam': enc(F(case['lam']) if exact else case['lam']),
        'pw': enc(F(case['pw']) if exact else case['pw']),
        'bal': bal if not coded else 'none', 'F': nF}


def _one_req(case):
    exact = case['method'] in EXACT
    enc = rat if exact else fbits
    sc = case['scale']
    a, b = case['one']
    ia = [i for i, l in enumerate(case['labels']) if l == a]
    ib = [i for i, l in enumerate(case['labels']) if l == b]
    cva, cvb = orc.one_cv_codes(case, ia, ib)
    rows = lambda idx: [[None if v is None else enc(F(v, sc) if exact else v / sc)
                         for v in case['vals'][i]] for i in idx]
    noise = None
    if case['noise'] is not None:
        ns = case['noise_scale']
        noise = [[enc(F(v, ns) if exact else v / ns) for v in row] for row in case['noise']]
    return {'op': 'c15.one', 'mode': 'rat' if exact else 'float', 'data_i': rows(ia),
            'data_j': rows(ib), 'cv_i': cva, 'cv_j': cvb, 'method': case['method'],
            'P': len(case['vals'][0]), 'number': case['weighting'] == 'number', 'coded': False,
            'noise': noise, 'lam': enc(F(case['lam']) if exact else case['lam']),
            'pw': enc(F(case['pw']) if exact else case['pw'])}


def _layout_req(case):
    """the measurement array as raw memory (flat buffer, offset, strides in elements)"""
    X = orc._matrix(case)
    flat, off, s0, s1 = orc.raw_view(X)
    ints = X.dtype.kind in 'iu'
    if ints:
        buf = [int(v) for v in flat]
    else:
        buf = [None if math.isnan(float(v)) else fbits(float(v)) for v in flat]
    return {'op': 'c15.layout', 'ints': ints, 'buf': buf, 'off': int(off), 's0': int(s0),
            's1': int(s1), 'n': int(X.shape[0]), 'P': int(X.shape[1])}


def model_requests(case):
    reqs = [_model_req(case, False), _model_req(case, True), _layout_req(case)]
    if case.get('one'):
        reqs.append(_one_req(case))
    for sc in orc.sub_cases(case)[1:]:
        reqs.append(_model_req(sc, False))
    return reqs


def _dec(case, x):
    if x is None:
        return float('nan')
    return float(unrat(x)) if case['method'] in EXACT else unfbits(x)


def model_result(case, answers):
    for a in answers:
        if isinstance(a, dict) and 'model_error' in a:
            return {'model_error': a['model_error']}
    spec, coded = answers[0], answers[1]
    back = {v: k for k, v in orc.label_codes(case['labels']).items()}
    res = {
        'labels': [back[u] for u in spec['uniq']],
        'rdm': [_dec(case, x) for x in spec['rdm']],
        'buf': [_dec(case, x) for x in spec['out']],
        'spec': [_dec(case, x) for x in spec['spec']],
        'specbuf': [_dec(case, x) for x in spec['specself'] + spec['speccross']],
        'bal': [_dec(case, x) for x in spec['bal']],
        'coded_buf': [_dec(case, x) for x in coded['out']],
        'one': None,
    }
    lay = answers[2]
    res['layout'] = {'s0': lay['s0'], 's1': lay['s1'],
                     'read': [[float('nan') if x is None else unfbits(x) for x in row]
                              for row in lay['read']]}
    k = 3
    if case.get('one'):
        res['one'] = [_dec(case, x) for x in answers[3]]
        k = 4
    res['multi'] = None
    if case.get('extra'):
        res['multi'] = [res['rdm']] + [[_dec(case, x) for x in a['rdm']] for a in answers[k:]]
    return res


def _tol(impl, model):
    vals = [abs(v) for v in (impl.get('buf') or []) + (model.get('buf') or [])
            if isinstance(v, float) and math.isfinite(v)]
    return 1e-10 * max([1.0] + vals)


def compare(case, impl, model):
    if 'model_error' in model:
        return f"model error {model['model_error']}"
    if 'exc' in impl:
        return f"implementation raised {impl['exc']}"
    atol = _tol(impl, model)
    if impl['labels'] != model['labels']:
        return f"labels {impl['labels']} != {model['labels']}"
    for key, mkey in (('buf', 'buf'), ('rdm', 'rdm'), ('rdm_alt', 'rdm')):
        d = first_diff(impl[key], model[mkey], 1e-9, atol, key)
        if d:
            return 'impl vs model ' + d
    # dtype / memory layout: what `ensure_double` hands to the kernel (strides and content) against
    # the layout model reading the raw memory of the user's array; and against the case's values
    il, ml = impl.get('layout'), model['layout']
    if il is not None:
        if 'exc' in il:
            return 'ensure_double: ' + il['exc']
        want = [[float('nan') if v is None else v / case['scale'] for v in row] for row in case['vals']]
        d = first_diff(il['read'], ml['read'], 0.0, 0.0, 'ensure_double content') or \
            first_diff(ml['read'], want, 0.0, 0.0, 'layout model vs logical matrix')
        if not d and min(len(want), len(want[0])) >= 2 and (il['s0'], il['s1']) != (ml['s0'], ml['s1']):
            d = f"ensure_double strides {(il['s0'], il['s1'])} != layout model {(ml['s0'], ml['s1'])}"
        if d:
            return 'impl vs model ' + d
    if case.get('one'):
        d = first_diff(impl['one'], model['one'], 1e-9, atol, 'calc_one')
        if d:
            return 'impl vs model ' + d
    if case.get('extra'):
        d = first_diff(impl['multi'], model['multi'], 1e-9, atol, 'list input, row')
        if d:
            return 'impl vs model ' + d
    # the executed model against its own specification / balanced formulas (runtime echo of
    # the theorems `unb_eq_spec`, `unb_*_eq_balanced`)
    d = first_diff(model['rdm'], model['spec'], 1e-9, atol, 'model rdm vs specDist')
    d = d or first_diff(model['buf'], model['specbuf'], 1e-9, atol, 'model buffer vs specSim')
    if d:
        return 'model-internal ' + d
    if model['bal']:
        d = first_diff(model['rdm'], model['bal'], 1e-9, atol, 'model rdm vs balanced formula')
        if d:
            return 'model-internal ' + d
        if impl.get('balanced') is not None:
            want = orc.as_map(model['labels'], model['bal'])
            d = orc.map_diff(impl['balanced'], want, 1e-9, atol)
            if d:
                return 'calc_rdm vs model balanced formula: ' + d
    # (thorough tier) the shipped binary against the binary rebuilt from the tree's similarity.c;
    # not where the kernel reads past its buffers (values not reproducible, known finding)
    rb = impl.get('rebuilt')
    if rb is not None and not (orc.has_missing(case) and case['noise'] is not None):
        if 'exc' in rb:
            return f"kernel rebuilt from similarity.c raised {rb['exc']}"
        d = first_diff(impl['buf'], rb['buf'], 1e-12, 1e-300, 'buffer') or \
            first_diff(impl['rdm'], rb['rdm'], 1e-12, 1e-300, 'rdm')
        if not d and case.get('one'):
            d = first_diff(impl['one'], rb['one'], 1e-12, 1e-300, 'calc_one')
        if d:
            return 'shipped similarity*.so vs the kernel rebuilt from similarity.c: ' + d
    # the kernel *text* (leaves with C semantics) against the compiled kernel
    if orc.coded_comparable(case):
        d = first_diff(impl['buf'], model['coded_buf'], 1e-9, atol, 'buf')
        if d:
            return 'compiled kernel vs model of the .pyx text: ' + d
    return None


# ---------------------------------------------------------------- features

def features(case, impl):
    has_missing = any(v is None for row in case['vals'] for v in row)
    crossval = orc.crossval_of(case)
    br = ['method:' + case['method'], 'weighting:' + case['weighting'],
          'cv:given' if case['folds'] is not None else 'cv:none', 'mask:' + case['mask'],
          'dtype:' + case['dtype'], 'order:' + case['order']]
    d = case['design']
    br.append('design:' + {'foldbal1': 'foldbal', 'randfolds': 'unbalanced'}.get(d, d))
    if case['noise'] is not None:
        br.append('noise:given')
    if case.get('nodesc'):
        br.append('descriptor:none')
    if case.get('extra'):
        br.append('input:list')
        if case['noise'] is not None:
            br.append('noise:list' if case.get('noise_mode') == 'list' else 'noise:shared-list')
            if not has_missing:
                br.append('noise:list-complete' if case.get('noise_mode') == 'list'
                          else 'noise:shared-list-complete')
    br += ['values:' + t for t in value_tags(case)]
    if case.get('defaults'):
        br.append('defaults')
    if case.get('noise_order') == 'F' and case['noise'] is not None:
        br.append('noise:F')
    if case.get('extra') and KERNEL[case['method']] == 'poisson' and \
            (case['lam'], case['pw']) != (1.0, 0.1) and not case.get('defaults'):
        br.append('list:prior')
    if case['folds'] is None and case['method'] in ('crossnobis', 'poisson_cv'):
        br.append('cv:index-fallback')
    if impl and impl.get('layout') and 'exc' not in impl['layout']:
        br.append('layout-compared')
        if impl['layout']['s0'] < impl['layout']['s1']:
            br.append('layout:colmajor-kept')
        if case['dtype'] in ('int', 'int32', 'uint8'):
            br.append('layout:int-cast')
    br.append('cond:' + orc.kind_of(case, 'cond'))
    if case['folds'] is not None:
        br.append('fold:' + orc.kind_of(case, 'fold'))
        fs = set(case['folds'])
        if all(isinstance(f, (int, float)) and not isinstance(f, bool) for f in fs) and \
                len({int(f) for f in fs}) < len(fs):
            br.append('fold:collide-int')      # distinct folds that a cast to int would merge
    if case.get('one'):
        br.append('one:self' if case['one'][0] == case['one'][1] else 'one:cross')
        br += ['one:' + case['method'], 'one:' + case['weighting']]
        if has_missing:
            br.append('one:missing')
        if case['noise'] is not None:
            br.append('one:noise')
    if impl and impl.get('rebuilt') and 'exc' not in impl['rebuilt']:
        br.append('rebuilt-so')
    if impl and 'rdm' in impl:
        if any(isinstance(v, float) and math.isnan(v) for v in impl['rdm']):
            br.append('nan-entry')
        if impl.get('balanced') is not None:
            br.append('balanced-compared')
    return {'method': case['method'], 'weighting': case['weighting'], 'crossval': crossval,
            'has_missing': has_missing, 'noise_given': case['noise'] is not None,
            'design': case['design'], 'mask': case['mask'], 'dtype': case['dtype'],
            'order': case['order'], 'n_obs': len(case['labels']),
            'cond_kind': orc.kind_of(case, 'cond'),
            'fold_kind': orc.kind_of(case, 'fold') if case['folds'] is not None else 'none',
            'n_cond': len(set(case['labels'])), 'n_channel': len(case['vals'][0]),
            'vclass': '+'.join(value_tags(case)) or 'none', 'defaults': bool(case.get('defaults')),
            'has_one': bool(case.get('one')), 'is_list': bool(case.get('extra')),
            'branches': br}


def nontrivial_key(case, impl):
    if len(set(case['labels'])) < 2 or not impl or 'rdm' not in impl:
        return None
    return [case['method'], case['weighting'], case['design'], case['mask'], case['labels'],
            case['folds'], case['vals'], case['noise']]


# ---------------------------------------------------------------- oracle / shrink

def oracle(case):
    with warnings.catch_warnings():
        warnings.simplefilter('ignore')
        return orc.oracle(case)


def _klass(case):
    o = oracle(case)
    if not o:
        return None
    f = o.get('features', {})
    return (f.get('violation'), f.get('signature'), f.get('variant'))


def shrink(case, still_fails):
    """smaller case failing in the *same way* (same check, same defect signature), so that a
    genuine violation is not shrunk into a known finding or vice versa"""
    k0 = _klass(case)
    if k0 is None:
        return case
    return orc.shrink(case, lambda c: _klass(c) == k0)
