"""C08 oracle helpers — a direct, independent transcription of the property statement.

Dense numpy linear algebra only (no rsatoolbox code, no Lean model):
  * positions selected by a pattern-index list, the subsampled RDM vector (NaN for pairs of
    the same condition), V from sigma_k by its definition,
  * the criterion: mean over training RDMs of cosine / Pearson / whitened cosine / whitened
    Pearson similarity on the commonly present entries,
  * the optimum of that criterion over all weights (normal equations in the whitened inner
    product, by pseudo-inverse) and over non-negative weights (scipy.optimize.nnls on the
    Cholesky-whitened problem — an independent solver), over single candidates, and over
    convex mixtures of adjacent candidates (dense grid + golden-section refinement).
"""
import math

import numpy as np
import scipy.optimize


def tri_pairs(n):
    return [(i, j) for i in range(n) for j in range(i + 1, n)]


def tri_pos(n, i, j):
    if i > j:
        i, j = j, i
    return i * n - i * (i + 1) // 2 + (j - i - 1)


def positions(desc, value):
    """conditions named by the pattern indices, with multiplicity, in sorted position order"""
    if value is None:
        return list(range(len(desc)))
    out = []
    for v in value:
        out += [i for i, d in enumerate(desc) if d == v]
    return sorted(out)


def sub_vec(n, sel, vec):
    """entries of `vec` (conditions 0..n-1) for all pairs of the list `sel`; a pair of the
    same condition has no dissimilarity (NaN)"""
    out = []
    for p in range(len(sel)):
        for q in range(p + 1, len(sel)):
            i, j = sel[p], sel[q]
            out.append(float('nan') if i == j else vec[tri_pos(n, i, j)])
    return np.array(out, dtype=float)


def sigma_matrix(nsub, sigma):
    if sigma is None:
        return np.eye(nsub)
    s = np.asarray(sigma, dtype=float)
    if s.ndim == 1:
        return np.diag(s)
    return s


def v_matrix(nsub, sigma):
    s = sigma_matrix(nsub, sigma)
    pr = tri_pairs(nsub)
    v = np.zeros((len(pr), len(pr)))
    for a, (i, j) in enumerate(pr):
        for b, (k, l) in enumerate(pr):
            xi = s[i, k] - s[i, l] - s[j, k] + s[j, l]
            v[a, b] = xi * xi
    return v


class Problem:
    """the training problem on the selected conditions"""

    def __init__(self, n, desc, value, basis, data_sub, method, sigma):
        self.method = method
        self.sel = positions(desc, value)
        self.nsub = len(self.sel)
        rows = np.array([sub_vec(n, self.sel, np.asarray(b, dtype=float)) if value is not None
                         else np.asarray(b, dtype=float) for b in basis])
        data = np.asarray(data_sub, dtype=float)
        self.mask = ~np.isnan(rows[0])
        self.masks_agree = bool(all((~np.isnan(r) == self.mask).all() for r in rows)
                                and data.shape[1] == rows.shape[1]
                                and all((~np.isnan(d) == self.mask).all() for d in data))
        if not self.masks_agree:
            return
        self.A = rows[:, self.mask]
        self.D = data[:, self.mask]
        if method in ('corr', 'corr_cov'):
            self.A = self.A - self.A.mean(1, keepdims=True)
            self.D = self.D - self.D.mean(1, keepdims=True)
        if method in ('cosine_cov', 'corr_cov'):
            v = v_matrix(self.nsub, sigma)[self.mask][:, self.mask]
            self.W = np.linalg.inv(v)
            self.W = (self.W + self.W.T) / 2
        else:
            self.W = np.eye(self.A.shape[1])
        nrm = np.sqrt(np.einsum('ij,jk,ik->i', self.D, self.W, self.D))
        self.data_ok = bool(np.all(nrm > 1e-9))
        self.t = (self.D / np.where(nrm > 0, nrm, 1)[:, None]).mean(0) if self.data_ok else None

    def score(self, theta):
        """mean similarity of the prediction for theta with the training RDMs"""
        x = np.asarray(theta, dtype=float) @ self.A
        q = x @ self.W @ x
        if q <= 0:
            return 0.0
        sims = [x @ self.W @ d / math.sqrt(q) / math.sqrt(d @ self.W @ d) for d in self.D]
        return float(sum(sims) / len(sims))

    def defined(self, theta):
        """is the similarity of the prediction for theta defined (non-zero norm in the criterion's
        inner product)?  For an all-zero (or, under the correlation criteria, constant) prediction it
        is 0/0: the library answers 0 (plain criteria, whitened without sigma_k) or nan."""
        x = np.asarray(theta, dtype=float) @ self.A
        sc = max(float(np.max(np.abs(np.einsum('ij,jk,ik->i', self.A, self.W, self.A)))), 1e-300)
        return bool(x @ self.W @ x > 1e-12 * sc)

    def rank_ok(self):
        g = self.A @ self.W @ self.A.T
        return np.linalg.matrix_rank(g) == g.shape[0] and np.linalg.cond(g) < 1e6

    def best_free(self):
        g = self.A @ self.W @ self.A.T
        c = self.A @ self.W @ self.t
        # a dependency that holds up to rounding leaves an eigenvalue of rounding size: cut well above it
        th = np.linalg.pinv(g, rcond=1e-10, hermitian=True) @ c
        return th, self.score(th)

    def best_nonneg(self, rows=None):
        a = self.A if rows is None else self.A[rows]
        l = np.linalg.cholesky(self.W)
        m_, b_ = l.T @ a.T, l.T @ self.t
        if independent_columns(m_):
            th, _ = scipy.optimize.nnls(m_, b_)
        else:
            # rank-deficient (up to rounding): scipy's solver may put weights of 1e16 on a column that is
            # rounding noise (observed) - enumerate the independent subsets instead
            th = nnls_bruteforce(m_, b_)
        x = th @ a
        q = x @ self.W @ x
        sc = 0.0 if q <= 0 else float(x @ self.W @ self.t / math.sqrt(q))
        return th, sc

    def best_single(self):
        k = self.A.shape[0]
        ev = [self.score(np.eye(k)[i]) for i in range(k)]
        return ev

    def mix(self, i, w):
        k = self.A.shape[0]
        th = np.zeros(k)
        th[i] = w
        th[i + 1] = 1 - w
        return th

    def best_mixture(self):
        """max over segments i and w in [0,1] of score(w b_i + (1-w) b_{i+1})"""
        k = self.A.shape[0]
        best = (-2.0, 0, 0.0)
        for i in range(k - 1):
            f = lambda w: self.score(self.mix(i, w))   # noqa: E731
            grid = np.linspace(0, 1, 201)
            vals = [f(w) for w in grid]
            j = int(np.argmax(vals))
            lo, hi = grid[max(j - 1, 0)], grid[min(j + 1, 200)]
            r = scipy.optimize.minimize_scalar(lambda w: -f(w), bounds=(lo, hi), method='bounded',
                                               options={'xatol': 1e-12})
            cand = max((vals[j], grid[j]), (-r.fun, r.x))
            if cand[0] > best[0]:
                best = (cand[0], i, float(cand[1]))
        return best


def independent_columns(m_, rtol=1e-9):
    """are the columns (each scaled to unit length; none negligible) linearly independent beyond rounding?"""
    cn = np.linalg.norm(m_, axis=0)
    if m_.shape[1] == 0:
        return True
    if cn.min() <= rtol * max(cn.max(), 1e-300):
        return False
    sv = np.linalg.svd(m_ / cn, compute_uv=False)
    return bool(len(sv) == m_.shape[1] and sv[-1] > rtol * sv[0])


def nnls_bruteforce(m_, b_, rtol=1e-9):
    """min |b - M x|, x >= 0 by its definition: the minimum is attained on a set of linearly independent
    columns whose unconstrained least-squares weights are non-negative - try every such set (k <= 6)"""
    import itertools
    k = m_.shape[1]
    cn = np.linalg.norm(m_, axis=0)
    ok = [j for j in range(k) if cn[j] > rtol * max(float(cn.max()), 1e-300)]
    best = (float(np.linalg.norm(b_)), np.zeros(k))
    for r in range(1, len(ok) + 1):
        for sub in itertools.combinations(ok, r):
            idx = list(sub)
            ms = m_[:, idx] / cn[idx]
            if not independent_columns(ms, rtol):
                continue
            xs = np.linalg.lstsq(ms, b_, rcond=None)[0] / cn[idx]
            if np.any(xs < -1e-12 * max(float(np.max(np.abs(xs))), 1e-300)):
                continue
            x = np.zeros(k)
            x[idx] = np.maximum(xs, 0)
            rn = float(np.linalg.norm(b_ - m_ @ x))
            if rn < best[0]:
                best = (rn, x)
    return best[1]


def competitors(rng, theta, k, nonneg, n_rand=12):
    """random, locally perturbed and grid competitors for a weight vector"""
    out = []
    th = np.asarray(theta, dtype=float)
    sc = max(float(np.max(np.abs(th))), 1e-6) if th.size else 1.0
    for _ in range(n_rand):
        out.append(np.array([rng.uniform(-1, 1) for _ in range(k)]) * sc)
    for eps in (1e-1, 1e-2, 1e-3):
        for _ in range(4):
            out.append(th + np.array([rng.gauss(0, eps) for _ in range(k)]) * sc)
    for i in range(k):
        e = np.zeros(k)
        e[i] = 1
        out.append(e)
        out.append(th + 0.05 * sc * e)
        out.append(th - 0.05 * sc * e)
    out.append(np.ones(k))
    if nonneg:
        out = [np.abs(o) for o in out]
    return out


def active_set_maxdrop(g, c):
    """own replica of the Lawson-Hanson active-set method on the normal equations (G, c):
    returns the largest number of coefficients dropped within one outer iteration (coverage
    tag only; not used for judging results)"""
    g = np.asarray(g, dtype=float)
    c = np.asarray(c, dtype=float)
    k = len(c)
    x = np.zeros(k)
    p = np.zeros(k, bool)
    w = c.copy()
    tol = 100 * np.finfo(float).eps * max(float(np.max(np.abs(c))), 1e-300)
    best = 0
    for _ in range(3 * k):
        if p.all() or np.max(w[~p]) <= tol:
            break
        p[np.where(~p)[0][np.argmax(w[~p])]] = True
        drops = 0
        try:
            s = np.linalg.solve(g[p][:, p], c[p])
            while np.any(s < 0) and drops <= k:
                xp = x[p]
                al = np.where(s < 0, xp / np.where(xp - s == 0, 1, xp - s), np.inf)
                i = int(np.argmin(al))
                x[p] = xp + al[i] * (s - xp)
                gi = np.where(p)[0][i]
                x[gi] = 0
                p[gi] = False
                drops += 1
                s = np.linalg.solve(g[p][:, p], c[p]) if p.any() else np.zeros(0)
        except np.linalg.LinAlgError:
            return best
        x[p] = s
        w = c - g @ x
        best = max(best, drops)
    return best
