"""C12 helper — the derived-object constructors of RDMs as heap programs (Lean `Ctor`, `ctorProducer`).

Two ties to the Lean model of `__getitem__ / subset / subsample / subset_pattern /
subsample_pattern / copy / concat`:

  source_specs()   the *source text* of every constructor is parsed with `ast`: for each keyword of
                   its `RDMs(...)` call, where does the value's storage come from?
                       fresh        deepcopy(..), extract_dict / subset_descriptor (helpers that build
                                    a new dict), np.concatenate / np.array, self.get_matrices(),
                                    x.copy(), advanced (array) indexing of anything
                       share:<X>    the source's own attribute object `self.X` (or its first
                                    argument's, for concat), possibly through basic slicing (a view)
                       call:<f>     result of another helper (not classified; skipped in the comparison)
                   This must equal what the Lean `ctorFields` says (`FieldSpec.kindName`), driver op
                   `c12.ctor_specs`: pseudo-case `@ctor-specs`.
  request(...)     one real call described as a `Ctor` for the driver op `c12.ctor`: the model
                   *predicts* the new object's content from the observed source heap and derives the
                   sharing graph (none); the engine compares both with the real result.
"""
import ast

import numpy as np

from engines import C12_heap as H
from engines import C12_writes as W

CTORS = {
    'rsatoolbox.rdm.rdms.RDMs.__getitem__': 'getitem',
    'rsatoolbox.rdm.rdms.RDMs.subset': 'subset',
    'rsatoolbox.rdm.rdms.RDMs.subsample': 'subsample',
    'rsatoolbox.rdm.rdms.RDMs.subset_pattern': 'subset_pattern',
    'rsatoolbox.rdm.rdms.RDMs.subsample_pattern': 'subsample_pattern',
    'rsatoolbox.rdm.rdms.RDMs.copy': 'copy',
    'rsatoolbox.rdm.rdms.concat': 'concat',
}
FIELDS = ['dissimilarities', 'descriptors', 'rdm_descriptors', 'pattern_descriptors']
FRESH_CALLS = {'deepcopy', 'concatenate', 'array', 'stack', 'vstack', 'get_matrices', 'copy', 'dict', 'list',
               'atleast_1d', 'where', 'sort'}
SHARE_CALLS = {'get_vectors', 'asarray'}


def _helper_returns_new(fn):
    """a module-level helper that does not hand back (an alias of) its first parameter"""
    if fn is None or not fn.args.args:
        return False
    p = fn.args.args[0].arg
    for n in ast.walk(fn):
        if isinstance(n, ast.Return) and isinstance(n.value, ast.Name) and n.value.id == p:
            return False
    return True


def _basic_index(ix):
    """basic (view-making) index: slices, integers, Ellipsis, None only"""
    elts = ix.elts if isinstance(ix, ast.Tuple) else [ix]
    for e in elts:
        if isinstance(e, ast.Slice):
            continue
        if isinstance(e, ast.Constant) and (isinstance(e.value, int) or e.value is None or e.value is Ellipsis):
            continue
        return False
    return True


def classify(e, env, helpers, owner):
    """where does the storage of expression e come from?"""
    if isinstance(e, ast.Name):
        return env.get(e.id, 'name:' + e.id)
    if isinstance(e, ast.Attribute):
        base = e.value
        if isinstance(base, ast.Name) and base.id == owner and e.attr in H.RDM_DICTS + ['dissimilarities']:
            return 'share:' + e.attr
        if isinstance(base, ast.Subscript) and isinstance(base.value, ast.Name) and e.attr in H.RDM_DICTS + ['dissimilarities']:
            return 'share:' + e.attr         # rdms_list[0].pattern_descriptors
        return 'attr:' + e.attr
    if isinstance(e, ast.Subscript):
        b = classify(e.value, env, helpers, owner)
        if b == 'fresh':
            return 'fresh'
        if b.startswith('share:'):
            return b if _basic_index(e.slice) else 'fresh'
        return b
    if isinstance(e, ast.Call):
        f = e.func
        name = f.attr if isinstance(f, ast.Attribute) else (f.id if isinstance(f, ast.Name) else '?')
        if name in helpers:
            return 'fresh' if _helper_returns_new(helpers[name]) else \
                (classify(e.args[0], env, helpers, owner) if e.args else 'call:' + name)
        if name in SHARE_CALLS:
            if isinstance(f, ast.Attribute) and isinstance(f.value, ast.Name) and f.value.id == owner:
                return 'share:dissimilarities'
            return classify(e.args[0], env, helpers, owner) if e.args else 'call:' + name
        if name in FRESH_CALLS:
            return 'fresh'
        return 'call:' + name
    if isinstance(e, (ast.Dict, ast.List, ast.ListComp, ast.DictComp, ast.BinOp, ast.Compare)):
        return 'fresh'
    return 'expr:' + type(e).__name__


def specs_of(fn, helpers, owner):
    """{attribute: kind} for the RDMs(...) call that builds the returned object"""
    env = {}
    call = None
    for st in ast.walk(fn):
        pass
    # statements in source order (nested blocks flattened): later assignments override
    stmts = sorted([n for n in ast.walk(fn) if isinstance(n, (ast.Assign, ast.Call))],
                   key=lambda n: (n.lineno, n.col_offset))
    for n in stmts:
        if isinstance(n, ast.Assign):
            if len(n.targets) == 1 and isinstance(n.targets[0], ast.Name):
                env[n.targets[0].id] = classify(n.value, env, helpers, owner)
            elif len(n.targets) == 1 and isinstance(n.targets[0], ast.Tuple):
                k = classify(n.value, env, helpers, owner)
                for t in n.targets[0].elts:
                    if isinstance(t, ast.Name):
                        env[t.id] = k
        elif isinstance(n.func, ast.Name) and n.func.id == 'RDMs':
            call = (n, dict(env))
    if call is None:
        return {'<no RDMs(...) call>': 'missing'}
    n, env = call
    out = {}
    for i, a in enumerate(n.args[:1]):
        out['dissimilarities'] = classify(a, env, helpers, owner)
    for kw in n.keywords:
        if kw.arg in FIELDS:
            out[kw.arg] = classify(kw.value, env, helpers, owner)
    return out


def source_specs():
    tree = W._src('rdm/rdms.py')
    helpers = {}
    for rel in ('util/descriptor_utils.py', 'util/data_utils.py'):
        for n in W._src(rel).body:
            if isinstance(n, ast.FunctionDef):
                helpers[n.name] = n
    out = {}
    for q, name in CTORS.items():
        meth = q.rsplit('.', 1)[1]
        if name == 'concat':
            fn = W._find(tree, None, 'concat')
            owner = '<first>'
        else:
            fn = W._find(tree, 'RDMs', meth)
            owner = 'self'
        out[meth] = {'missing': 'missing'} if fn is None else specs_of(fn, helpers, owner)
    return out


def compare_specs(src, model):
    """model: {ctor: [[field, kind]...]} from the driver"""
    for meth in sorted(model):
        m = dict(model[meth])
        s = src.get(meth, {})
        for f in FIELDS:
            sk = s.get(f, 'absent')
            if sk.startswith('call:_merged'):
                continue      # merged descriptors of concat: a parameter of the model
            if sk != m.get(f):
                return (f'constructor {meth}: attribute {f} of the new object is `{sk}` in the source text, '
                        f'`{m.get(f)}` in the Lean model (ctorFields)')
    return None


# ---------------------------------------------------------------- one real call as a Ctor request

def _tags(value):
    if isinstance(value, (list, tuple, np.ndarray)):
        return [H.tag(v) for v in list(value)]
    return [H.tag(value)]


def request(q, source, result, sides, heap):
    """driver request `c12.ctor` for a real call of one of the constructors, or None"""
    from rsatoolbox.rdm.rdms import RDMs
    name = CTORS.get(q)
    if name is None or not isinstance(result, RDMs):
        return None
    roots, comps = sides['source']
    loc = {id(o): roots[i] for i, (p, k, o) in enumerate(comps) if k == 'rdms'}
    args, kw = source['args'], source['kwargs']
    req = {'op': 'c12.ctor', 'ctor': name, 'cells': heap['cells'], 'next': heap['next']}
    if name == 'concat':
        items = list(args[0]) if len(args) == 1 and not isinstance(args[0], RDMs) else list(args)
        items = [x for x in items if isinstance(x, RDMs)]
        if not items or any(id(x) not in loc for x in items):
            return None
        req.update(root=loc[id(items[0])], others=[loc[id(x)] for x in items[1:]],
                   target=kw.get('target_pdesc'),
                   descriptors=H.dict_content(result.descriptors, False),
                   rdm_descriptors=H.dict_content(result.rdm_descriptors, True))
        req['srcs'] = [loc[id(x)] for x in items]
        return req
    me = source['self']
    if id(me) not in loc:
        return None
    req['root'] = loc[id(me)]
    req['srcs'] = [loc[id(me)]]
    if name == 'getitem':
        req['idx'] = [int(i) for i in np.atleast_1d(np.array(args[0])).tolist()]
    elif name != 'copy':
        by, value = args[0], args[1]
        req['by'] = 'index' if by is None else by
        req['values'] = _tags(value)
    return req


def compare(q, answer, real, share):
    """the model's prediction for one constructor call vs the real result (`real` = its dump)"""
    meth = q.rsplit('.', 1)[1]
    if not answer.get('fresh') or not answer.get('sep') or not answer.get('sources_unchanged'):
        return f'{meth}: the Lean constructor program is not fresh / separated: {answer.get("shared")}'
    pred = H.canon_dump(answer['content'])
    if real != pred:
        for a, b in zip(real, pred):
            if a != b:
                return (f'{meth}: the content of the new object differs from the heap program\'s prediction, '
                        f'attribute {a[0]}: real {str(a[2:])[:140]} model {str(b[2:])[:140]}')
        return f'{meth}: attribute lists differ: real {[a[0] for a in real]} model {[b[0] for b in pred]}'
    if share:
        return (f'{meth}: derived sharing graph is empty (every attribute fresh), observed '
                f'(argument path, result path, cause): {share[:4]}')
    return None
