"""C14, round 4 — multi-step sessions on ONE Dataset object.

The property speaks about "every dataset": a Dataset object that was already handed to an
estimator and then changed in place (Dataset.sort_by, a store into obs_descriptors[...] or
measurements, a replaced descriptor list / measurement array) is a dataset like any other, so every
later estimate must be the pooled residual covariance of the object's CURRENT content.

A session case:
  {'kind': 'session', 'p': channels, 'method': 'session', 'form': 'single', 'dof': None,
   'inputs': [{'rows': [[num..]..], 'labels': [int..]            descriptor 'cond'
               'extra': {'run': [int..], 'block': [int..]}}],    further observation descriptors
   'steps': [ {'t': 'est', 'est': 'measurements'|'unbalanced', 'which': 'cov'|'prec',
               'method': m, 'by': name, 'dof': None|num}
            | {'t': 'touch', 'by': name}                          ds.get_measurements_tensor(by), result dropped
            | {'t': 'sort', 'by': name}                           ds.sort_by(by)
            | {'t': 'desc', 'by': name, 'i': i, 'v': int}         ds.obs_descriptors[by][i] = v
            | {'t': 'desc_assign', 'by': name, 'values': [int..], 'as': 'list'|'ndarray'}
            | {'t': 'val', 'i': i, 'j': j, 'x': num}              ds.measurements[i, j] = x
            | {'t': 'meas_assign', 'rows': [[num..]..], 'how': 'attr'|'slice'} .. ],
   optional 'dtype', 'labels_as' 'str', 'desc_as' 'ndarray'}

Three independent evaluations of a session:
  * the real library on one real object (`run_impl`),
  * the Lean model `runSession` (driver op "c14.session": content threaded through
    `Step.apply`, every estimate from the content of that moment),
  * the oracle: before every estimator call the content is READ FROM THE REAL OBJECT (exact: stored
    values are dyadic) and the estimate is judged against the exact `Fraction` pooled covariance of
    that content; plus "estimate twice without change = identical" and "same content in a freshly
    built object = same estimate / precision inverts that object's covariance".  (What `sort_by` or a
    store does to the object is not C14's business: a changed `sort_by` shows as a disagreement with
    the model, whose `sortBy` is the stable sort of the source, not as an oracle failure.)
  A plain-Python simulation of the content (`trace`: stable `sorted`, list stores) serves generation,
  coverage tags and a harness-side comparison of the object's final content.
"""
import copy
from fractions import Fraction as F

import numpy as np

from lean import rat, unrat, unfbits

METHODS = ['full', 'diag', 'shrinkage_eye', 'shrinkage_diag']
MUTATING = ('sort', 'desc', 'desc_assign', 'val', 'meas_assign')

BRANCHES = ['session:sort', 'session:sort:layout-changed', 'session:sort:multi-key',
            'session:edit:desc', 'session:edit:desc:regroups', 'session:edit:meas',
            'session:assign:desc', 'session:assign:meas', 'session:repeat',
            'session:est-after-change:measurements', 'session:est-after-change:unbalanced',
            'session:prec-after-change', 'session:order:measurements-first',
            'session:order:unbalanced-first', 'session:by:second-descriptor',
            'session:after-edit:ValueError', 'session:after-edit:balanced-again',
            'session:touch', 'session:desc:ndarray', 'session:same-by-before-and-after',
            'session:method:full', 'session:method:diag', 'session:method:shrinkage_eye',
            'session:method:shrinkage_diag', 'session:dof:passed']


def _C14():
    from engines import C14
    return C14


# ------------------------------------------------------------------ content simulation (plain python)

def names(case):
    return ['cond'] + sorted(case['inputs'][0].get('extra', {}))


def initial(case):
    inp = case['inputs'][0]
    descs = {'cond': list(inp['labels'])}
    for k in sorted(inp.get('extra', {})):
        descs[k] = list(inp['extra'][k])
    return {'rows': [list(r) for r in inp['rows']], 'descs': descs}


def apply_step(content, st):
    """content after one step — what the in-place operation is documented to do"""
    t = st['t']
    if t == 'sort':
        key = content['descs'][st['by']]
        order = sorted(range(len(key)), key=lambda i: key[i])          # python's sort is stable
        return {'rows': [content['rows'][i] for i in order],
                'descs': {k: [v[i] for i in order] for k, v in content['descs'].items()}}
    if t == 'desc':
        c = {'rows': content['rows'], 'descs': {k: list(v) for k, v in content['descs'].items()}}
        c['descs'][st['by']][st['i']] = st['v']
        return c
    if t == 'desc_assign':
        c = {'rows': content['rows'], 'descs': {k: list(v) for k, v in content['descs'].items()}}
        c['descs'][st['by']] = list(st['values'])
        return c
    if t == 'val':
        rows = [list(r) for r in content['rows']]
        rows[st['i']][st['j']] = st['x']
        return {'rows': rows, 'descs': content['descs']}
    if t == 'meas_assign':
        return {'rows': [list(r) for r in st['rows']], 'descs': content['descs']}
    return content


def trace(case):
    """[(step, content before the step)]"""
    c = initial(case)
    out = []
    for st in case['steps']:
        out.append((st, c))
        c = apply_step(c, st)
    return out, c


def _counts(labels):
    c = {}
    for lab in labels:
        c[lab] = c.get(lab, 0) + 1
    return c


def valid(case):
    """every step well-formed and every estimate on a content with at least one residual dof"""
    try:
        inp = case['inputs'][0]
        p = case['p']
        n = len(inp['rows'])
        if len(case['inputs']) != 1 or n < 2 or p < 1:
            return False
        c = initial(case)
        if any(len(v) != n for v in c['descs'].values()) or any(len(r) != p for r in c['rows']):
            return False
        nm = names(case)
        n_est = 0
        integer = case.get('dtype') == 'int64'
        for st in case['steps']:
            t = st['t']
            if 'by' in st and st['by'] not in nm:
                return False
            if t == 'est':
                n_est += 1
                if n - len(set(c['descs'][st['by']])) < 1:
                    return False
                if st['method'] not in METHODS or st['est'] not in ('measurements', 'unbalanced') \
                        or st['which'] not in ('cov', 'prec'):
                    return False
            elif t == 'desc':
                if not (0 <= st['i'] < n and 0 <= st['v'] < 100):
                    return False
            elif t == 'desc_assign':
                if len(st['values']) != n or any(not 0 <= v < 100 for v in st['values']):
                    return False
            elif t == 'val':
                if not (0 <= st['i'] < n and 0 <= st['j'] < p):
                    return False
                if integer and unrat(st['x']).denominator != 1:
                    return False
            elif t == 'meas_assign':
                if len(st['rows']) != n or any(len(r) != p for r in st['rows']):
                    return False
                if integer and any(unrat(x).denominator != 1 for r in st['rows'] for x in r):
                    return False
            elif t not in ('touch', 'sort'):
                return False
            c = apply_step(c, st)
        if integer and any(unrat(x).denominator != 1 for r in inp['rows'] for x in r):
            return False
        return n_est >= 1
    except (KeyError, IndexError, TypeError, ValueError):
        return False


# ------------------------------------------------------------------ the real library

def _lab(case, v):
    return f'c{v:02d}' if case.get('labels_as') == 'str' else v


def _build(case, content):
    from rsatoolbox.data import Dataset
    C = _C14()
    m = C._arr(content['rows'], case.get('dtype', 'float64'))
    od = {}
    for k in names(case):
        vals = [_lab(case, v) for v in content['descs'][k]]
        od[k] = np.array(vals) if case.get('desc_as') == 'ndarray' else vals
    return Dataset(m, obs_descriptors=od)


def _snapshot(ds):
    return (np.array(ds.measurements, copy=True),
            {k: [x.item() if hasattr(x, 'item') else x for x in v] for k, v in ds.obs_descriptors.items()})


def _same(a, b):
    return a[0].shape == b[0].shape and bool(np.array_equal(a[0], b[0])) and a[1] == b[1]


def _fn(st):
    from rsatoolbox.data import noise as N
    return {('measurements', 'cov'): N.cov_from_measurements, ('measurements', 'prec'): N.prec_from_measurements,
            ('unbalanced', 'cov'): N.cov_from_unbalanced, ('unbalanced', 'prec'): N.prec_from_unbalanced
            }[(st['est'], st['which'])]


def _dofpy(d):
    return None if d is None else _C14()._dof_py(d)


def _do_step(case, ds, st):
    """perform one non-estimating step on the real object"""
    C = _C14()
    t = st['t']
    if t == 'touch':
        C._call(ds.get_measurements_tensor, st['by'])
    elif t == 'sort':
        ds.sort_by(st['by'])
    elif t == 'desc':
        ds.obs_descriptors[st['by']][st['i']] = _lab(case, st['v'])
    elif t == 'desc_assign':
        vals = [_lab(case, v) for v in st['values']]
        ds.obs_descriptors[st['by']] = np.array(vals) if st.get('as') == 'ndarray' else vals
    elif t == 'val':
        x = unrat(st['x'])
        ds.measurements[st['i'], st['j']] = int(x) if case.get('dtype') == 'int64' else float(x)
    elif t == 'meas_assign':
        new = C._arr(st['rows'], case.get('dtype', 'float64'))
        if st.get('how') == 'slice':
            ds.measurements[:] = new
        else:
            ds.measurements = new


def _estimate(case, ds, st):
    C = _C14()
    out = C._call(_fn(st), ds, st['by'], dof=_dofpy(st['dof']), method=st['method'])
    if isinstance(out, dict) and 'exc' in out:
        return out
    return C._canon_out(out, [case['p']], 'single')


def run_impl(case):
    ds = _build(case, initial(case))
    outs, unchanged = [], True
    for st in case['steps']:
        if st['t'] == 'est':
            before = _snapshot(ds)
            outs.append(_estimate(case, ds, st))
            unchanged = unchanged and _same(before, _snapshot(ds))
        else:
            _do_step(case, ds, st)
    meas, descs = _snapshot(ds)
    return {'steps': outs, 'unchanged': unchanged,
            'content': {'rows': [[float(v) for v in r] for r in meas],
                        'descs': {k: [str(x) for x in v] for k, v in descs.items()}},
            # uniform shape for code that looks at impl['calls']
            'calls': {f'{st["est"]}:{st["which"]}#{k}': o
                      for k, (st, o) in enumerate(zip([s for s in case['steps'] if s['t'] == 'est'], outs))}}


# ------------------------------------------------------------------ the model

def mode(case):
    return 'float' if any(st['t'] == 'est' and st['method'] == 'shrinkage_diag' for st in case['steps']) else 'rat'


def model_requests(case):
    nm = names(case)
    c0 = initial(case)
    steps = []
    cur = c0
    for st in case['steps']:
        t = st['t']
        if t == 'est':
            steps.append({'t': 'est', 'est': st['est'], 'method': st['method'], 'd': nm.index(st['by']),
                          'dof': st['dof']})
        elif t == 'sort':
            steps.append({'t': 'sort', 'd': nm.index(st['by'])})
        elif t == 'desc':
            steps.append({'t': 'desc', 'd': nm.index(st['by']), 'i': st['i'], 'v': st['v']})
        elif t == 'desc_assign':          # a replaced descriptor list = one store per observation
            steps.extend({'t': 'desc', 'd': nm.index(st['by']), 'i': i, 'v': v}
                         for i, v in enumerate(st['values']))
        elif t == 'val':
            steps.append({'t': 'val', 'i': st['i'], 'j': st['j'], 'x': st['x']})
        elif t == 'meas_assign':          # a replaced array = one store per entry
            steps.extend({'t': 'val', 'i': i, 'j': j, 'x': x}
                         for i, r in enumerate(st['rows']) for j, x in enumerate(r))
        cur = apply_step(cur, st)
    return [{'op': 'c14.session', 'mode': mode(case), 'p': case['p'], 'rows': c0['rows'],
             'descs': [c0['descs'][k] for k in nm], 'steps': steps}]


def _num(md, x, missing=None):
    if x is None:
        return missing
    if md == 'float' and isinstance(x, str) and '/' not in x and len(x) == 16:
        return unfbits(x)
    return float(unrat(x))


def model_result(case, answers):
    ans = answers[0]
    if isinstance(ans, dict) and 'model_error' in ans:
        return {'model_error': ans['model_error']}
    md = mode(case)
    out = []
    for it in ans:
        cov = None if it['cov'] is None else [[_num(md, v, float('nan')) for v in r] for r in it['cov']]
        prec = None if it['prec'] is None else [[float(unrat(v)) for v in r] for r in it['prec']]
        out.append({'cov': cov, 'prec': prec, 'clip': it['clip'], 'lam': _num(md, it['lam']),
                    'singular': it['cov'] is not None and it['prec'] is None})
    return {'steps': out, 'unchanged': True}


def _sub(case, st):
    """the single-call case an `est` step amounts to (tolerances, dof kind, form)"""
    s = {'kind': 'dataset', 'method': st['method'], 'p': case['p'], 'form': 'single', 'dof': st['dof'],
         'inputs': [], '_sub': True}
    if case.get('dtype'):
        s['dtype'] = case['dtype']
    return s


def compare(case, impl, model):
    C = _C14()
    if 'model_error' in model:
        return f"model error {model['model_error']}"
    ests = [st for st in case['steps'] if st['t'] == 'est']
    if len(impl['steps']) != len(ests) or len(model['steps']) != len(ests):
        return f"{len(impl['steps'])} impl / {len(model['steps'])} model results for {len(ests)} estimator calls"
    for k, (st, io, mo) in enumerate(zip(ests, impl['steps'], model['steps'])):
        call = st['est'] + ':' + st['which']
        d = C.compare(_sub(case, st), {'calls': {call: io}, 'unchanged': True},
                      {'calls': {st['est'] + ':cov': [mo['cov']], st['est'] + ':prec': [mo['prec']]},
                       'unchanged': True})
        if d:
            return f'step {_pos(case, k)} ({_describe(case, k)}): {d}'
    if not impl['unchanged']:
        return 'the dataset was modified by an estimator call'
    # the in-place operations themselves did what the simulation says (harness-side sanity)
    _, final = trace(case)
    want = {k: [str(_lab(case, v)) for v in final['descs'][k]] for k in names(case)}
    if impl['content']['descs'] != want:
        return f"descriptors after the session: impl {impl['content']['descs']} != expected {want}"
    wrows = [[float(unrat(x)) for x in r] for r in final['rows']]
    if impl['content']['rows'] != wrows:
        return 'measurements after the session differ from the expected content'
    return None


def _pos(case, k):
    """index in case['steps'] of the k-th estimator call"""
    idx = [i for i, st in enumerate(case['steps']) if st['t'] == 'est']
    return idx[k]


def _describe(case, k):
    st = case['steps'][_pos(case, k)]
    before = [s['t'] + (':' + s['by'] if 'by' in s else '') for s in case['steps'][:_pos(case, k)]
              if s['t'] != 'est']
    return (f"{st['which']}_from_{st['est']}(ds, '{st['by']}', method='{st['method']}', dof={st['dof']})"
            f" after [{', '.join(before)}]")


# ------------------------------------------------------------------ oracle

def _read(ds):
    """the CURRENT content of the real object, exactly (stored values are dyadic): rows as "p/q" / ints,
    descriptor values as plain python objects"""
    meas, descs = _snapshot(ds)
    return {'rows': [[rat(F(float(v))) for v in r] for r in meas], 'descs': descs}


def _twin(ds):
    """a freshly built dataset with the same content (no history)"""
    from rsatoolbox.data import Dataset
    meas, descs = _snapshot(ds)
    return Dataset(meas, obs_descriptors={k: list(v) for k, v in descs.items()})


def oracle(case):
    """every estimate is judged against the content the real object has at the moment of the call
    (read from the object itself: the property is about the estimators, not about what `sort_by` or a
    store does to the object)"""
    C = _C14()
    if not valid(case):
        return None
    ds = _build(case, initial(case))
    feat = {'kind': 'session', 'form': 'single'}
    last = {}            # (est, which, method, by, dof) -> matrix, cleared by every change
    changed = False
    k = -1
    for pos, st in enumerate(case['steps']):
        if st['t'] != 'est':
            _do_step(case, ds, st)
            if st['t'] in MUTATING:
                last = {}
                changed = True
            continue
        k += 1
        sub = _sub(case, st)
        C._set_tol(sub)
        tag = f'step {pos} {_describe(case, k)}'
        f = dict(feat, method=st['method'], est=st['est'], dofkind='none' if st['dof'] is None else 'scalar',
                 after_change=changed, which=st['which'])
        before = _snapshot(ds)
        content = _read(ds)
        if st['by'] not in content['descs'] or len(content['descs'][st['by']]) != len(content['rows']) \
                or len(content['rows']) - len(set(content['descs'][st['by']])) < 1:
            return None        # the object left the case space (only possible if an in-place operation is broken)
        twin = _twin(ds)
        out = _estimate(case, ds, st)
        if not _same(before, _snapshot(ds)):
            o = C._fail(f'{tag}: the dataset was modified by the call', 'modified', 'unchanged', defect='mutation')
            o['features'].update(f)
            return o
        labels = content['descs'][st['by']]
        inp = {'rows': content['rows'], 'labels': labels}
        S, counts = C._spec_cov(inp, 'dataset', None if st['dof'] is None else unrat(st['dof']))
        balanced = len(set(counts)) == 1
        if isinstance(out, dict) and 'exc' in out:
            if st['est'] == 'measurements' and not balanced and out['exc'] == 'ValueError':
                continue           # the only rejection the property allows (no tensor of an unbalanced design)
            if st['which'] == 'prec' and out['exc'] == 'LinAlgError':
                continue           # singular covariance: no claim
            o = C._fail(f'{tag}: raised {out["exc"]}', out, 'an estimate of the current content', defect='raises')
            o['features'].update(f)
            return o
        mat = out['items'][0]
        if isinstance(mat, dict):
            o = C._fail(f'{tag}: not a channel x channel matrix', mat['bad'], f'{case["p"]}x{case["p"]}',
                        defect='nesting')
            o['features'].update(f)
            return o
        if S is None:
            continue
        # the same content in a freshly built object (no history)
        tcov = C._call(_fn(dict(st, which='cov')), twin, st['by'], dof=_dofpy(st['dof']), method=st['method'])
        if st['which'] == 'cov':
            o = C._check_estimate(st['method'], mat, S, tag)
            if o:
                o['features'].update(f)
                o['expected'] = {'pooled residual covariance of the current content':
                                 [[float(v) for v in r] for r in S], 'was': o['expected']}
                return o
        else:
            # the corresponding covariance: the estimate of the current content (fresh object), itself judged
            if isinstance(tcov, dict) and 'exc' in tcov and st['est'] == 'measurements':
                # a precision returned for a design whose tensor cannot be built: the covariance it has
                # to invert is still the pooled one, i.e. what the unbalanced estimator returns
                tcov = C._call(_fn(dict(st, which='cov', est='unbalanced')), twin, st['by'],
                               dof=_dofpy(st['dof']), method=st['method'])
            if isinstance(tcov, dict) and 'exc' in tcov:
                continue
            cov = C._canon_mat(tcov, case['p'])
            if isinstance(cov, dict) or C._check_estimate(st['method'], cov, S, tag):
                continue           # a defect of the single call: reported by the single-call cases
            o = C._check_prec(cov, mat, tag)
            if o:
                o['features'].update(f)
                return o
        # history independence: a fresh object with the same content returns the same matrix
        tout = C._call(_fn(st), twin, st['by'], dof=_dofpy(st['dof']), method=st['method'])
        if isinstance(tout, np.ndarray) and tout.shape == (case['p'], case['p']) and (
                st['which'] == 'cov' or (isinstance(tcov, np.ndarray) and tcov.ndim == 2
                                         and C._invertible([[float(v) for v in r] for r in tcov]))):
            tm = [[float(v) for v in r] for r in tout]
            d = C._mat_diff(mat, tm, C._T['rtol'] if st['which'] == 'cov' else 1e-6,
                            C._T['atol'] + C._T['rel_scale'] * C._maxabs(tm), 'entry ')
            if d:
                o = C._fail(f'{tag}: differs from the same call on a freshly built dataset with the same '
                            'content', d, 'equal', defect='history')
                o['features'].update(f)
                return o
        key = (st['est'], st['which'], st['method'], st['by'], str(st['dof']))
        if key in last:
            d = C._mat_diff(mat, last[key], 1e-12, 1e-15, 'entry ')
            if d:
                o = C._fail(f'{tag}: estimating twice without a change in between gives different results',
                            d, 'identical', defect='repeat')
                o['features'].update(f)
                return o
        last[key] = mat
    return None


# ------------------------------------------------------------------ features

def features(case, impl, model_info=None):
    tr, _ = trace(case)
    br = set()
    changed = False
    sorts = set()
    first_est = None
    seen_by_before = set()       # descriptors an estimator already grouped by, before the latest change
    seen_by = set()
    since = []                   # estimator calls since the last change
    prev_balanced = {}
    for k, (st, c) in enumerate(tr):
        t = st['t']
        if t == 'est':
            if first_est is None:
                first_est = st['est']
            br.add('session:method:' + st['method'])
            if st['dof'] is not None:
                br.add('session:dof:passed')
            if st['by'] != 'cond':
                br.add('session:by:second-descriptor')
            cnt = _counts(c['descs'][st['by']])
            balanced = len(set(cnt.values())) == 1
            if changed:
                br.add('session:est-after-change:' + st['est'])
                if st['which'] == 'prec':
                    br.add('session:prec-after-change')
                if st['by'] in seen_by_before:
                    br.add('session:same-by-before-and-after')
                    was = prev_balanced.get(st['by'])
                    if st['est'] == 'measurements' and was is True and not balanced:
                        br.add('session:after-edit:ValueError')
                    if st['est'] == 'measurements' and was is False and balanced:
                        br.add('session:after-edit:balanced-again')
            sig = (st['est'], st['which'], st['method'], st['by'], str(st['dof']))
            if sig in since:
                br.add('session:repeat')
            since.append(sig)
            seen_by.add(st['by'])
            prev_balanced[st['by']] = balanced
        elif t == 'touch':
            br.add('session:touch')
            seen_by.add(st['by'])
            prev_balanced.setdefault(st['by'], len(set(_counts(c['descs'][st['by']]).values())) == 1)
        else:
            after = apply_step(c, st)
            if t == 'sort':
                br.add('session:sort')
                sorts.add(st['by'])
                if after['rows'] != c['rows'] or after['descs'] != c['descs']:
                    br.add('session:sort:layout-changed')
                if len(sorts) > 1:
                    br.add('session:sort:multi-key')
            elif t == 'desc':
                br.add('session:edit:desc')
                if after['descs'] != c['descs']:
                    br.add('session:edit:desc:regroups')
            elif t == 'desc_assign':
                br.add('session:assign:desc')
                if st.get('as') == 'ndarray':
                    br.add('session:desc:ndarray')
            elif t == 'val':
                br.add('session:edit:meas')
            elif t == 'meas_assign':
                br.add('session:assign:meas')
            if seen_by:
                changed = True
                seen_by_before |= seen_by
            since = []
    if first_est:
        br.add(f'session:order:{first_est}-first')
    if case.get('desc_as') == 'ndarray':
        br.add('session:desc:ndarray')
    br.add('dtype:' + case.get('dtype', 'float64'))
    if case.get('labels_as') == 'str':
        br.add('labels:str')
    if impl is not None:
        for o in impl['steps']:
            if isinstance(o, dict) and o.get('exc') == 'ValueError':
                br.add('measurements:ValueError')
    n_est = sum(1 for st in case['steps'] if st['t'] == 'est')
    return {'kind': 'session', 'method': 'session', 'form': 'single', 'dofkind': 'none', 'p': case['p'],
            'dtype': case.get('dtype', 'float64'), 'n_steps': len(case['steps']), 'n_est': n_est,
            'n_changes': sum(1 for st in case['steps'] if st['t'] in MUTATING),
            'branches': sorted(br)}


def nontrivial_key(case, impl):
    if impl is None or not any(isinstance(o, dict) and 'items' in o for o in impl['steps']):
        return None
    return ['session', case['inputs'], case['steps'], case.get('dtype'), case.get('labels_as'),
            case.get('desc_as')]


# ------------------------------------------------------------------ generation

def _object(rng, p, n_cond=None, n_rep=None, order=None, balanced=True):
    """rows + three descriptors: cond, run (repetition index), block (a coarser, possibly unbalanced split)"""
    C = _C14()
    n_cond = n_cond or rng.choice([2, 2, 3, 3, 4])
    n_rep = n_rep or rng.choice([2, 3, 3, 4])
    labs = rng.sample(range(0, 30), n_cond)
    obs = [(c, r) for r in range(n_rep) for c in labs]          # run-wise acquisition: conditions interleaved
    if not balanced:
        drop = rng.randrange(len(obs))
        obs = obs[:drop] + obs[drop + 1:]
    order = order or rng.choice(['runwise', 'runwise', 'shuffled', 'shuffled', 'condwise'])
    if order == 'shuffled':
        rng.shuffle(obs)
    elif order == 'condwise':
        obs.sort(key=lambda o: labs.index(o[0]))
    n = len(obs)
    halves = rng.random() < 0.3
    # condition pattern + noise, so that a wrong grouping shows as an O(1) error
    pattern = {c: [rng.randint(-6, 6) for _ in range(p)] for c in labs}
    rows = [[rat(F(pattern[c][j]) + unrat(C._val(rng, halves))) for j in range(p)] for c, _ in obs]
    block = [rng.randint(0, 1) for _ in range(n)]
    if len(set(block)) == 1:
        block[0] = 1 - block[0]
    return {'rows': rows, 'labels': [c for c, _ in obs],
            'extra': {'run': [r + 10 for _, r in obs], 'block': block}}


def _est(rng, est=None, which=None, method=None, by='cond', dof=None):
    return {'t': 'est', 'est': est or rng.choice(['measurements', 'unbalanced']),
            'which': which or rng.choice(['cov', 'cov', 'prec']),
            'method': method or rng.choice(METHODS), 'by': by, 'dof': dof}


def _change(rng, case, content, kinds=None):
    """one in-place change of the current content"""
    n, p = len(content['rows']), case['p']
    integer = case.get('dtype') == 'int64'
    t = rng.choice(kinds or ['sort', 'sort', 'sort', 'desc', 'desc', 'desc_assign', 'val', 'meas_assign'])
    if t == 'sort':
        return {'t': 'sort', 'by': rng.choice(['cond', 'cond', 'run', 'block'])}
    if t == 'desc':
        by = rng.choice(['cond', 'cond', 'cond', 'block'])
        vals = content['descs'][by]
        i = rng.randrange(n)
        others = [v for v in set(vals) if v != vals[i]]
        v = rng.choice(others) if others and rng.random() < 0.8 else rng.randint(0, 40)
        return {'t': 'desc', 'by': by, 'i': i, 'v': v}
    if t == 'desc_assign':
        by = rng.choice(['cond', 'cond', 'block'])
        vals = list(content['descs'][by])
        r = rng.random()
        if r < 0.5:
            rng.shuffle(vals)                       # same conditions, other rows
        elif r < 0.8:
            m = {v: rng.randint(41, 99) for v in set(vals)}       # relabelled (partition unchanged if injective)
            vals = [m[v] for v in vals]
        else:
            vals = [rng.randint(0, 2) for _ in vals]
            if len(set(vals)) == len(vals):
                vals[0] = vals[1]
        return {'t': 'desc_assign', 'by': by, 'values': vals, 'as': rng.choice(['list', 'ndarray'])}
    C = _C14()
    if t == 'val':
        x = C._val(rng, not integer)
        return {'t': 'val', 'i': rng.randrange(n), 'j': rng.randrange(p), 'x': x if not integer else int(unrat(x))}
    rows = C._rows(rng, n, p, not integer and rng.random() < 0.3)
    return {'t': 'meas_assign', 'rows': rows, 'how': rng.choice(['attr', 'slice'])}


def _finish(rng, case, dtype=None, labels_as=None, desc_as=None):
    C = _C14()
    dtype = dtype or rng.choice(['float64'] * 6 + ['int64', 'float32'])
    if dtype == 'int64':
        case['inputs'] = [dict(C._intify(case['inputs'][0]))]
        for st in case['steps']:
            if st['t'] == 'val':
                st['x'] = int(unrat(st['x']) // 1)
            if st['t'] == 'meas_assign':
                st['rows'] = [[int(unrat(x) // 1) for x in r] for r in st['rows']]
    if dtype != 'float64':
        case['dtype'] = dtype
    if (labels_as or rng.choice(['int', 'int', 'str'])) == 'str':
        case['labels_as'] = 'str'
    if (desc_as or rng.choice(['list', 'list', 'ndarray'])) == 'ndarray':
        case['desc_as'] = 'ndarray'
    return case


def _new(p, obj, steps):
    return {'kind': 'session', 'method': 'session', 'p': p, 'form': 'single', 'dof': None,
            'inputs': [obj], 'steps': steps}


def _by_ok(content, by):
    return len(content['rows']) - len(set(content['descs'][by])) >= 1


def random_session(rng):
    for _ in range(100):
        p = rng.choice([1, 2, 2, 3, 3, 4])
        obj = _object(rng, p, balanced=rng.random() < 0.85)
        case = _new(p, obj, [])
        content = initial(case)
        same_method = rng.choice(METHODS) if rng.random() < 0.5 else None
        steps = []
        n_steps = rng.randint(3, 9)
        have_est = False
        for q in range(n_steps):
            r = rng.random()
            if q == 0 or r < 0.5 or q == n_steps - 1:
                by = rng.choice(['cond'] * 4 + ['run', 'block'])
                if not _by_ok(content, by):
                    by = 'cond'
                if not _by_ok(content, by):
                    break
                dof = None if rng.random() < 0.6 else rng.randint(1, len(content['rows']))
                earlier = [e for e in steps if e['t'] == 'est' and _by_ok(content, e['by'])]
                if steps and steps[-1]['t'] == 'est' and rng.random() < 0.25:
                    st = dict(steps[-1])                     # the same call once more
                elif earlier and rng.random() < 0.45:
                    st = dict(rng.choice(earlier))           # an earlier call again (after whatever happened since)
                    if rng.random() < 0.3:                   # ... with another dof only
                        st['dof'] = None if st['dof'] is not None else rng.randint(1, len(content['rows']))
                else:
                    st = _est(rng, method=same_method, by=by, dof=dof)
                have_est = True
            elif r < 0.56:
                st = {'t': 'touch', 'by': rng.choice(['cond', 'run', 'block'])}
            else:
                st = _change(rng, case, content)
            steps.append(st)
            content = apply_step(content, st)
        case['steps'] = steps
        case = _finish(rng, case)
        if have_est and valid(case):
            return case
    raise RuntimeError('could not generate a session')


def structured(rng):
    """sessions every run must contain"""
    for method in METHODS:
        # the class of the round-4 gap: estimate, sort_by on several keys, estimate again, all estimators
        p = 2 if method != 'shrinkage_eye' else 3
        obj = _object(rng, p, n_cond=3, n_rep=3, order='runwise')
        every = [_est(rng, e, w, method) for e in ('measurements', 'unbalanced') for w in ('cov', 'prec')]
        steps = every + [{'t': 'sort', 'by': 'cond'}] + copy.deepcopy(every) \
            + [{'t': 'sort', 'by': 'run'}] + copy.deepcopy(every[::-1]) \
            + [{'t': 'sort', 'by': 'block'}] + [dict(e, dof=4) for e in every]
        yield _finish(rng, _new(p, obj, steps), dtype='float64')
        # unbalanced estimator first, grouping by the second descriptor, shuffled rows
        obj = _object(rng, 2, n_cond=2, n_rep=4, order='shuffled')
        steps = [_est(rng, 'unbalanced', 'cov', method, by='run'), _est(rng, 'measurements', 'cov', method, by='run'),
                 _est(rng, 'measurements', 'cov', method, by='run'),
                 {'t': 'sort', 'by': 'cond'}, _est(rng, 'measurements', 'cov', method, by='run'),
                 _est(rng, 'measurements', 'cov', method, by='cond')]
        yield _finish(rng, _new(2, obj, steps))
        # two labels of different conditions exchanged: still balanced, other groups
        obj = _object(rng, 2, n_cond=3, n_rep=2, order='condwise')
        a, b = 0, 2
        la, lb = obj['labels'][a], obj['labels'][b]
        every = [_est(rng, e, w, method) for e in ('unbalanced', 'measurements') for w in ('prec', 'cov')]
        steps = every + [{'t': 'desc', 'by': 'cond', 'i': a, 'v': lb}, {'t': 'desc', 'by': 'cond', 'i': b, 'v': la}] \
            + copy.deepcopy(every)
        yield _finish(rng, _new(2, obj, steps), dtype='float64')
        # a store that makes the design unbalanced (now rejected), a second one that repairs it
        obj = _object(rng, 2, n_cond=2, n_rep=3, order='runwise')
        la, lb = obj['labels'][0], obj['labels'][1]
        steps = [_est(rng, 'measurements', 'cov', method),
                 {'t': 'desc', 'by': 'cond', 'i': 0, 'v': lb},
                 _est(rng, 'measurements', 'cov', method), _est(rng, 'unbalanced', 'cov', method),
                 {'t': 'desc', 'by': 'cond', 'i': 1, 'v': la},
                 _est(rng, 'measurements', 'cov', method), _est(rng, 'unbalanced', 'cov', method)]
        yield _finish(rng, _new(2, obj, steps))
        # stores into the measurements / a replaced array, a replaced descriptor (ndarray)
        obj = _object(rng, 2, n_cond=2, n_rep=3)
        content = initial(_new(2, obj, []))
        steps = [{'t': 'touch', 'by': 'cond'}, _est(rng, 'measurements', 'cov', method),
                 _est(rng, 'measurements', 'prec', method), _est(rng, 'unbalanced', 'prec', method),
                 {'t': 'val', 'i': 1, 'j': 0, 'x': 9}, _est(rng, 'measurements', 'cov', method),
                 _est(rng, 'measurements', 'cov', method),
                 _est(rng, 'measurements', 'prec', method), _est(rng, 'unbalanced', 'prec', method),
                 _change(rng, _new(2, obj, []), content, ['meas_assign']),
                 _est(rng, 'unbalanced', 'cov', method), _est(rng, 'measurements', 'prec', method),
                 {'t': 'desc_assign', 'by': 'cond', 'as': 'ndarray',
                  'values': [content['descs']['cond'][i] for i in (1, 0, 3, 2, 5, 4)]},
                 _est(rng, 'measurements', 'cov', method)]
        yield _finish(rng, _new(2, obj, steps), dtype='float64', desc_as='ndarray')


def generate(rng, tier):
    yield from structured(rng)
    for _ in range(90 if tier == 'quick' else 2500):
        yield random_session(rng)


# ------------------------------------------------------------------ shrinking

def shrink(case, still_fails):
    cur = copy.deepcopy(case)

    def attempt(c):
        nonlocal cur
        try:
            if valid(c) and still_fails(c):
                cur = c
                return True
        except Exception:      # noqa: BLE001
            pass
        return False

    for _ in range(3):
        # fewer steps
        i = 0
        while i < len(cur['steps']) and len(cur['steps']) > 1:
            c = copy.deepcopy(cur)
            del c['steps'][i]
            if not attempt(c):
                i += 1
        # fewer observations (indices in the steps are adjusted)
        i = 0
        while i < len(cur['inputs'][0]['rows']) and len(cur['inputs'][0]['rows']) > 2:
            c = copy.deepcopy(cur)
            inp = c['inputs'][0]
            del inp['rows'][i]
            del inp['labels'][i]
            for k in inp.get('extra', {}):
                del inp['extra'][k][i]
            ok = True
            for st in c['steps']:
                if st['t'] in ('desc_assign', 'meas_assign'):
                    ok = False          # positions after sorts are not tracked: leave such sessions alone
                if st['t'] in ('desc', 'val'):
                    ok = False
            if not ok or not attempt(c):
                i += 1
        # fewer channels
        j = 0
        while cur['p'] > 1 and j < cur['p']:
            c = copy.deepcopy(cur)
            c['p'] -= 1
            for r in c['inputs'][0]['rows']:
                del r[j]
            ok = True
            for st in c['steps']:
                if st['t'] == 'meas_assign':
                    for r in st['rows']:
                        del r[j]
                if st['t'] == 'val':
                    if st['j'] == j:
                        ok = False
                    elif st['j'] > j:
                        st['j'] -= 1
            if not ok or not attempt(c):
                j += 1
        # unused descriptors, simpler values
        for k in list(cur['inputs'][0].get('extra', {})):
            if not any(st.get('by') == k for st in cur['steps']):
                c = copy.deepcopy(cur)
                del c['inputs'][0]['extra'][k]
                attempt(c)
        for i in range(len(cur['inputs'][0]['rows'])):
            for j in range(cur['p']):
                v = cur['inputs'][0]['rows'][i][j]
                for simple in (0, 1):
                    if v != simple and v not in (0, 1):
                        c = copy.deepcopy(cur)
                        c['inputs'][0]['rows'][i][j] = simple
                        if attempt(c):
                            break
        for key in ('dtype', 'labels_as', 'desc_as'):
            if key in cur:
                c = copy.deepcopy(cur)
                del c[key]
                attempt(c)
    return cur
