"""C11 helper — real-code adaptor: builds rsatoolbox datasets from a case, resolves the
symbolic arguments of a session op against the real objects, checks admissibility, applies
the op, canonicalises the resulting workspace.

Canonical dataset = {'temporal', 'meas' (nested floats; flat: obs x chan), 'desc': {k: lbl},
'obs'/'chan'/'time': {k: [lbl]}}; lbl = int | float | str | None (np scalar types erased; a
float-typed number stays a float even when integral — the dtype decides what `from_df` reads
as a channel; None = missing value, i.e. `None` or `NaN`).

Labels in a case (JSON): int, str, {"f": "p/q"} = float-typed number, null = missing (built as
`None` in a column that holds strings, as `NaN` otherwise).

Round 5: the MEMORY LAYOUT of the measurement array is part of a case: `init['layout']` =
{'perm': memory order of the axes (outermost first; [0,1,2] = C, [2,1,0] = Fortran, anything else a
non-contiguous transpose), 'steps': [[step, offset] per axis] (a strided view into a larger buffer
whose gaps hold JUNK), 'flips': [0/1 per axis] (negative strides)} and `init['dtype']` (float64 /
float32 / int64 / int32).  Nothing on this side normalises an array between operations: the
workspace holds the very arrays the library returned (e.g. the transposed buffer numpy's
`a[:, :, idx]` leaves behind), and every step reports the layout class of the array it was applied
to (`lay`), from which the engine derives the `layout:*` coverage tags.
"""
import math
import warnings
from fractions import Fraction
import numpy as np
from rsatoolbox.data.dataset import Dataset, TemporalDataset, merge_subsets
from rsatoolbox.data.ops import merge_datasets
from rsatoolbox.data.computations import average_dataset_by

ABSENT_STR, ABSENT_NUM = '~absent~', 987654
# value-returning operations that may be asked to keep their source in the workspace
KEEPABLE = ('copy', 'split_obs', 'split_channel', 'split_time', 'subset_obs', 'subset_channel', 'subset_time',
            'odd_even', 'nested_odd_even', 'bin_time', 'time_as_observations', 'time_as_channels', 'df',
            'df_default')


NONFINITE = {'nan': float('nan'), 'inf': float('inf'), '-inf': float('-inf')}


def nf_kind(x):
    """'nan' / 'inf' / '-inf' for a non-finite number, None for a finite one"""
    x = float(x)
    return 'nan' if x != x else 'inf' if x == float('inf') else '-inf' if x == float('-inf') else None


def nf_combine(kinds):
    """IEEE sum / mean of cells of which some are non-finite: NaN if one is NaN or both infinities
    occur, else the infinity that occurs, else None (finite)"""
    ks = set(k for k in kinds if k)
    if 'nan' in ks or ('inf' in ks and '-inf' in ks):
        return 'nan'
    return 'inf' if 'inf' in ks else '-inf' if '-inf' in ks else None


JUNK = -777          # what the gaps of a strided buffer hold (never a measurement)
DTYPES = {'float64': np.float64, 'float32': np.float32, 'int64': np.int64, 'int32': np.int32}


def lay_out(arr, layout, dtype='float64'):
    """array equal in value to `arr` with the requested dtype and memory layout (see module doc);
    works for any number of axes (a flat dataset uses the first two entries of the 3-axis spec)"""
    arr = np.asarray(arr)
    nd = arr.ndim
    dt = DTYPES[dtype or 'float64']
    layout = layout or {}
    perm = [a for a in layout.get('perm', list(range(3))) if a < nd]
    perm += [a for a in range(nd) if a not in perm]
    steps = (list(layout.get('steps', [])) + [[1, 0]] * nd)[:nd]
    flips = (list(layout.get('flips', [])) + [0] * nd)[:nd]
    big = [max(int(st), 1) * n + max(int(off), 0) for (st, off), n in zip(steps, arr.shape)]
    buf = np.full([big[a] for a in perm], JUNK, dtype=dt)          # C buffer in memory order
    full = buf.transpose(np.argsort(perm))                            # logical axis order
    sl = tuple(slice(max(int(off), 0), max(int(off), 0) + max(int(st), 1) * n, max(int(st), 1))
               for (st, off), n in zip(steps, arr.shape))
    out = full[sl]
    out = out[tuple(slice(None, None, -1) if f else slice(None) for f in flips)]
    out[...] = arr
    return out


def like(template, values):
    """new array holding `values` with exactly the dtype, shape and strides of `template` (the
    oracle re-tags measurements without touching the memory layout)"""
    t = template
    values = np.asarray(values)
    item = t.itemsize
    if t.size and not any(s % item for s in t.strides):
        st = [s // item for s in t.strides]
        span = sum(abs(s) * (n - 1) for s, n in zip(st, t.shape))
        off = sum(-s * (n - 1) for s, n in zip(st, t.shape) if s < 0)
        buf = np.full(span + 1, JUNK, dtype=t.dtype)
        out = np.lib.stride_tricks.as_strided(buf[off:], shape=t.shape, strides=t.strides)
        out[...] = values
        if np.array_equal(out, values, equal_nan=True):         # (fails for self-overlapping strides: fall back)
            return out
    return np.array(values, dtype=t.dtype)


def layout_class(a):
    """'trivial' (C and F contiguous: at most one axis longer than 1), 'C', 'F' (Fortran-contiguous
    and not C-contiguous), 'neg' (a negative stride), 'perm' (dense, axes stored in another order: a
    non-contiguous transpose), 'strided' (gaps between elements)"""
    if a.size == 0:
        return 'empty'
    c, f = bool(a.flags.c_contiguous), bool(a.flags.f_contiguous)
    if c and f:
        return 'trivial'
    if c:
        return 'C'
    if f:
        return 'F'
    live = [(s, n) for s, n in zip(a.strides, a.shape) if n > 1]
    if any(s < 0 for s, _ in live):
        return 'neg'
    span = sum(s * (n - 1) for s, n in live) + a.itemsize
    return 'perm' if span == a.size * a.itemsize else 'strided'


def dtype_class(a):
    return 'int' if a.dtype.kind in 'iu' else str(a.dtype)


def clbl(x):
    if isinstance(x, (str, np.str_)):
        return str(x)
    if isinstance(x, (bool, np.bool_)):
        return int(x)
    if isinstance(x, (int, np.integer)):
        return int(x)
    if isinstance(x, (float, np.floating)):
        return None if math.isnan(float(x)) else float(x)
    if x is None:
        return None
    if isinstance(x, np.ndarray) and x.ndim == 0:
        return clbl(x.item())
    return repr(x)


def raw_lbl(v, in_str_col=False):
    """case label -> the Python value handed to the library"""
    if isinstance(v, dict):
        return float(Fraction(v['f']))
    if v is None:
        return None if in_str_col else float('nan')
    return v


def raw_col(vals, miss=None):
    has_str = any(isinstance(v, str) for v in vals) if miss is None else miss == 'none'
    return [raw_lbl(v, has_str) for v in vals]


def col_kind(col):
    """numpy dtype kind of a canonical column: 1 int, 2 float (numbers / missing, at least one
    float or missing), 3 str, 4 mixed (numpy would coerce values on concatenation)"""
    if all(isinstance(x, int) for x in col):
        return 1
    if col and all(x is None or isinstance(x, (int, float)) for x in col) \
            and any(x is None or isinstance(x, float) for x in col):
        return 2
    if all(isinstance(x, str) for x in col):
        return 3
    return 4


def pure_col(col):
    return all(isinstance(x, int) for x in col) or all(isinstance(x, str) for x in col) \
        or all(x is None or isinstance(x, float) for x in col)


def ds_clean(ds):
    """every observation descriptor column has one dtype (so every subset of it has the same
    one) and no dataset descriptor is missing"""
    return all(pure_col(ccol(v)) for v in ds.obs_descriptors.values()) and \
        all(clbl(v) is not None for v in ds.descriptors.values())


def merge_clean(ws):
    """beyond the documented precondition of merge_datasets: concatenating the parts' columns
    must not make numpy coerce values"""
    cs = [canon(d) for d in ws]
    for k in set.intersection(*[set(c['obs']) for c in cs]):
        kinds = [col_kind(c['obs'][k]) for c in cs]
        if 4 in kinds or len(set(kinds)) != 1:
            return False
    for k in set.intersection(*[set(c['desc']) for c in cs]):
        vals = [c['desc'][k] for c in cs]
        if any(v is None for v in vals) or len({col_kind([v]) for v in vals}) != 1:
            return False
    return True


def has_missing(col):
    return any(x is None for x in ccol(col))


def ccol(v):
    return [clbl(x) for x in list(v)]


def is_temporal(ds):
    return isinstance(ds, TemporalDataset)


def canon(ds):
    return {
        'temporal': is_temporal(ds),
        'meas': np.asarray(ds.measurements, dtype=float).tolist(),
        'desc': {str(k): clbl(v) for k, v in ds.descriptors.items()},
        'obs': {str(k): ccol(v) for k, v in ds.obs_descriptors.items()},
        'chan': {str(k): ccol(v) for k, v in ds.channel_descriptors.items()},
        'time': {str(k): ccol(v) for k, v in ds.time_descriptors.items()} if is_temporal(ds) else {},
    }


def build(init):
    """constructs the real object; `None` dictionaries and bare-string columns are passed as such"""
    meas = np.array(init['meas'], dtype=float)
    # round 7: non-finite measurements (a NaN missing sample, +-inf) at the listed cells
    for (i, j, t, kind) in init.get('nonfinite') or []:
        meas[i, j, t] = NONFINITE[kind]
    if not init['temporal']:
        meas = meas[:, :, 0]
    meas = lay_out(meas, init.get('layout'), init.get('dtype'))
    kinds = init.get('kinds', {})

    def tbl(axis):
        if init[axis] is None:
            return None
        out = {}
        for k, vals in init[axis]:
            if isinstance(vals, str):
                out[k] = vals
            else:
                raw = raw_col(vals, kinds.get(f'miss:{axis}:{k}'))
                kind = kinds.get(f'{axis}:{k}', 'list')
                if kind == 'array':
                    # a string column with missing entries must be an object array (numpy would
                    # otherwise turn None into the string 'None')
                    obj = any(v is None for v in raw)
                    out[k] = np.array(raw, dtype=object) if obj else np.array(raw)
                else:
                    out[k] = list(raw)
        return out
    desc = None if init['desc'] is None else {k: raw_lbl(v) for k, v in init['desc']}
    if init['temporal']:
        return TemporalDataset(meas, descriptors=desc, obs_descriptors=tbl('obs'),
                               channel_descriptors=tbl('chan'), time_descriptors=tbl('time'))
    return Dataset(meas, descriptors=desc, obs_descriptors=tbl('obs'),
                   channel_descriptors=tbl('chan'))


def try_build(init):
    """(dataset, None) or (None, name of the exception the constructor raised)"""
    with warnings.catch_warnings():
        warnings.simplefilter('ignore')
        try:
            return build(init), None
        except Warning:
            return None, 'Warning'
        except Exception as exc:  # noqa: BLE001
            return None, exc_name(exc)


# ---------------------------------------------------------------- symbolic arguments

def table(ds, axis):
    if axis == 'obs':
        return ds.obs_descriptors
    if axis == 'chan':
        return ds.channel_descriptors
    return ds.time_descriptors if is_temporal(ds) else {}


def pick_key(tb, k):
    ks = sorted(str(x) for x in tb.keys())
    return ks[k % len(ks)] if ks else None


def pick_val(col, p):
    col = ccol(col)
    return col[p % len(col)] if col else None


def pick_raw(col, p):
    """the raw (uncanonicalised) element handed to the library"""
    col = list(col)
    if not col:
        return None
    x = col[p % len(col)]
    return x.item() if hasattr(x, 'item') else x


def absent_val(col):
    col = ccol(col)
    return ABSENT_STR if col and isinstance(col[0], str) else ABSENT_NUM


def dims(ds):
    sh = ds.measurements.shape
    return (sh[0], sh[1], sh[2] if len(sh) == 3 else 1)


def non_empty(ds):
    return all(d >= 1 for d in dims(ds))


def _rank(a):
    return 2 if a is None else 1 if isinstance(a, str) else 0


def lbl_le(a, b):
    if _rank(a) != _rank(b) or a is None:
        return _rank(a) <= _rank(b)
    return a <= b


def uniq_first(col):
    out = []
    for x in col:
        if x not in out:
            out.append(x)
    return out


def merge_admissible(ws):
    if not ws:
        return False
    c0 = canon(ws[0])
    for d in ws:
        c = canon(d)
        if not non_empty(d) or c['temporal'] != c0['temporal'] or c['chan'] != c0['chan'] \
                or c['time'] != c0['time'] or dims(d)[1:] != dims(ws[0])[1:]:
            return False
    return True


def n_groups(ds, key):
    return len(uniq_first(ccol(ds.obs_descriptors[key]))) if key in ds.obs_descriptors else 0


def resolve(ws, op):
    """returns (args, admissible, call) — `call()` applies the real operation and returns
    ('state', new_workspace) or ('query', value)"""
    name = op['name']
    if not ws:
        return None, False, None
    i = op.get('at', 0) % len(ws)
    d = ws[i]
    k = op.get('k', 0)
    ok = non_empty(d)
    temporal = is_temporal(d)

    # `keep`: the caller keeps the source of a value-returning operation (`parts = ds.split_..(by)`
    # with `ds` still in use) -- the results are inserted after it.  Model: `applyKeep`.
    keep = bool(op.get('keep')) and name in KEEPABLE

    def repl(new):
        return ('state', ws[:i] + ([d] if keep else []) + list(new) + ws[i + 1:])

    def A(**kw):
        return dict({'at': i}, **kw)

    if name == 'copy' and op.get('ctor'):
        # a second dataset built by the constructor from the very dictionaries and array of the
        # first (the constructor keeps what it is given): equal to the source, as a copy is
        def call():
            kw = dict(descriptors=d.descriptors, obs_descriptors=d.obs_descriptors,
                      channel_descriptors=d.channel_descriptors)
            if is_temporal(d):
                kw['time_descriptors'] = d.time_descriptors
            c = type(d)(d.measurements, **kw)
            if repr(canon(c)) != repr(canon(d)):       # (repr: a NaN measurement equals itself)
                raise AssertionError('dataset rebuilt from its own parts differs from the original')
            return repl([c])
        return A(), True, call
    if name == 'copy':
        def call():
            c = d.copy()
            # a copy compares equal (`__eq__`, `desc_eq`) and owns its measurements (NaN != NaN:
            # the equality test is skipped when a descriptor holds a NaN)
            tables = [d.descriptors, d.obs_descriptors, d.channel_descriptors] + \
                ([d.time_descriptors] if is_temporal(d) else [])
            nan_free = not any(isinstance(x, (float, np.floating)) and math.isnan(float(x))
                               for t in tables for v in t.values()
                               for x in (list(v) if isinstance(v, (list, tuple, np.ndarray)) else [v]))
            if repr(canon(c)) != repr(canon(d)):       # (repr: a NaN measurement equals itself)
                raise AssertionError('copy() differs from the original')
            nan_free = nan_free and not np.isnan(np.asarray(d.measurements, dtype=float)).any()
            if nan_free and (not (c == d) or not (d == c)):
                raise AssertionError('copy() != original')
            # ... and differs from other objects, from a dataset of the other class and from a
            # dataset with another descriptor set
            other = d.copy()
            other.obs_descriptors = dict(other.obs_descriptors, **{'~extra~': [0] * dims(d)[0]})
            if (d == 'x') or (other == d) or (is_temporal(d) and Dataset.__eq__(d, 0)):
                raise AssertionError('__eq__ equates different objects')
            if not np.array_equal(c.get_measurements(), d.measurements, equal_nan=True) or \
                    np.shares_memory(c.measurements, d.measurements):
                raise AssertionError('copy() shares or changes the measurements')
            return repl([c])
        return A(), True, call
    if name == 'pick':
        return A(), True, lambda: ('state', [d])
    if name == 'merge':
        if len({is_temporal(x) for x in ws}) > 1:
            def call():
                try:
                    merge_datasets(list(ws))
                except ValueError:
                    return ('rejected', None)
                raise AssertionError('merge_datasets accepted datasets of different classes')
            return None, True, call
        if all(non_empty(x) for x in ws) and len({dims(x)[1:] for x in ws}) > 1:
            def call():
                try:
                    merge_datasets(list(ws))
                except ValueError:
                    return ('rejected', None)
                raise AssertionError('merge_datasets accepted datasets of different shapes')
            return None, True, call
        adm = merge_clean(ws) and merge_admissible(ws)
        if op.get('alias'):
            return None, adm, lambda: ('state', [merge_subsets(list(ws))])
        return None, adm, lambda: ('state', [merge_datasets(list(ws))])
    if name in ('split_obs', 'split_channel', 'split_time'):
        axis = {'split_obs': 'obs', 'split_channel': 'chan', 'split_time': 'time'}[name]
        by = pick_key(table(d, axis), k)
        if by is None:
            return A(), False, None
        adm = ok and (temporal or name != 'split_time') and not has_missing(table(d, axis)[by])
        return A(by=by), adm, lambda: repl(getattr(d, name)(by))
    if name in ('subset_obs', 'subset_channel'):
        tb = table(d, 'obs' if name == 'subset_obs' else 'chan')
        by = pick_key(tb, k)
        if by is None:
            return A(), False, None
        col = tb[by]
        if op.get('absent'):
            vals = raw = [absent_val(col)]
        else:
            n_col = len(list(col))
            vals = [pick_val(col, p) for p in op.get('vals', [])] if n_col else []
            raw = [pick_raw(col, p) for p in op.get('vals', [])] if n_col else []
        scalar = bool(op.get('scalar'))
        if scalar:
            vals, raw = vals[:1], raw[:1]
        adm = ok and not (scalar and not vals) and not has_missing(col)
        arg = raw[0] if scalar and raw else list(raw)
        return A(by=by, vals=vals, scalar=scalar), adm, lambda: repl([getattr(d, name)(by, arg)])
    if name == 'subset_time':
        by = pick_key(table(d, 'time'), k)
        if by is None:
            return A(), False, None
        col = table(d, 'time')[by]
        if op.get('absent'):
            lo = hi = rlo = rhi = absent_val(col)
        else:
            a, b = pick_val(col, op.get('lo', 0)), pick_val(col, op.get('hi', 0))
            ra, rb = pick_raw(col, op.get('lo', 0)), pick_raw(col, op.get('hi', 0))
            if not len(list(col)):
                a = b = ra = rb = absent_val(col)
            (lo, rlo), (hi, rhi) = ((a, ra), (b, rb)) if lbl_le(a, b) else ((b, rb), (a, ra))

        def shift(x, raw, k):
            # a bound strictly between / outside the column's values: value -/+ 1/2 (float)
            if isinstance(x, str) or x is None or k not in (1, 2):
                return x, raw
            y = float(x) + (-0.5 if k == 1 else 0.5)
            return y, y
        lo, rlo = shift(lo, rlo, op.get('lo_off', 0))
        hi, rhi = shift(hi, rhi, op.get('hi_off', 0))
        return A(by=by, lo=lo, hi=hi), ok and temporal and not has_missing(col), \
            lambda: repl([d.subset_time(by, rlo, rhi)])
    if name == 'sort_by':
        by = pick_key(table(d, 'obs'), k)
        if by is None:
            return A(), False, None

        def call():
            # sort_by works in place, on the very object of the workspace (round 4: no defensive
            # copy -- whatever other objects share with this one is part of what is observed;
            # every object of the workspace is re-read after the step)
            d.sort_by(by)
            return ('state', list(ws))
        return A(by=by), ok and not has_missing(d.obs_descriptors[by]), call
    if name == 'odd_even':
        by = pick_key(table(d, 'obs'), k)
        if by is None:
            return A(), False, None
        if not (ok and not has_missing(d.obs_descriptors[by]) and ds_clean(d)):
            return A(by=by), False, None
        if n_groups(d, by) < 2:
            # one group: the second list is empty and merge_datasets([]) has no dataset to
            # return -- the call must not yield a result
            return A(by=by), True, lambda: must_reject(lambda: d.odd_even_split(by), 'odd_even_split')
        return A(by=by), True, lambda: repl(d.odd_even_split(by))
    if name == 'nested_odd_even':
        l1, l2 = pick_key(table(d, 'obs'), k), pick_key(table(d, 'obs'), op.get('k2', 0))
        if l1 is None or l2 is None:
            return A(), False, None
        if not (ok and not has_missing(d.obs_descriptors[l1]) and not has_missing(d.obs_descriptors[l2])
                and ds_clean(d)):
            return A(l1=l1, l2=l2), False, None
        c1, c2 = ccol(d.obs_descriptors[l1]), ccol(d.obs_descriptors[l2])
        fine = all(len(uniq_first([y for x, y in zip(c1, c2) if x == u])) >= 2
                   for u in uniq_first(c1))
        if not fine:
            return A(l1=l1, l2=l2), True, \
                lambda: must_reject(lambda: d.nested_odd_even_split(l1, l2), 'nested_odd_even_split')
        return A(l1=l1, l2=l2), True, lambda: repl(d.nested_odd_even_split(l1, l2))
    if name == 'bin_time':
        by = pick_key(table(d, 'time'), k)
        if by is None:
            return A(), False, None
        col = table(d, 'time')[by]
        bins = [[pick_val(col, p) for p in b] if len(list(col)) else [] for b in op.get('bins', [])]
        adm = (ok and temporal and all(isinstance(x, int) for x in ccol(col))
               and bool(bins) and all(bins))
        bins = [[int(x) for x in b] for b in bins] if adm else bins
        return A(by=by, bins=bins), adm, lambda: repl([d.bin_time(by, [np.array(b) for b in bins])])
    if name == 'time_as_observations':
        by = pick_key(table(d, 'time'), k)
        if by is None:
            return A(), False, None
        adm = ok and temporal and not has_missing(table(d, 'time')[by])
        if op.get('alias'):
            return A(by=by), adm, lambda: repl([d.convert_to_dataset(by)])
        return A(by=by), adm, lambda: repl([d.time_as_observations(by)])
    if name == 'time_as_channels':
        return A(), ok and temporal, lambda: repl([d.time_as_channels()])
    if name in ('df', 'df_default'):
        key = pick_key(table(d, 'chan'), k)
        if key is None:
            return A(), False, None
        names = ccol(d.channel_descriptors[key])
        adm = ok and not temporal
        if adm:
            # the representable class, computed without the code under test: distinct channel
            # names, none of them equal to a descriptor key (to_df's `df[dname] = dval` would
            # overwrite that measurement column), and -- when from_df has to find the channels by
            # dtype -- pandas gives no descriptor column a float dtype (probe frame built here)
            every = {**d.obs_descriptors, **d.descriptors}
            adm = len(set(map(repr, names))) == len(names) and \
                not any(isinstance(x, str) and x in every for x in names)
            if adm and name == 'df_default':
                from pandas import DataFrame
                probe = DataFrame(index=range(dims(d)[0]))
                with warnings.catch_warnings():
                    warnings.simplefilter('ignore')
                    for dname, dval in every.items():
                        probe[dname] = dval
                adm = not [c for (c, t) in probe.dtypes.items() if 'float' in str(t)]
                # the model does not tell `None` from `NaN`: a column holding nothing but `None`
                # (object dtype for pandas) is left out
                allnone = [v for v in [list(x) for x in d.obs_descriptors.values()] +
                           [[x] for x in d.descriptors.values()]
                           if len(v) and all(x is None for x in v)]
                adm = adm and not allnone

        def call():
            df = d.to_df(key)
            if name == 'df_default' and op.get('noname'):
                r = Dataset.from_df(df)          # channel descriptor gets the default key 'name'
                if list(r.channel_descriptors) != ['name']:
                    raise AssertionError('from_df default channel descriptor is not "name"')
                r.channel_descriptors = {key: r.channel_descriptors['name']}
                return repl([r])
            if name == 'df_default':
                return repl([Dataset.from_df(df, channel_descriptor=key)])
            return repl([Dataset.from_df(df, channels=list(df.columns[:len(names)]),
                                         channel_descriptor=key)])
        return A(key=key), adm, call
    if name == 'average_by':
        by = pick_key(table(d, 'obs'), k)
        if by is None:
            return A(), False, None

        def call():
            avg, uniq, n = average_dataset_by(d, by)
            return ('query', {'avg': np.asarray(avg, dtype=float).tolist(), 'uniq': ccol(uniq),
                              'n': [int(x) for x in n]})
        return A(by=by), ok and not temporal and not has_missing(d.obs_descriptors[by]), call
    if name == 'tensor':
        by = pick_key(table(d, 'obs'), k)
        if by is None:
            return A(), False, None
        col = ccol(d.obs_descriptors[by])
        sizes = {col.count(u) for u in uniq_first(col)}

        def call():
            t, uniq = d.get_measurements_tensor(by)
            return ('query', {'tensor': np.asarray(t, dtype=float).tolist(), 'uniq': ccol(uniq)})
        return A(by=by), ok and not temporal and len(sizes) == 1 and not has_missing(d.obs_descriptors[by]), call
    raise ValueError(f'unknown session op {name}')


def must_reject(f, what):
    try:
        f()
    except Exception:  # noqa: BLE001  (which exception is not the property's business)
        return ('rejected', None)
    raise AssertionError(f'{what} returned a result for a single group')


def exc_name(exc):
    for t in (ValueError, TypeError, AttributeError, KeyError, IndexError, AssertionError):
        if isinstance(exc, t):
            return t.__name__
    return 'other'


def step_layout(ws, op, args, origin=None):
    """layout class / dtype / origin of the array(s) the operation is applied to (`merge` reads
    every object of the workspace) -- read BEFORE the call"""
    if not ws:
        return []
    objs = list(ws) if op['name'] == 'merge' else [ws[(args or {}).get('at', 0) % len(ws)]]
    return [{'cls': layout_class(d.measurements), 'dtype': dtype_class(d.measurements),
             'origin': (origin or {}).get(id(d), 'init')} for d in objs]


def apply_step(ws, op, origin=None):
    """returns (step_result, new_workspace, raw) — library exceptions are mapped, never raised"""
    res, new, raw = _apply_step(ws, op, origin)
    if origin is not None and new is not ws:
        old = {id(d) for d in ws}
        for d in new:
            if id(d) not in old:
                origin[id(d)] = op['name']
    return res, new, raw


def _apply_step(ws, op, origin=None):
    args, adm, call = resolve(ws, op)
    if not adm:
        return {'args': args, 'out': 'inadmissible'}, ws, None
    lay = step_layout(ws, op, args, origin)
    with warnings.catch_warnings():
        warnings.simplefilter('ignore')
        try:
            kind, val = call()
        except Exception as exc:  # noqa: BLE001  (library failure is a result, not a crash)
            return {'args': args, 'out': {'exc': exc_name(exc), 'msg': str(exc)[:120]}}, ws, None
    if kind in ('rejected', 'query'):
        # a refused call and a query must leave every object of the workspace as it was: re-read all
        try:
            st = [canon(x) for x in ws]
        except Exception as exc:  # noqa: BLE001
            return {'args': args, 'out': {'exc': 'uncanonical:' + exc_name(exc), 'msg': str(exc)[:120]}}, ws, None
        if kind == 'rejected':
            return {'args': args, 'out': 'rejected', 'ws': st, 'lay': lay}, ws, None
        return {'args': args, 'out': {'query': val}, 'ws': st, 'lay': lay}, ws, val
    try:
        st = [canon(x) for x in val]
    except Exception as exc:  # noqa: BLE001
        return {'args': args, 'out': {'exc': 'uncanonical:' + exc_name(exc), 'msg': str(exc)[:120]}}, ws, None
    return {'args': args, 'out': {'state': st}, 'lay': lay}, list(val), val


def run_session(case):
    d0, exc = try_build(case['init'])
    if d0 is None:
        return {'init': 'rejected', 'exc': exc, 'steps': []}
    init = canon(d0)          # read now: sort_by works in place on the workspace objects
    m0 = d0.measurements
    ws = [d0]
    steps = []
    origin = {}               # id(object) -> name of the operation that returned it
    for op in case['ops']:
        res, ws, _ = apply_step(ws, op, origin)
        steps.append(res)
        if isinstance(res['out'], dict) and 'exc' in res['out']:
            break     # the real state is gone; later steps cannot be compared
    return {'init': init, 'steps': steps,
            'init_lay': {'cls': layout_class(m0), 'dtype': dtype_class(m0)}}
