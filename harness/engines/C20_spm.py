"""C20 / SPM: per-run high-pass filtering, residuals, file relocation (io/spm.py)."""
import os
from fractions import Fraction as F
from lean import rat


def householder_basis(rng, t, k):
    """k exactly orthonormal rational columns of length t: columns of I - 2 v v'/(v'v)"""
    while True:
        v = [rng.randint(-3, 3) for _ in range(t)]
        vv = sum(x * x for x in v)
        if vv:
            break
    cols = rng.sample(range(t), k)
    return [[(F(1) if i == j else F(0)) - F(2 * v[i] * v[j], vv) for j in cols] for i in range(t)]


def mat(rng, r, c, lo=-12, hi=12, den=4):
    return [[rat(F(rng.randint(lo, hi), den)) for _ in range(c)] for _ in range(r)]


def gen(rng, tier):
    k = 1 if tier == 'quick' else 20
    # directed skeleton first (i < 4): one run, three runs, two runs, residuals of two runs
    for i in range(-4, 36 * k):
        nruns = {-4: 1, -3: 3, -2: 2, -1: 2}.get(i, rng.randint(1, 3))
        nscans = [rng.randint(3, 7) for _ in range(nruns)]
        filters = []
        for t in nscans:
            kk = rng.randint(1, min(3, t - 1))
            filters.append([[rat(x) for x in row] for row in householder_basis(rng, t, kk)])
        n = sum(nscans)
        p = rng.randint(1, 4)
        case = {'kind': 'spm', 'nscans': nscans, 'filters': filters, 'data': mat(rng, n, p)}
        if i % 4 == 3:
            q = rng.randint(1, 3)
            case['kind'] = 'spm_resid'
            w = [[F(0)] * n for _ in range(n)]
            for a in range(n):
                w[a][a] = F(rng.randint(1, 8), 4)
                if a + 1 < n and rng.random() < 0.3:
                    w[a][a + 1] = F(rng.randint(-2, 2), 8)
            case['W'] = [[rat(x) for x in row] for row in w]
            case['X'] = mat(rng, n, q, -4, 4, 2)
            case['pinvX'] = mat(rng, q, n, -4, 4, 8)
            case['reg'] = sorted(rng.sample(range(1, q + 1), rng.randint(1, q)))
            case['names'] = [f'Sn({1 + j % nruns}) cond{j}*bf(1)' for j in range(q)]
        yield case
    for j in range(3 + 3 * k):
        yield info_case(rng, {0: 2, 1: 1, 2: 3}.get(j, rng.randint(1, 3)),
                        run_offset={0: 0, 1: 9, 2: 120}.get(j))
    for fp, path in [('C:\\study\\sub01\\func\\run1.nii,1', '/data/proj/glm'),
                     ('/old/place/func/uasub-01_run-2.nii,17  ', '/data/proj/glm/'),
                     ('/old/functional/func/x_func.nii,3', 'rel/glm'),
                     ('D:\\a\\b\\anat\\t1.nii,1', '/data/proj/glm'),
                     ('', '/data/proj/glm'), ('func', 'glm'),
                     # mixed separators; a Windows-style GLM directory (no '/' in it: empty base)
                     ('C:\\study/sub01\\func/run1.nii,1', '/data/proj/glm'),
                     ('C:\\study\\func\\run1.nii,1', 'D:\\proj\\glm'),
                     ('\\\\server\\share\\functional\\func\\x.nii,2  ', '/data/proj/../proj/glm'),
                     ('C:\\nofunchere\\anat.nii,1', '/data/proj/glm')]:
        yield {'kind': 'relocate', 'fpath': fp, 'path': path}
    for _ in range(6 * k):
        segs = [''.join(rng.choice('abcxyz01') for _ in range(rng.randint(1, 5))) for _ in range(rng.randint(1, 4))]
        sep = rng.choice(['/', '\\'])
        pre = sep.join(segs)
        rest = sep + rng.choice(['run1.nii,1', 'ua.nii,22', 'func.nii,3'])
        yield {'kind': 'relocate', 'fpath': pre + sep + 'func' + rest,
               'path': rng.choice(['/data/proj/glm', '/p/q/r/s', 'x/y']),
               'expect_tail': ('func' + rest).replace('\\', '/')
               if 'func' not in pre else None}


class _Nitools:
    """stand-in for the optional nitools dependency: hands the case's data to get_residuals"""
    def __init__(self, data):
        self.data = data

    def get_mask_coords(self, mask):
        return mask

    def sample_images(self, files, coords, use_dataobj=True):
        return self.data.copy()


def _glm(case, data=None):
    import numpy as np
    from rsatoolbox.io.spm import SpmGlm
    glm = SpmGlm(case.get('path', '/data/proj/glm'), nitoolsMock=_Nitools(data))
    if 'nscans' in case:
        glm.nscans = np.array(case['nscans'])
        glm.nruns = len(case['nscans'])
        glm.filter_matrices = [np.array([[float(F(x)) for x in r] for r in f]) for f in case['filters']]
    return glm


def _np(m):
    import numpy as np
    return np.array([[float(F(x)) for x in r] for r in m])


def info_case(rng, nruns, run_offset=None):
    """a whole SPM.mat (written by the harness): names, files, filters, design; then
    get_info_from_spm_mat, get_betas and get_residuals on it"""
    nscans = [rng.randint(3, 6) for _ in range(nruns)]
    filters = [[[rat(x) for x in row] for row in householder_basis(rng, t, 2)] for t in nscans]
    n, p = sum(nscans), rng.randint(1, 3)
    names = []
    # SPM numbers the sessions of the design from 1; a model cut out of a longer experiment keeps
    # its original session numbers, so multi-digit numbers occur
    off = rng.choice([0, 0, 9, 120]) if run_offset is None else run_offset
    for r in range(nruns):
        for c in range(rng.randint(1, 2)):
            names.append(f'Sn({r + 1 + off}) {rng.choice(["face", "house", "A", "b2"])}{c}*bf(1)')
    for r in range(nruns):
        names.append(f'Sn({r + 1 + off}) constant')
    if len(names) < 3:
        names.insert(0, 'Sn(1) extra*bf(1)')
    q = len(names)
    w = [[F(0)] * n for _ in range(n)]
    for a in range(n):
        w[a][a] = F(rng.randint(1, 8), 4)
    sep = rng.choice(['/', '\\'])
    raw = [sep.join(['C:' if sep == '\\' else '', 'old', 'study', 'func', f'ua_run{1 + i % nruns}.nii,{i + 1}'])
           + rng.choice(['', '  ']) for i in range(n)]
    return {'kind': 'spm_info', 'nscans': nscans, 'filters': filters, 'data': mat(rng, n, p),
            'names': names, 'W': [[rat(x) for x in row] for row in w],
            'X': mat(rng, n, q, -4, 4, 2), 'pinvX': mat(rng, q, n, -4, 4, 8),
            'reg': sorted(rng.sample(range(1, q + 1), rng.randint(2, min(q, 4)))),
            'raw': raw, 'beta_files': [f'beta_{i + 1:04d}.nii' for i in range(q)]}


_SPMTMP = None


def write_spm_mat(case):
    """SPM.mat with the fields get_info_from_spm_mat reads; returns the GLM directory"""
    global _SPMTMP
    import hashlib
    import json
    import shutil
    import tempfile
    import numpy as np
    from scipy.io import savemat
    if _SPMTMP is None:
        _SPMTMP = tempfile.mkdtemp(prefix='c20spm')
        import atexit
        atexit.register(shutil.rmtree, _SPMTMP, True)
    d = os.path.join(_SPMTMP, hashlib.sha1(json.dumps(case, sort_keys=True).encode()).hexdigest()[:12], 'glm')
    os.makedirs(d, exist_ok=True)
    nr = len(case['nscans'])
    K = np.zeros(nr, dtype=[('X0', 'O')])
    for i, f in enumerate(case['filters']):
        K[i]['X0'] = _np(f)
    vb = np.zeros(len(case['beta_files']), dtype=[('fname', 'O')])
    for i, f in enumerate(case['beta_files']):
        vb[i]['fname'] = f
    spm = {'nscan': np.array(case['nscans']), 'Vbeta': vb,
           'xX': {'name': np.array(case['names'], dtype=object), 'K': K, 'iC': np.array(case['reg']),
                  'xKXs': {'X': _np(case['X'])}, 'erdf': float(sum(case['nscans']) - len(case['names'])),
                  'W': _np(case['W']), 'pKX': _np(case['pinvX'])},
           'xY': {'P': np.array(case['raw'], dtype=object)}}
    savemat(os.path.join(d, 'SPM.mat'), {'SPM': spm})
    return d


def image_code(fname):
    """the content of a beta / ResMS image is a function of its *name*"""
    import re
    base = fname.replace('\\', '/').split('/')[-1]
    m = re.match(r'beta_(\d+)\.nii$', base)
    return int(m.group(1)) if m else 99 if base == 'ResMS.nii' else -1


class _NitoolsRec(_Nitools):
    """records which images are sampled; the samples of a beta / ResMS image are a function of
    the image's name, so which rows come back as betas / ResMS shows which files were read"""
    def __init__(self, data):
        super().__init__(data)
        self.calls = []

    def sample_images(self, files, coords, use_dataobj=True):
        import numpy as np
        self.calls.append((list(files), bool(use_dataobj)))
        if use_dataobj:
            return self.data.copy()
        return np.array([[10.0 * image_code(f) + j for j in range(self.data.shape[1])] for f in files])


def _impl_info(case):
    import numpy as np
    from rsatoolbox.io.spm import SpmGlm
    d = write_spm_mat(case)
    data = _np(case['data'])
    nt = _NitoolsRec(data)
    glm = SpmGlm(d + '/', nitoolsMock=nt)
    glm.get_info_from_spm_mat()
    root = os.path.dirname(d)
    out = {'nscans': [int(x) for x in np.atleast_1d(glm.nscans)], 'nruns': int(glm.nruns),
           'beta_files': list(glm.beta_files), 'beta_names': [str(x) for x in glm.beta_names],
           'run_number': [int(x) for x in glm.run_number],
           'rawdata_files': [os.path.relpath(f, root) if f.startswith(root) else f for f in glm.rawdata_files],
           'filter_shapes': [list(np.shape(f)) for f in glm.filter_matrices]}
    b, resms, info = glm.get_betas('mask')
    files, dataobj = nt.calls[-1]
    out['betas'] = {'files': [os.path.relpath(f, d) for f in files], 'use_dataobj': dataobj,
                    'data': b.tolist(), 'resms': resms.tolist(),
                    'reg_name': [str(x) for x in info['reg_name']],
                    'run_number': [int(x) for x in info['run_number']]}
    res, beta, info = glm.get_residuals('mask')
    files, dataobj = nt.calls[-1]
    out['resid'] = {'files_are_raw': files == list(glm.rawdata_files), 'use_dataobj': dataobj,
                    'residuals': res.tolist(), 'beta': beta.tolist(),
                    'reg_name': [str(x) for x in info['reg_name']],
                    'run_number': [int(x) for x in info['run_number']]}
    return out



def impl(case):
    try:
        return _impl(case)
    except Exception as exc:  # noqa: BLE001 - any library failure is a result, not a crash
        return {'exc': type(exc).__name__}


def _impl(case):
    import numpy as np
    if case['kind'] == 'relocate':
        return _glm(case).relocate_file(case['fpath'])
    if case['kind'] == 'spm_info':
        return _impl_info(case)
    data = _np(case['data'])
    glm = _glm(case, data)
    if case['kind'] == 'spm':
        before = data.copy()
        out = glm.spm_filter(data)
        return {'out': out.tolist(), 'input_unchanged': bool(np.array_equal(before, data))}
    glm.weight = _np(case['W'])
    glm.pinvX = _np(case['pinvX'])
    glm.design_matrix = _np(case['X'])
    glm.reg_of_interest = np.array(case['reg'])
    glm.beta_names = np.array([s.split(' ')[1] for s in case['names']])
    glm.run_number = np.array([int(s.split(' ')[0][3:-1]) for s in case['names']])
    glm.rawdata_files = ['f']
    res, beta, info = glm.get_residuals('mask')
    return {'residuals': res.tolist(), 'beta': beta.tolist(),
            'reg_name': [str(x) for x in info['reg_name']],
            'run_number': [int(x) for x in info['run_number']]}


def requests(case):
    if case['kind'] == 'relocate':
        base = os.path.dirname(os.path.normpath(case['path']))
        return [{'op': 'c20.relocate', 'base': base, 'fpath': case['fpath']}]
    if case['kind'] == 'spm_info':
        return [{'op': 'c20.spm_info', 'names': case['names'], 'raw': case['raw'], 'base': 'ROOT',
                 'path': 'GLM', 'beta_files': case['beta_files'], 'reg': case['reg']},
                {'op': 'c20.spm_resid', 'nscans': case['nscans'], 'filters': case['filters'],
                 'data': case['data'], 'W': case['W'], 'pinvX': case['pinvX'], 'X': case['X']}]
    req = {'op': 'c20.' + case['kind'], 'nscans': case['nscans'], 'filters': case['filters'],
           'data': case['data']}
    for k in ('W', 'pinvX', 'X'):
        if k in case:
            req[k] = case[k]
    return [req]


def _result_info(case, answers):
    a, r = answers
    if not (isinstance(a, dict) and 'run_number' in a and isinstance(r, dict) and 'residuals' in r):
        return [a, r]
    k, p = len(case['reg']), len(case['data'][0])
    beta = [[float(F(x)) for x in row] for row in r['beta']]
    return {'nscans': case['nscans'], 'nruns': len(case['nscans']),
            'beta_files': case['beta_files'], 'beta_names': a['beta_names'], 'run_number': a['run_number'],
            'rawdata_files': [f[len('ROOT/'):] if f.startswith('ROOT/') else f for f in a['rawdata_files']],
            'filter_shapes': [[t, 2] for t in case['nscans']],
            'betas': {'files': [f[len('GLM/'):] if f else f for f in a['betas_images']],
                      'use_dataobj': False,
                      'data': [[10.0 * image_code(f) + j for j in range(p)] for f in a['betas_data_images']],
                      'resms': [10.0 * image_code(a['betas_resms_image']) + j for j in range(p)],
                      'reg_name': a['betas_reg_name'], 'run_number': a['betas_run_number']},
            'resid': {'files_are_raw': True, 'use_dataobj': True,
                      'residuals': [[float(F(x)) for x in row] for row in r['residuals']],
                      'beta': [beta[i] for i in a['resid_rows']],
                      'reg_name': a['resid_reg_name'], 'run_number': a['resid_run_number']}}


def result(case, answers):
    if case['kind'] == 'spm_info':
        return _result_info(case, answers)
    a = answers[0]
    if case['kind'] == 'relocate':
        return a
    if case['kind'] == 'spm':
        if isinstance(a, list):
            return {'out': [[float(F(x)) for x in r] for r in a], 'input_unchanged': True}
        return a
    if isinstance(a, dict) and 'residuals' in a:
        beta = [[float(F(x)) for x in r] for r in a['beta']]
        idx = [r - 1 for r in case['reg']]
        return {'residuals': [[float(F(x)) for x in r] for r in a['residuals']],
                'beta': [beta[i] for i in idx],
                'reg_name': [case['names'][i].split(' ')[1] for i in idx],
                'run_number': [int(case['names'][i].split(' ')[0][3:-1]) for i in idx]}
    return a


def _filtered_exact(case, data):
    """Y_run - X0 (X0' Y_run) per run, in exact arithmetic"""
    out, off = [], 0
    for t, f in zip(case['nscans'], case['filters']):
        X = [[F(x) for x in r] for r in f]
        Y = data[off:off + t]
        kk, p = len(X[0]), len(Y[0])
        A = [[sum(X[r][c] * Y[r][j] for r in range(t)) for j in range(p)] for c in range(kk)]
        out += [[Y[r][j] - sum(X[r][c] * A[c][j] for c in range(kk)) for j in range(p)] for r in range(t)]
        off += t
    return out


def oracle(case):
    if case['kind'] == 'relocate':
        if case.get('expect_tail') is None:
            return None
        out = impl(case)
        want = os.path.dirname(os.path.normpath(case['path'])) + '/' + case['expect_tail']
        if out != want:
            return {'what': 'relocated raw-data path is not <project>/func/…', 'observed': out,
                    'expected': want, 'features': {'spm_op': 'relocate'}}
        return None
    out = impl(case)
    n = sum(case['nscans'])
    if case['kind'] == 'spm_info' and not (isinstance(out, dict) and 'exc' in out):
        import re
        f = {'spm_op': 'spm_info', 'n_runs': len(case['nscans'])}
        parsed = [re.match(r'Sn\((\d+)\) (\S+)$', nm).groups() for nm in case['names']]
        idx = [r - 1 for r in case['reg']]
        want = {
            'nscans': case['nscans'], 'nruns': len(case['nscans']),
            'run_number': [int(a) for a, _ in parsed], 'beta_names': [b for _, b in parsed],
            'rawdata_files': ['func/' + r.replace('\\', '/').split('/func/')[1] for r in case['raw']],
            'filter_shapes': [[t, 2] for t in case['nscans']]}
        for k_, v in want.items():
            if out[k_] != v:
                return {'what': f'SPM.mat: {k_} differs from the file', 'observed': out[k_],
                        'expected': v, 'features': f}
        wb = {'files': [case['beta_files'][i] for i in idx] + ['ResMS.nii'],
              'reg_name': [parsed[i][1] for i in idx], 'run_number': [int(parsed[i][0]) for i in idx]}
        p_ = len(case['data'][0])
        wb['data'] = [[10.0 * (i + 1) + j for j in range(p_)] for i in idx]
        wb['resms'] = [990.0 + j for j in range(p_)]
        for k_, v in wb.items():
            if k_ in ('data', 'resms'):
                if out['betas'][k_] != v:
                    return {'what': f'get_betas: {k_} are not the samples of the '
                            + ('beta images of the regressors of interest' if k_ == 'data' else 'ResMS image'),
                            'observed': out['betas'][k_], 'expected': v, 'features': f}
                continue
            if out['betas'][k_] != v:
                return {'what': f'get_betas: {k_} are not those of the regressors of interest',
                        'observed': out['betas'][k_], 'expected': v, 'features': f}
            if k_ != 'files' and out['resid'][k_] != v:
                return {'what': f'get_residuals: {k_} are not those of the regressors of interest',
                        'observed': out['resid'][k_], 'expected': v, 'features': f}
        if not out['resid']['files_are_raw']:
            return {'what': 'get_residuals does not sample the raw data files', 'observed': False,
                    'expected': True, 'features': f}
        out = {'residuals': out['resid']['residuals']}
        case = dict(case, kind='spm_resid')
    if isinstance(out, dict) and 'exc' in out:
        return {'what': 'valid run structure rejected', 'observed': out, 'expected': 'filtered data',
                'features': {'spm_op': case['kind'], 'n_runs': len(case['nscans'])}}
    if case['kind'] == 'spm':
        data = [[F(x) for x in r] for r in case['data']]
        got = out['out']
        feats = {'spm_op': 'spm_filter', 'n_runs': len(case['nscans'])}
    else:
        W = [[F(x) for x in r] for r in case['W']]
        D = [[F(x) for x in r] for r in case['data']]
        data = [[sum(W[i][l] * D[l][j] for l in range(n)) for j in range(len(D[0]))] for i in range(n)]
        feats = {'spm_op': 'get_residuals', 'n_runs': len(case['nscans'])}
    want = _filtered_exact(case, data)
    if case['kind'] == 'spm_resid':
        # residuals = f - X (pinvX f) of the *filtered* data f
        X = [[F(x) for x in r] for r in case['X']]
        P = [[F(x) for x in r] for r in case['pinvX']]
        q, p = len(P), len(want[0])
        beta = [[sum(P[c][r] * want[r][j] for r in range(n)) for j in range(p)] for c in range(q)]
        want = [[want[r][j] - sum(X[r][c] * beta[c][j] for c in range(q)) for j in range(p)]
                for r in range(n)]
        got = out['residuals']
    # the component of each run's result in that run's filter regressors must vanish
    if case['kind'] == 'spm':
        off = 0
        for ri, (t, f) in enumerate(zip(case['nscans'], case['filters'])):
            for c in range(len(f[0])):
                for j in range(len(got[0])):
                    comp = sum(float(F(f[r][c])) * got[off + r][j] for r in range(t))
                    if abs(comp) > 1e-9:
                        return {'what': "filtered data of a run still has a component in that run's "
                                        'filter regressors', 'observed': comp, 'expected': 0,
                                'run': ri, 'regressor': c, 'voxel': j, 'features': feats}
            off += t
    for r in range(n):
        for j in range(len(want[0])):
            if abs(got[r][j] - float(want[r][j])) > 1e-9 * max(1.0, abs(float(want[r][j]))):
                return {'what': ('filtered data' if case['kind'] == 'spm' else 'residuals')
                        + ' differ from Y_run - X0 (X0ᵀ Y_run) computed per run',
                        'observed': got[r][j], 'expected': float(want[r][j]), 'row': r, 'voxel': j,
                        'features': feats}
    return None


def shrink(case, still_fails):
    """fewer runs, fewer voxels"""
    if case['kind'] != 'spm':
        return case
    best = case
    while len(best['data'][0]) > 1:
        c = dict(best, data=[r[:1] for r in best['data']])
        if still_fails(c):
            best = c
        else:
            break
    while len(best['nscans']) > 1:
        t0 = best['nscans'][0]
        for c in (dict(best, nscans=best['nscans'][:1], filters=best['filters'][:1], data=best['data'][:t0]),
                  dict(best, nscans=best['nscans'][1:], filters=best['filters'][1:], data=best['data'][t0:])):
            if still_fails(c):
                best = c
                break
        else:
            break
    return best


def feats(case, impl_res):
    if case['kind'] == 'relocate':
        return {'kind': 'relocate', 'spm_op': 'relocate', 'branches': ['spm:relocate']}
    b = ['spm:filter' if case['kind'] == 'spm' else 'spm:info' if case['kind'] == 'spm_info'
         else 'spm:resid']
    if len(case['nscans']) > 1:
        b.append('spm:multi_run')
    if case['kind'] == 'spm_info' and len(case['nscans']) == 1:
        b.append('spm:info_single_run')
    if case['kind'] == 'spm_info' and any(len(nm.split(')')[0]) > 4 for nm in case['names']):
        b.append('spm:run_number_digits')
    return {'kind': case['kind'], 'spm_op': {'spm': 'spm_filter', 'spm_info': 'spm_info'}.get(case['kind'], 'get_residuals'),
            'n_runs': len(case['nscans']), 'branches': b}


BRANCHES = ['spm:filter', 'spm:resid', 'spm:multi_run', 'spm:relocate', 'spm:info',
            'spm:info_single_run', 'spm:run_number_digits']
