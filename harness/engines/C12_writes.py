"""C12 helper — the write set of the documented in-place operations, read from the *source text*.

For every mutator (RDMs.reorder / sort_by / append, Dataset.sort_by, TemporalDataset.sort_by) the
current text under RSA_REPO is parsed with `ast` and reduced to tokens

    new:<attr>    `self.<attr> = <fresh value>`                      (attribute re-binding)
    set:<attr>    `self.<attr>[k] = …`, or `self.<attr> = append_descriptor(self.<attr>, …)`
                  where append_descriptor assigns into its first parameter and returns it
                  (assignment *into the existing dictionary object*)
    els:<attr>    `self.<attr>[...] = …` on a data array / augmented assignment on it
    inplace:<x>   a store into a local that aliases a descriptor value (`descriptors[:] = …`,
                  `.sort()`, `.append()` … on it) — never expected

Calls `self.<method>(…)` to another mutator are followed.  The tokens must equal what the Lean
model's `compile` emits for the same operation (driver op `c12.writes`), so an edit that changes
*what an in-place operation writes* breaks this obligation even before a failing input is found.
"""
import ast
import os

DATA_ATTRS = {'dissimilarities', 'measurements'}
TRACKED = {'dissimilarities', 'measurements', 'descriptors', 'rdm_descriptors', 'pattern_descriptors',
           'obs_descriptors', 'channel_descriptors', 'time_descriptors'}
MUTATING_METHODS = {'sort', 'append', 'extend', 'insert', 'pop', 'remove', 'reverse', 'clear', 'update',
                    'fill', 'put', 'resize', 'setdefault', 'popitem'}


def _src(rel):
    root = os.environ.get('RSA_REPO_SRC') or os.path.join(os.environ.get('RSA_REPO', '/repo'), 'src', 'rsatoolbox')
    with open(os.path.join(root, rel)) as f:
        return ast.parse(f.read())


def _find(tree, cls, name):
    for node in tree.body:
        if cls is None and isinstance(node, ast.FunctionDef) and node.name == name:
            return node
        if isinstance(node, ast.ClassDef) and node.name == cls:
            for sub in node.body:
                if isinstance(sub, ast.FunctionDef) and sub.name == name:
                    return sub
    return None


def _self_attr(node):
    """self.X -> 'X'"""
    if isinstance(node, ast.Attribute) and isinstance(node.value, ast.Name) and node.value.id == 'self':
        return node.attr
    return None


def helper_assigns_into_first_param(fn):
    """does a module-level helper assign into (and return) its first parameter?"""
    if fn is None or not fn.args.args:
        return False
    p = fn.args.args[0].arg
    stores = any(isinstance(t, ast.Subscript) and isinstance(t.value, ast.Name) and t.value.id == p
                 for n in ast.walk(fn) if isinstance(n, ast.Assign) for t in n.targets)
    returns = any(isinstance(n, ast.Return) and isinstance(n.value, ast.Name) and n.value.id == p
                  for n in ast.walk(fn))
    return stores and returns


def writes(cls_file, cls, meth, helpers, _depth=0):
    tree = _src(cls_file)
    fn = _find(tree, cls, meth)
    if fn is None:
        return ['missing:' + meth]
    out = set()
    # locals that alias (values of) self's descriptor dictionaries
    alias = set()
    for n in ast.walk(fn):
        if isinstance(n, ast.For) and isinstance(n.iter, ast.Call) and isinstance(n.iter.func, ast.Attribute) \
                and _self_attr(n.iter.func.value) in TRACKED and n.iter.func.attr in ('items', 'values'):
            tgt = n.target
            names = [e.id for e in (tgt.elts if isinstance(tgt, ast.Tuple) else [tgt]) if isinstance(e, ast.Name)]
            if n.iter.func.attr == 'items':
                names = names[1:]
            alias.update(names)
        if isinstance(n, ast.Assign) and len(n.targets) == 1 and isinstance(n.targets[0], ast.Name):
            v = n.value
            if isinstance(v, ast.Subscript) and _self_attr(v.value) in TRACKED:
                alias.add(n.targets[0].id)
            if _self_attr(v) in TRACKED:
                alias.add(n.targets[0].id)
    for n in ast.walk(fn):
        targets = []
        if isinstance(n, ast.Assign):
            targets = [(t, n.value) for t in n.targets]
        elif isinstance(n, ast.AugAssign):
            targets = [(n.target, None)]
        for t, value in targets:
            a = _self_attr(t)
            if a in TRACKED:
                if value is None:      # self.X += …  (in place for arrays)
                    out.add('els:' + a)
                elif isinstance(value, ast.Call) and isinstance(value.func, ast.Name) \
                        and value.args and _self_attr(value.args[0]) == a \
                        and helper_assigns_into_first_param(helpers.get(value.func.id)):
                    out.add('set:' + a)
                else:
                    out.add('new:' + a)
            if isinstance(t, ast.Subscript):
                b = _self_attr(t.value)
                if b in TRACKED:
                    out.add(('els:' if b in DATA_ATTRS else 'set:') + b)
                if isinstance(t.value, ast.Name) and t.value.id in alias:
                    out.add('inplace:' + t.value.id)
        if isinstance(n, ast.Call) and isinstance(n.func, ast.Attribute):
            recv = n.func.value
            if isinstance(recv, ast.Name) and recv.id == 'self' and _depth < 3:
                if _find(tree, cls, n.func.attr) is not None and n.func.attr in ('reorder', 'sort_by', 'append'):
                    out.update(writes(cls_file, cls, n.func.attr, helpers, _depth + 1))
            if n.func.attr in MUTATING_METHODS:
                if isinstance(recv, ast.Name) and recv.id in alias:
                    out.add('inplace:' + recv.id)
                if _self_attr(recv) in TRACKED:
                    out.add('inplace:self.' + _self_attr(recv))
                if isinstance(recv, ast.Subscript) and _self_attr(recv.value) in TRACKED:
                    out.add('inplace:self.' + _self_attr(recv.value))
    return sorted(out)


def source_write_sets():
    du = _src('util/descriptor_utils.py')
    helpers = {n.name: n for n in du.body if isinstance(n, ast.FunctionDef)}
    return {
        'reorder': writes('rdm/rdms.py', 'RDMs', 'reorder', helpers),
        'sort_by': writes('rdm/rdms.py', 'RDMs', 'sort_by', helpers),
        'append': writes('rdm/rdms.py', 'RDMs', 'append', helpers),
        'ds_sort_by': writes('data/dataset.py', 'Dataset', 'sort_by', helpers),
        'tds_sort_by': writes('data/dataset.py', 'TemporalDataset', 'sort_by', helpers),
    }


if __name__ == '__main__':
    import json
    print(json.dumps(source_write_sets(), indent=1))
