"""C12 helper — observe the *real* Python heap of rsatoolbox objects.

  discover()            public callables of rsatoolbox.{rdm,data,model,inference,util} by introspection
  fingerprint(x)        bit-exact canonical content of an arbitrary argument / result graph
                        (array bytes + descriptor values; the library-managed `index` of RDMs excluded)
  Abstraction           maps a live object graph to the abstract heap of lean/Rsa/Core/Heap.lean:
                          obj cells   = RDMs / Dataset / TemporalDataset instances (identity),
                                        one pseudo-object ("bag") per side for loose arrays and dicts
                          dict cells  = descriptor dictionaries (identity)
                          val cells   = array *elements*, keyed by their memory address, so any
                                        view / slice / reshape relation is represented exactly
  in-place operations   the documented mutators (reorder, sort_by, append, dataset sort_by) and the
                        array write, applied to a live component and described for the model
"""
import importlib
import inspect
import pkgutil
import warnings

import numpy as np

PKGS = ['rdm', 'data', 'model', 'inference', 'util']

# documented in-place operations: they are the *history alphabet*, not producers
MUTATORS = {
    'rsatoolbox.rdm.rdms.RDMs.reorder', 'rsatoolbox.rdm.rdms.RDMs.sort_by',
    'rsatoolbox.rdm.rdms.RDMs.append', 'rsatoolbox.data.dataset.Dataset.sort_by',
    'rsatoolbox.data.dataset.TemporalDataset.sort_by',
}
# helpers whose documented contract is to update their first argument / the file system / self
INPLACE_BY_CONTRACT = {
    'rsatoolbox.util.descriptor_utils.append_descriptor':
        'documented "appends a descriptor to an existing one" (the helper behind RDMs.append)',
    'rsatoolbox.util.descriptor_utils.dict_to_list':
        'in-place converter of a freshly read hdf5 dictionary',
    'rsatoolbox.util.file_io.remove_file': 'file-system operation, no object argument',
    'rsatoolbox.util.vis_utils.Weighted_MDS.fit': 'scikit-learn estimator API: fit() sets attributes of self',
    'rsatoolbox.util.vis_utils.Weighted_MDS.fit_transform': 'scikit-learn estimator API: fit() sets attributes of self',
}


def discover():
    """{qualified name: (kind, callable, owner class or None)} for every public callable"""
    import rsatoolbox  # noqa: F401
    found = {}
    for p in PKGS:
        pkg = importlib.import_module('rsatoolbox.' + p)
        mods = [pkg]
        for m in pkgutil.walk_packages(pkg.__path__, pkg.__name__ + '.'):
            try:
                mods.append(importlib.import_module(m.name))
            except Exception:  # noqa: BLE001  (optional dependency missing)
                continue
        for m in mods:
            for name, obj in sorted(vars(m).items()):
                if name.startswith('_'):
                    continue
                modname = getattr(obj, '__module__', '') or ''
                if not modname.startswith('rsatoolbox.' + p):
                    continue
                if inspect.isfunction(obj):
                    found.setdefault(f'{modname}.{obj.__qualname__}', ('function', obj, None))
                elif inspect.isclass(obj):
                    found.setdefault(f'{modname}.{obj.__qualname__}', ('class', obj, None))
                    for mn, mo in sorted(vars(obj).items()):
                        if mn.startswith('_') and mn != '__getitem__':
                            continue
                        static = isinstance(mo, (staticmethod, classmethod))
                        f = mo.__func__ if static else mo
                        if inspect.isfunction(f):
                            found.setdefault(f'{modname}.{obj.__qualname__}.{mn}',
                                             ('static' if static else 'method', f, obj))
    return found


# ------------------------------------------------------------------ walking the real heap

DATA_FIELDS = {'RDMs': ['dissimilarities'], 'DatasetBase': ['measurements']}
RDM_DICTS = ['descriptors', 'rdm_descriptors', 'pattern_descriptors']
# dictionaries an in-place operation rewrites (content modelled entirely by value); in the other
# dictionaries float-array values are storage: array attributes named `dict[key]`
BYVALUE_DICTS = {'rdms': ('rdm_descriptors', 'pattern_descriptors'), 'dataset': ('obs_descriptors',)}
DS_DICTS = ['descriptors', 'obs_descriptors', 'channel_descriptors', 'time_descriptors']


def _is_rsa(obj):
    return type(obj).__module__.startswith('rsatoolbox') and hasattr(obj, '__dict__')


def kind_of(obj):
    from rsatoolbox.rdm.rdms import RDMs
    from rsatoolbox.data.base import DatasetBase
    if isinstance(obj, RDMs):
        return 'rdms'
    if isinstance(obj, DatasetBase):
        return 'dataset'
    return None


def tag(v):
    """opaque value tag shared with the model (string)"""
    if isinstance(v, (bytes, np.bytes_)):
        return 'b:' + bytes(v).decode('latin1')
    if isinstance(v, (str, np.str_)):
        return 's:' + str(v)
    if isinstance(v, (bool, np.bool_)):
        return 't' if v else 'f'
    if isinstance(v, (int, np.integer)):
        return str(int(v))
    if isinstance(v, (float, np.floating)):
        return repr(float(v))
    if v is None:
        return 'none'
    if isinstance(v, np.ndarray):
        return 'a[' + ','.join(tag(x) for x in v.ravel().tolist()) + ']'
    if isinstance(v, (list, tuple)):
        return 'l[' + ','.join(tag(x) for x in v) + ']'
    return 'o:' + repr(v)[:60]


def by_value(v):
    """descriptor values that are (or contain) float arrays are storage, not labels"""
    if isinstance(v, np.ndarray):
        return not (v.dtype.kind == 'f' and v.size > 0)
    if isinstance(v, (list, tuple)):
        # (recursively: a per-dataset list of per-fold lists of matrices is storage like a flat list)
        return all(by_value(e) if isinstance(e, (np.ndarray, list, tuple)) else True for e in v)
    if isinstance(v, dict):
        return all(by_value(e) if isinstance(e, (np.ndarray, list, tuple, dict)) else True for e in v.values())
    return True


def dict_content(d, writable):
    """[key, tags] entries of a dictionary cell; in the dictionaries no in-place operation
       assigns into, float-array values are separate array attributes"""
    return [[str(k), desc_values(v)] for k, v in d.items() if writable or by_value(v)]


def desc_values(v):
    """descriptor value -> list of tags (a scalar becomes a one-element list)"""
    if isinstance(v, np.ndarray):
        if v.ndim == 0:
            return [tag(v.item())]
        return [tag(x) for x in list(v)]
    if isinstance(v, (list, tuple)):
        return [tag(x) for x in v]
    return [tag(v)]


def fingerprint(x, _path='', _rdm_dict=False, _seen=None):
    """canonical, bit-exact, hashable description of everything reachable from x"""
    if _seen is None:
        _seen = set()
    if isinstance(x, np.ndarray):
        if x.ndim == 1 and x.dtype.kind in 'iuUSb':
            # a label sequence: compared by value, so list <-> array conversion of a descriptor
            # (dict_to_list on a loaded dictionary) is not a content change
            return ('seq', tuple(tag(e) for e in x.tolist()))
        if x.ndim == 1 and x.dtype.kind == 'f':
            # a float sequence (label values, weights): element by element, bit-exact, *ordered* —
            # the same form as a list of floats, so that dict_to_list's array -> list conversion of a
            # loaded dictionary is treated like the int / str case above; a permutation is a change
            return ('fseq', str(x.dtype), tuple(float(e).hex() for e in x.tolist()))
        if x.dtype == object:
            return ('objarr', x.shape, tuple(fingerprint(e, _path, False, _seen) for e in x.ravel().tolist()))
        return ('arr', str(x.dtype), x.shape, np.ascontiguousarray(x).tobytes())
    if isinstance(x, dict):
        if id(x) in _seen:
            return ('cycle',)
        _seen = _seen | {id(x)}
        items = []
        for k in sorted(x, key=str):
            items.append((str(k), fingerprint(x[k], f'{_path}.{k}', False, _seen)))
        return ('dict', tuple(items))
    if isinstance(x, (list, tuple)):
        if x and all(isinstance(e, (str, int, bool, np.str_, np.integer, np.bool_)) for e in x):
            return ('seq', tuple(tag(e) for e in x))
        if x and all(isinstance(e, (float, np.floating)) for e in x):
            dts = {str(e.dtype) if isinstance(e, np.floating) else 'float64' for e in x}
            if len(dts) == 1:
                return ('fseq', dts.pop(), tuple(float(e).hex() for e in x))
        if id(x) in _seen:
            return ('cycle',)
        _seen = _seen | {id(x)}
        return (type(x).__name__, tuple(fingerprint(e, f'{_path}[{i}]', False, _seen) for i, e in enumerate(x)))
    if isinstance(x, (set, frozenset)):
        return ('set', tuple(sorted(repr(e) for e in x)))
    if _is_rsa(x):
        if id(x) in _seen:
            return ('cycle',)
        _seen = _seen | {id(x)}
        k = kind_of(x)
        items = []
        for name in sorted(vars(x)):
            items.append((name, fingerprint(vars(x)[name], f'{_path}.{name}',
                                            k == 'rdms' and name in ('rdm_descriptors', 'pattern_descriptors'),
                                            _seen)))
        return ('obj', type(x).__name__, tuple(items))
    mod = type(x).__module__
    if mod.startswith('pandas'):
        try:
            return ('df', tuple(map(str, x.columns)), tuple(tag(v) for v in x.to_numpy().ravel().tolist()))
        except Exception:  # noqa: BLE001
            return ('df?', repr(x)[:200])
    if mod.startswith('scipy.sparse'):
        c = x.tocoo()
        return ('sparse', c.shape, c.row.tobytes(), c.col.tobytes(), np.asarray(c.data).tobytes())
    if callable(x):
        return ('fn', getattr(x, '__qualname__', repr(x)[:40]))
    if isinstance(x, (np.generic,)):
        return ('np', str(x.dtype), x.tobytes())
    if isinstance(x, (int, float, str, bool, bytes)) or x is None:
        return ('py', type(x).__name__, repr(x))
    if hasattr(x, '__dict__'):
        if id(x) in _seen:
            return ('cycle',)
        _seen = _seen | {id(x)}
        return ('pyobj', type(x).__name__,
                tuple((n, fingerprint(v, f'{_path}.{n}', False, _seen)) for n, v in sorted(vars(x).items())))
    return ('other', type(x).__name__, repr(x)[:80])


def entry_identities(x, _path='', out=None, _seen=None):
    """round 7 — the *identity* of the entries of the caller's containers: [(path, container, key,
       entry)] for every entry of every list / tuple / dict reachable from x through lists / tuples /
       dicts only (the user's own containers: argument lists, per-fold noise lists / dicts, lists of
       datasets) that is an array, a container or a library object.  The entries are held here, so no
       id() can be recycled between the two looks"""
    if out is None:
        out, _seen = [], set()
    if isinstance(x, dict):
        items = list(x.items())
    elif isinstance(x, (list, tuple)):
        items = list(enumerate(x))
    else:
        return out
    if id(x) in _seen:
        return out
    _seen.add(id(x))
    for k, e in items:
        if isinstance(e, np.ndarray) and e.ndim < 2:
            continue        # a label / value sequence: compared by value (list <-> array conversion of a
            #                 loaded dictionary's descriptor by dict_to_list is not a change), see fingerprint
        if isinstance(e, (list, tuple)) and all(not isinstance(v, (np.ndarray, list, tuple, dict)) and not _is_rsa(v)
                                                for v in e):
            continue        # likewise: a plain sequence of scalars
        if isinstance(e, (np.ndarray, list, tuple, dict)) or _is_rsa(e):
            pth = f'{_path}[{k!r}]'
            out.append((pth, x, k, e))
            entry_identities(e, pth, out, _seen)
    return out


def identity_diffs(before, skip=()):
    """paths of the entries recorded by `entry_identities` that are no longer the same object
       (`container[k] is original`), or are gone"""
    out = []
    for pth, cont, k, e in before:
        if pth in skip:
            continue
        try:
            now = cont[k]
        except (KeyError, IndexError):
            out.append(f'{pth} entry removed')
            continue
        if now is not e:
            out.append(f'{pth} entry replaced by another object')
    return out


def fp_diff(a, b, path=''):
    """first path at which two fingerprints differ (for messages)"""
    if a == b:
        return None
    if isinstance(a, tuple) and isinstance(b, tuple) and a and b and a[0] == b[0]:
        if a[0] in ('dict',) and len(a) == 2:
            da, db = dict(a[1]), dict(b[1])
            for k in sorted(set(da) | set(db)):
                if k not in da:
                    return f'{path}[{k!r}] added'
                if k not in db:
                    return f'{path}[{k!r}] removed'
                d = fp_diff(da[k], db[k], f'{path}[{k!r}]')
                if d:
                    return d
        if a[0] in ('obj', 'pyobj') and len(a) == 3:
            da, db = dict(a[2]), dict(b[2])
            for k in sorted(set(da) | set(db)):
                d = fp_diff(da.get(k), db.get(k), f'{path}.{k}')
                if d:
                    return d
        if a[0] in ('list', 'tuple') and len(a) == 2 and len(a[1]) == len(b[1]):
            for i, (x, y) in enumerate(zip(a[1], b[1])):
                d = fp_diff(x, y, f'{path}[{i}]')
                if d:
                    return d
        if a[0] == 'arr':
            return f'{path} array content/shape changed'
    return f'{path} changed' if path else 'value changed'


def fp_diffs(a, b, path='', out=None, limit=40):
    """all paths at which two fingerprints differ (same traversal as fp_diff)"""
    if out is None:
        out = []
    if a == b or len(out) >= limit:
        return out
    if isinstance(a, tuple) and isinstance(b, tuple) and a and b and a[0] == b[0]:
        if a[0] == 'dict' and len(a) == 2:
            da, db = dict(a[1]), dict(b[1])
            for k in sorted(set(da) | set(db)):
                if k not in da:
                    out.append(f'{path}[{k!r}] added')
                elif k not in db:
                    out.append(f'{path}[{k!r}] removed')
                else:
                    fp_diffs(da[k], db[k], f'{path}[{k!r}]', out, limit)
            return out
        if a[0] in ('obj', 'pyobj') and len(a) == 3:
            da, db = dict(a[2]), dict(b[2])
            for k in sorted(set(da) | set(db)):
                fp_diffs(da.get(k), db.get(k), f'{path}.{k}', out, limit)
            return out
        if a[0] in ('list', 'tuple') and len(a) == 2 and len(a[1]) == len(b[1]):
            for i, (x, y) in enumerate(zip(a[1], b[1])):
                fp_diffs(x, y, f'{path}[{i}]', out, limit)
            return out
    out.append(f'{path} changed')
    return out


def components(x, _seen=None, _path='', out=None):
    """walk an object graph; returns list of (path, kind, object) for
       kind in rdms | dataset | array (loose float array) | dict (loose descriptor-like dict)"""
    if out is None:
        out = []
    if _seen is None:
        _seen = set()
    if id(x) in _seen:
        return out
    if isinstance(x, np.ndarray):
        if x.dtype != object and x.dtype.kind in 'fiub' and x.size > 0:
            _seen.add(id(x))
            out.append((_path, 'array', x))
        elif x.dtype == object:
            for i, e in enumerate(x.ravel().tolist()):
                components(e, _seen, f'{_path}[{i}]', out)
        return out
    k = kind_of(x)
    if k:
        _seen.add(id(x))
        out.append((_path, k, x))
        # descriptor dictionaries / data arrays of a component belong to the component;
        # anything else hanging off it (e.g. nothing today) is walked generically
        known = set(DATA_FIELDS['RDMs'] + DATA_FIELDS['DatasetBase'] + RDM_DICTS + DS_DICTS)
        for name, v in vars(x).items():
            if name not in known:
                components(v, _seen, f'{_path}.{name}', out)
        return out
    if isinstance(x, dict):
        _seen.add(id(x))
        out.append((_path, 'dict', x))
        for kk, v in x.items():
            components(v, _seen, f'{_path}[{kk!r}]', out)
        return out
    if isinstance(x, (list, tuple)):
        _seen.add(id(x))
        for i, e in enumerate(x):
            components(e, _seen, f'{_path}[{i}]', out)
        return out
    if _is_rsa(x) or (hasattr(x, '__dict__') and not callable(x)
                      and not type(x).__module__.startswith(('pandas', 'scipy', 'numpy', 'builtins'))):
        _seen.add(id(x))
        for name, v in vars(x).items():
            components(v, _seen, f'{_path}.{name}', out)
    return out


def element_addresses(a):
    """memory address of every element of an ndarray, C order of the *view*"""
    base = a.__array_interface__['data'][0]
    off = np.zeros(a.shape, dtype=np.int64)
    for ax, (n, s) in enumerate(zip(a.shape, a.strides)):
        shp = [1] * a.ndim
        shp[ax] = n
        off = off + (np.arange(n, dtype=np.int64) * s).reshape(shp)
    return (base + off).ravel().tolist()


class Abstraction:
    """abstract heap of two sides (source = all arguments, result) for the Lean model"""

    MAX_ELEMS = 4000

    def __init__(self):
        self.cells = {}      # loc -> cell json
        self.addr = {}       # ('el', address, itemsize) / ('id', id) -> loc
        self.next = 0
        self.keep = []       # keep python objects alive so ids / addresses stay unique
        self.too_big = False

    def _loc(self, key):
        if key not in self.addr:
            self.addr[key] = self.next
            self.next += 1
        return self.addr[key]

    def _arr_field(self, a):
        a = np.asarray(a)
        if a.size > self.MAX_ELEMS:
            self.too_big = True
        self.keep.append(a)
        locs = []
        flat = a.ravel().tolist() if a.size else []
        for ad, v in zip(element_addresses(a), flat):
            l = self._loc(('el', ad))
            self.cells[l] = {'v': tag(float(v) if a.dtype.kind == 'f' else v)}
            locs.append(l)
        return {'a': [int(s) for s in a.shape], 'l': locs}

    def _dict_cell(self, d, writable=False):
        self.keep.append(d)
        l = self._loc(('id', id(d)))
        if l in self.cells and not writable:
            return l      # seen as a writable dictionary elsewhere: keep the full content
        self.cells[l] = {'d': dict_content(d, writable)}
        return l

    def obj(self, o, kind):
        """an RDMs / dataset instance -> obj cell"""
        self.keep.append(o)
        l = self._loc(('id', id(o)))
        fields = []
        if kind == 'rdms':
            fields.append(['dissimilarities', self._arr_field(o.dissimilarities)])
            names = RDM_DICTS
        else:
            fields.append(['measurements', self._arr_field(o.measurements)])
            names = [n for n in DS_DICTS if hasattr(o, n)]
        for n in names:
            d = getattr(o, n)
            if isinstance(d, dict):
                w = n in BYVALUE_DICTS[kind]
                fields.append([n, {'d': self._dict_cell(d, w)}])
                if not w:
                    for k, v in d.items():
                        if isinstance(v, np.ndarray) and not by_value(v):
                            fields.append([f'{n}[{k}]', self._arr_field(v)])
        self.cells[l] = {'o': fields}
        return l

    def bag(self, comps):
        """pseudo-object holding the loose arrays and dictionaries of one side"""
        l = self._loc(('bag', len(self.keep), id(comps)))
        fields = []
        for i, (path, kind, x) in enumerate(comps):
            if kind == 'array':
                fields.append([f'a{i}', self._arr_field(x)])
            elif kind == 'dict':
                flat = all(not isinstance(v, dict) for v in x.values())
                if flat:
                    fields.append([f'd{i}', {'d': self._dict_cell(x)}])
        self.cells[l] = {'o': fields}
        return l

    def side(self, x):
        """returns (roots, comps) where comps[i] = (path, kind, obj) of root i; the bag is last"""
        comps = components(x)
        roots, kept = [], []
        for path, kind, o in comps:
            if kind in ('rdms', 'dataset'):
                roots.append(self.obj(o, kind))
                kept.append((path, kind, o))
        loose = [(p, k, o) for p, k, o in comps if k in ('array', 'dict')]
        roots.append(self.bag(loose))
        kept.append(('<loose>', 'bag', loose))
        return roots, kept

    def heap_json(self):
        return {'cells': [[l, c] for l, c in sorted(self.cells.items())], 'next': self.next}


def reach_side(cells, roots):
    """python twin of Rsa.Heap.reachSide, used only to *order* histories (never for a verdict)"""
    out = set()
    for r in roots:
        out.add(r)
        for name, f in cells[r].get('o', []):
            out.update(f['l'] if 'l' in f else [f['d']])
    return out


def shared_fields(cells, root, other_reach):
    """attribute names of the object at root whose storage is readable from the other side"""
    names = set()
    if root in other_reach:
        names.add('<object>')
    for name, f in cells[root].get('o', []):
        locs = f['l'] if 'l' in f else [f['d']]
        if any(l in other_reach for l in locs):
            names.add(name)
    return names


def dump_component(kind, o):
    """canonical content of a live component in the model's dump format"""
    out = []
    if kind == 'rdms':
        a = np.asarray(o.dissimilarities)
        out.append(['dissimilarities', 'a', [int(s) for s in a.shape],
                    [tag(float(v)) if a.dtype.kind == 'f' else tag(v) for v in a.ravel().tolist()]])
        names = RDM_DICTS
    elif kind == 'dataset':
        a = np.asarray(o.measurements)
        out.append(['measurements', 'a', [int(s) for s in a.shape],
                    [tag(float(v)) if a.dtype.kind == 'f' else tag(v) for v in a.ravel().tolist()]])
        names = [n for n in DS_DICTS if hasattr(o, n)]
    else:  # bag
        for i, (path, k, x) in enumerate(o):
            if k == 'array':
                a = np.asarray(x)
                out.append([f'a{i}', 'a', [int(s) for s in a.shape],
                            [tag(float(v)) if a.dtype.kind == 'f' else tag(v) for v in a.ravel().tolist()]])
            elif k == 'dict' and all(not isinstance(v, dict) for v in x.values()):
                out.append([f'd{i}', 'd', sorted(dict_content(x, False))])
        return out
    for n in names:
        d = getattr(o, n)
        if isinstance(d, dict):
            w = n in BYVALUE_DICTS[kind]
            out.append([n, 'd', sorted(dict_content(d, w))])
            if not w:
                for kk, v in d.items():
                    if isinstance(v, np.ndarray) and not by_value(v):
                        a = np.asarray(v)
                        out.append([f'{n}[{kk}]', 'a', [int(s) for s in a.shape],
                                    [tag(float(e)) for e in a.ravel().tolist()]])
    return out


def canon_dump(d):
    """sort dictionary entries of a model dump the same way"""
    out = []
    for f in d:
        if f[1] == 'd':
            out.append([f[0], 'd', sorted(f[2])])
        else:
            out.append(f)
    return out


# ------------------------------------------------------------------ in-place operations

def applicable_ops(kind, o, rng):
    """model-level descriptions of the documented in-place operations applicable to a component"""
    ops = []
    if kind == 'rdms':
        n = o.n_cond
        ops.append({'op': 'fill', 'field': 'dissimilarities'})
        if n >= 2:
            perm = list(range(n))
            while perm == list(range(n)):
                rng.shuffle(perm)
            ops.append({'op': 'reorder', 'perm': perm})
            keys = [k for k, v in o.pattern_descriptors.items()
                    if k != 'index' and len(set(map(tag, v))) == len(v)]
            if keys:
                k = rng.choice(sorted(keys))
                order = list(o.pattern_descriptors[k])
                first = list(order)
                while order == first:
                    rng.shuffle(order)
                ops.append({'op': 'sort_by', 'key': k, 'order': [tag(x) for x in order],
                            'reindex': rng.random() < 0.7})
        ops.append({'op': 'append', 'n': rng.randint(1, 2)})
    elif kind == 'dataset':
        ops.append({'op': 'fill', 'field': 'measurements'})
        keys = [k for k, v in o.obs_descriptors.items()
                if len(v) == o.n_obs and all(isinstance(x, (str, np.str_)) for x in v)
                and list(np.argsort(np.asarray(v), kind='stable')) != list(range(o.n_obs))]
        if keys:
            ops.append({'op': 'ds_sort_by', 'by': rng.choice(sorted(keys))})
    elif kind == 'bag':
        for i, (path, k, x) in enumerate(o):
            if k == 'array' and x.flags.writeable and x.dtype.kind == 'f':
                ops.append({'op': 'fill', 'field': f'a{i}'})
    return ops


def _fill_values(a):
    """new content for an array write: every element changes"""
    flat = np.asarray(a, dtype=float).ravel()
    return np.where(np.isfinite(flat), -flat - 1.0, 7.0)


def apply_op(kind, o, op):
    """apply a described in-place operation to the live component; completes the description
       with what the model needs (written values, appended rows); returns the completed op"""
    from rsatoolbox.rdm.rdms import RDMs
    op = dict(op)
    name = op['op']
    if name == 'fill':
        if kind == 'rdms':
            a = o.dissimilarities
        elif kind == 'dataset':
            a = o.measurements
        else:
            a = o[int(op['field'][1:])][2]
        new = _fill_values(a)
        op['vals'] = [tag(float(v)) for v in new.tolist()]
        if not a.flags.writeable:
            op['readonly'] = True
            return op
        a[...] = new.reshape(a.shape)
    elif name == 'reorder':
        o.reorder(np.array(op['perm']))
    elif name == 'sort_by':
        untag = {tag(x): x for x in o.pattern_descriptors[op['key']]}
        o.sort_by(reindex=op['reindex'], **{op['key']: [untag[t] for t in op['order']]})
    elif name == 'append':
        m = int(op['n'])
        w = o.dissimilarities.shape[1]
        rows = (np.arange(m * w, dtype=float).reshape(m, w) + 0.5) * 1000.0
        rd = {}
        for k, v in o.rdm_descriptors.items():
            proto = list(v)[0] if len(v) else 0
            if isinstance(proto, (str, np.str_)):
                rd[k] = [f'app{j}' for j in range(m)]
            elif isinstance(proto, (float, np.floating)):
                rd[k] = [float(900 + j) for j in range(m)]
            else:
                rd[k] = [900 + j for j in range(m)]
        other = RDMs(rows, dissimilarity_measure=o.dissimilarity_measure, rdm_descriptors=rd)
        op['rows'] = [tag(float(v)) for v in rows.ravel().tolist()]
        op['desc'] = [[k, desc_values(v)] for k, v in other.rdm_descriptors.items()]
        o.append(other)
    elif name == 'ds_sort_by':
        o.sort_by(op['by'])
    else:
        raise ValueError(name)
    return op


def quiet():
    warnings.simplefilter('ignore')
    np.seterr(all='ignore')
