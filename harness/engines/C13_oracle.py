"""Independent transcription of property C13 (plain loops, exact fractions where possible),
run against the *real* rsatoolbox.  Used by the failing-input search, by --replay and for the
corpus witnesses.  Nothing here is shared with the Lean model.

Reading of the statement
  (a) compared RDMs lacking exactly the same entries: compare(...) returns the measure, by its
      definition, of the vectors with those entries deleted (whitened measures: V with the
      matching rows and columns deleted); where that definition is 0/0 nothing is demanded;
      for the Bures measures "what it returns on the deleted vectors" is taken literally
      (value or error of the same call on the reduced arrays);
  (b) missing entries at different positions (between the stacks or inside one stack, equal
      counts or not): a ValueError, never a number;
  (c) pooled RDM / regression fit on a stack with a common mask = the NaN-free formula on the
      reduced vectors, put back at the mask (V reduced likewise);
  (d) RDMs.mean: entry k = Σ_{i has k} w_ik v_ik / Σ_{i has k} w_ik, NaN iff no RDM has k;
      one weight per RDM means w_ik = w_i; a descriptor name means the stored weights;
  (e) rescale: every output row is its input row times one positive constant, NaN pattern
      kept; rows that are masked multiples of one vector (overlap graph connected) end up
      as masked copies of one vector.
"""
import math
from fractions import Fraction as F

import numpy as np

from engines import C03_oracle as o3


def fr(v):
    return None if v is None else F(v)


def rows_fr(stack):
    return [[fr(v) for v in r] for r in stack]


def mask_of(row):
    return [v is not None for v in row]


def deleted(row):
    return [v for v in row if v is not None]


def tri_pairs(n):
    return [(i, j) for i in range(n) for j in range(i + 1, n)]


def fail(case, claim, what, observed, expected, **extra):
    return {'what': what, 'observed': observed, 'expected': expected,
            'features': dict(claim=claim, kind=case['kind'], **extra)}


def _close(a, b, tol, scale=1.0):
    if a is None or b is None:
        return a is None and b is None
    if isinstance(a, float) and math.isnan(a):
        return False
    return abs(a - b) <= tol * max(1.0, abs(scale))


# ---------------------------------------------------------------- (a), (b) comparison

def compare_tol(method, sig):
    if method.startswith('bures') or method == 'neg_riem_dist':
        return 1e-4
    if method in ('corr_cov', 'cosine_cov') and sig is not None:
        return 5e-4
    return 1e-7


def definition(method, n, sig, mask, x, y):
    """measure of two reduced vectors (fractions); None = undefined (0/0)"""
    if method == 'cosine':
        return o3.d_cosine(x, y)
    if method == 'corr':
        return o3.d_corr(x, y)
    if method == 'spearman':
        return o3.d_spearman(x, y)
    if method in ('kendall', 'tau-b'):
        return o3.d_tau_b(x, y)
    if method == 'tau-a':
        return o3.d_tau_a(x, y)
    if method == 'rho-a':
        return o3.d_rho_a(x, y)
    if method in ('cosine_cov', 'corr_cov'):
        v = o3.v_matrix(n, sig)
        keep = [k for k, b in enumerate(mask) if b]
        vs = [[v[p][q] for q in keep] for p in keep]
        vinv = o3.inverse(vs)
        if vinv is None:
            return None
        if method == 'corr_cov':
            x, y = o3.centred(x), o3.centred(y)
        return o3.d_whitened(x, y, vinv)
    raise ValueError(method)


def check_compare(case, call):
    """call(x, y, method, sigma, form) -> matrix (None = nan) | {'exc': name}"""
    method, n, sig = case['method'], case['n'], case['sigma']
    x, y = rows_fr(case['x']), rows_fr(case['y'])
    obs = call(case['x'], case['y'], method, sig, case['form'])
    masks = [mask_of(r) for r in x + y]
    common = all(m == masks[0] for m in masks)
    if not common:
        if isinstance(obs, dict) and obs.get('exc') == 'ValueError':
            return None
        return fail(case, 'reject', 'RDMs with missing entries at different positions were not rejected',
                    obs if isinstance(obs, dict) else 'a similarity matrix', {'exc': 'ValueError'},
                    method=method, maskkind=case.get('maskkind'))
    mask = masks[0]
    xd, yd = [deleted(r) for r in x], [deleted(r) for r in y]
    if method.startswith('bures') or method == 'neg_riem_dist':
        exp = call([[v for v in r if v is not None] for r in case['x']],
                   [[v for v in r if v is not None] for r in case['y']], method, None, 'array')
        if isinstance(exp, dict) or isinstance(obs, dict):
            if exp == obs:
                return None
            return fail(case, 'deleted', f'{method} on masked RDMs differs from the reduced arrays',
                        obs, exp, method=method, maskkind=case.get('maskkind'))
    else:
        exp = [[definition(method, n, sig, mask, a, b) for b in yd] for a in xd]
    if isinstance(obs, dict):
        return fail(case, 'deleted', f'compare raised {obs} on RDMs with a common mask', obs,
                    'the measure of the reduced vectors', method=method, maskkind=case.get('maskkind'))
    tol = compare_tol(method, sig)
    if len(obs) != len(exp) or any(len(r) != len(s) for r, s in zip(obs, exp)):
        return fail(case, 'deleted', 'shape of the similarity matrix', [len(obs), len(obs[0])],
                    [len(exp), len(exp[0])], method=method, maskkind=case.get('maskkind'))
    for i, (r, s) in enumerate(zip(obs, exp)):
        for j, (u, v) in enumerate(zip(r, s)):
            if v is None:
                continue          # 0/0 by definition: nothing demanded
            if u is None or not _close(u, v, tol):
                return fail(case, 'deleted',
                            f'{method}[{i}][{j}] on RDMs with a common mask differs from the measure of the '
                            'vectors with those entries deleted', u, v, method=method,
                            maskkind=case.get('maskkind'), sigma=o3._sk(sig))
    return None


# ---------------------------------------------------------------- (d) mean

def weights_matrix(case):
    v = case['v']
    wk = case['wkind']
    if wk == 'none':
        return [[F(1)] * len(r) for r in v]
    if wk in ('rdm_array', 'rdm_desc'):
        return [[fr(w)] * len(r) for r, w in zip(v, case['w'])]
    return rows_fr(case['w'])


def mean_expected(v, w):
    out = []
    for k in range(len(v[0])):
        num = den = F(0)
        present = False
        for i in range(len(v)):
            if v[i][k] is not None and w[i][k] is not None:
                present = True
                num += w[i][k] * v[i][k]
                den += w[i][k]
        out.append(num / den if present and den != 0 else None)
    return out


def check_mean(case, impl):
    v = rows_fr(case['v'])
    exp = mean_expected(v, weights_matrix(case))
    if isinstance(impl, dict) and 'exc' in impl:
        return fail(case, 'mean', f'RDMs.mean raised {impl["exc"]}', impl, 'a mean RDM', wkind=case['wkind'])
    obs = impl['mean']
    if len(obs) != len(exp):
        return fail(case, 'mean', 'length of the mean RDM', len(obs), len(exp), wkind=case['wkind'])
    for k, (u, e) in enumerate(zip(obs, exp)):
        if e is None:
            if u is not None:
                return fail(case, 'mean', f'entry {k} is missing in every RDM but the mean has a value', u, None,
                            wkind=case['wkind'])
        elif u is None or not _close(u, float(e), 1e-10, float(e)):
            return fail(case, 'mean', f'entry {k} of the weighted NaN-aware mean', u, float(e),
                        wkind=case['wkind'])
    if not impl.get('desc_is_dict', True):
        return fail(case, 'mean', 'descriptors of the mean RDM are not a dict', 'not a dict', 'dict',
                    wkind=case['wkind'])
    return None


# ---------------------------------------------------------------- (e) rescale

def overlap_connected(masks):
    n = len(masks)
    seen = {0}
    todo = [0]
    while todo:
        a = todo.pop()
        for b in range(n):
            if b not in seen and any(p and q for p, q in zip(masks[a], masks[b])):
                seen.add(b)
                todo.append(b)
    return len(seen) == n


def check_rescale(case, impl):
    d = [[None if v is None else float(F(v)) for v in r] for r in case['d']]
    if isinstance(impl, dict) and 'exc' in impl:
        return fail(case, 'rescale', f'rescale raised {impl["exc"]}', impl, 'aligned RDMs', method=case['method'])
    al = impl['aligned']
    consts = []
    for i, (src, out) in enumerate(zip(d, al)):
        if [v is None for v in src] != [v is None for v in out]:
            return fail(case, 'rescale', f'row {i}: NaN pattern changed', [v is None for v in out],
                        [v is None for v in src], method=case['method'])
        ratios = [o / s for s, o in zip(src, out) if s is not None and s != 0]
        if not ratios:
            consts.append(None)
            continue
        c = ratios[0]
        if not (c > 0 and all(abs(r - c) <= 1e-9 * abs(c) for r in ratios)):
            return fail(case, 'rescale', f'row {i} is not its source row times one positive constant',
                        ratios[:6], 'one positive constant', method=case['method'])
        if any(s == 0 and o != 0 for s, o in zip(src, out) if s is not None):
            return fail(case, 'rescale', f'row {i}: a zero entry became non-zero', None, 0, method=case['method'])
        consts.append(c)
    # weights as documented
    w = impl['weights']
    for i, row in enumerate(d):
        cnt = sum(1 for v in row if v is not None)
        for k, v in enumerate(row):
            if v is None:
                e = None
            elif case['method'] == 'evidence':
                e = max(v * v, 0.2 ** 2)
            elif case['method'] == 'setsize':
                e = 1.0 / cnt
            else:
                e = 1.0
            if not _close(w[i][k], e, 1e-12):
                return fail(case, 'rescale', f'weight [{i}][{k}] of method {case["method"]}', w[i][k], e,
                            method=case['method'])
    prop = case.get('prop')
    if prop and impl.get('converged', True) and overlap_connected([[v is not None for v in r] for r in d]):
        # rows are a_i * t on their masks: aligned rows must be b * t with one b
        t = [float(F(v)) for v in prop['t']]
        bs = [o / t[k] for out in al for k, o in enumerate(out) if o is not None and t[k] != 0]
        lo, hi = min(bs), max(bs)
        tol = max(1e-6, 300.0 * math.sqrt(float(case['thr'])))
        if not (lo > 0 and (hi - lo) <= tol * hi):
            return fail(case, 'rescale', 'mutually proportional partial RDMs were not brought to a common scale',
                        [lo, hi], 'one common factor', method=case['method'], proportional=True)
    return None


# ---------------------------------------------------------------- (c) pooling, regression

def _ranks(x):
    return np.array([float(r) for r in o3.avg_ranks([F(float(v)) for v in x])])


def v_sub(n, sig, mask):
    v = np.array([[float(a) for a in r] for r in o3.v_matrix(n, sig)])
    keep = [k for k, b in enumerate(mask) if b]
    return v[np.ix_(keep, keep)]


def pool_full(rows, method, variant, V):
    """the pooled RDM of complete vectors (2-D float array) by the documented formulas"""
    r = np.array(rows, dtype=float)
    if method in ('euclid', 'neg_riem_dist'):
        return r.mean(0)
    if method in ('spearman', 'rho-a', 'kendall', 'tau-b', 'tau-a'):
        return np.array([_ranks(v) for v in r]).mean(0)
    cov = variant == 'pool' and method.endswith('_cov')
    base = method[:-4] if method.endswith('_cov') else method
    if base == 'corr':
        r = r - r.mean(1, keepdims=True)
    def nz(a):
        # a zero norm is replaced by 1: an all-zero / constant RDM stays a zero vector
        return np.where(a == 0, 1.0, a)
    if cov:
        vi = np.linalg.inv(V)
        r = r / nz(np.sqrt(np.einsum('ij,jk,ik->i', r, vi, r)))[:, None]
    elif base == 'cosine':
        r = r / nz(np.sqrt((r ** 2).mean(1, keepdims=True)))
    else:
        r = r / nz(r.std(1, keepdims=True))
    out = r.mean(0)
    if base == 'corr':
        out = out - out.min() + (0.01 if variant == 'pool' else 0.0)
    return out


RANK_METHODS = ('spearman', 'rho-a', 'kendall', 'tau-b', 'tau-a')


def pool_partial(st, method, variant, n, sigma):
    """(round 7) the pooled RDM of a stack whose RDMs lack *different* entries, pair by pair (plain loops):
    every RDM is normalised on its own present entries (cosine: root mean square, corr: own mean and
    standard deviation, ranks among its own present values; the whitened norms of util/pooling.py on the
    pairs every RDM has, with the matching sub-block of V); pooled entry k is the mean over the RDMs'
    normalised entries **for pair k** where every RDM has that pair and missing where any RDM lacks it
    (`_nan_mean`: "the average ... with nans for masked entries"); the correlation types are shifted by the
    minimum of the present pooled entries.  Returns (expected list with None = missing, normalised rows)
    or None when the case is not judged (whitened pooling without a single common pair)."""
    m = len(st[0])
    ok = [all(r[k] is not None for r in st) for k in range(m)]
    cov = variant == 'pool' and method.endswith('_cov')
    base = method[:-4] if method.endswith('_cov') else method
    vi = None
    if cov:
        if not any(ok):
            return None
        vi = np.linalg.inv(v_sub(n, sigma, ok))
    Z = []
    for r in st:
        idx = [k for k in range(m) if r[k] is not None]
        row = [None] * m
        if idx:
            p = np.array([r[k] for k in idx], dtype=float)
            if method in ('euclid', 'neg_riem_dist'):
                z = p
            elif method in RANK_METHODS:
                z = np.array(_ranks(p), dtype=float)
            else:
                if base == 'corr':
                    p = p - p.mean()
                if cov:
                    x = np.array([a for a, k in zip(p, idx) if ok[k]], dtype=float)
                    nrm = math.sqrt(float(x @ vi @ x)) if float(x @ vi @ x) >= 0 else float('nan')
                elif base == 'cosine':
                    nrm = math.sqrt(float((p ** 2).mean()))
                else:
                    nrm = float(p.std())
                z = p / (1.0 if nrm == 0 else nrm)
            for k, a in zip(idx, z.tolist()):
                row[k] = a
        Z.append(row)
    out = [sum(row[k] for row in Z) / len(Z) if ok[k] else None for k in range(m)]
    if base == 'corr' and method not in RANK_METHODS:
        fin = [a for a in out if a is not None and a == a]
        if fin:
            mn = min(fin)
            out = [None if a is None else a - mn + (0.01 if variant == 'pool' else 0.0) for a in out]
    return out, Z


def _pair(n, k):
    c = 0
    for a in range(n):
        for b in range(a + 1, n):
            if c == k:
                return (a, b)
            c += 1
    return (None, None)


def _shift_explanation(Z, masks, k, u, tol):
    """is the observed entry k the mean of the RDMs' j-th *present* entries (rows compacted, i.e. pooled
    entry-shifted)?  -> text naming the pairs whose values were averaged, or ''"""
    comp = [[(kk, a) for kk, a in enumerate(row) if a is not None] for row in Z]
    first = [kk for kk, b in enumerate(masks[0]) if b]
    if k not in first:
        return ''
    j = first.index(k)
    if any(len(c) <= j for c in comp):
        return ''
    cand = sum(c[j][1] for c in comp) / len(comp)
    if u is not None and _close(u, cand, tol, cand) and any(c[j][0] != k for c in comp):
        return ' -- it is the mean of the RDMs\' %d-th present entries, i.e. of entries %s (entry-shifted)' % (
            j, [c[j][0] for c in comp])
    return ''


def check_pool_differing(case, impl, st, masks):
    """(round 7) RDMs of one stack lack different pairs (from_partials with different condition subsets,
    of equal or unequal size): the pooled entry of a pair is the mean of the RDMs' (normalised) entries for
    that pair, missing where any RDM lacks it -- never a value of another pair"""
    n, method, variant = case['n'], case['method'], case['variant']
    counts = [sum(mk) for mk in masks]
    mk = 'differing-equal-count' if len(set(counts)) == 1 else 'differing-unequal-count'
    extra = dict(method=method, variant=variant, masks=mk)
    with np.errstate(all='ignore'):
        pp = pool_partial(st, method, variant, n, case['sigma'])
    if pp is None:
        return None
    exp, Z = pp
    if isinstance(impl, dict) and 'exc' in impl:
        # the other admissible outcome is a rejection (the statement: "ignored consistently or rejected")
        if impl['exc'] == 'ValueError':
            return None
        return fail(case, 'pool', f'pool_rdm raised {impl["exc"]} on RDMs lacking different entries', impl,
                    'a pooled RDM with missing entries where any RDM lacks the pair, or a ValueError', **extra)
    cov = variant == 'pool' and method.endswith('_cov')
    tol = 5e-4 if cov else 1e-9
    shifted = method in ('corr', 'corr_cov')
    for k, (u, e) in enumerate(zip(impl['pooled'], exp)):
        pr = _pair(n, k)
        if e is None:
            if u is not None:
                lack = [i for i, m_ in enumerate(masks) if not m_[k]]
                why = '' if shifted else _shift_explanation(Z, masks, k, u, tol)
                return fail(case, 'pool', f'pooled entry {k} (pair {pr}) has a value although RDM(s) {lack} lack '
                            f'that pair{why}', u, None, **extra)
        elif e != e:
            continue
        elif u is None or not _close(u, e, tol, e):
            why = '' if shifted else _shift_explanation(Z, masks, k, u, tol)
            return fail(case, 'pool', f'pooled entry {k} (pair {pr}) is not the mean of the RDMs\' entries for that '
                        f'pair{why}', u, e, **extra)
    return None


def check_pool(case, impl):
    st = [[None if v is None else float(F(v)) for v in r] for r in case['stack']]
    masks = [[v is not None for v in r] for r in st]
    if any(m != masks[0] for m in masks):
        return check_pool_differing(case, impl, st, masks)
    if isinstance(impl, dict) and 'exc' in impl:
        return fail(case, 'pool', f'pool_rdm raised {impl["exc"]}', impl, 'a pooled RDM',
                    method=case['method'], variant=case['variant'])
    mask = masks[0]
    rows = [[v for v in r if v is not None] for r in st]
    V = None
    if case['variant'] == 'pool' and case['method'].endswith('_cov'):
        V = v_sub(case['n'], case['sigma'], mask)
    with np.errstate(all='ignore'):
        red = pool_full(rows, case['method'], case['variant'], V)
    it = iter(red.tolist())
    exp = [next(it) if b else None for b in mask]
    tol = 5e-4 if V is not None else 1e-9
    for k, (u, e) in enumerate(zip(impl['pooled'], exp)):
        if e is None:
            if u is not None:
                return fail(case, 'pool', f'pooled entry {k} is missing in every RDM but has a value', u, None,
                            method=case['method'], variant=case['variant'])
        elif e != e:
            continue
        elif u is None or not _close(u, e, tol, e):
            return fail(case, 'pool', f'pooled entry {k} differs from pooling the reduced vectors', u, e,
                        method=case['method'], variant=case['variant'])
    return None


def regress_expected(case, nnls):
    """theta of the fit on the reduced vectors; nnls(A, y, ridge, V) for the non-negative fit"""
    A = [[None if v is None else float(F(v)) for v in r] for r in case['A']]
    data = [[None if v is None else float(F(v)) for v in r] for r in case['data']]
    dm = [[v is not None for v in r] for r in data]
    am = [[v is not None for v in r] for r in A]
    # pooling first (pool_rdm on the data): NaN where the first RDM or any other lacks the entry
    pooled_mask = [all(m[k] for m in dm) for k in range(len(dm[0]))]
    if any(m != pooled_mask for m in am):
        return {'exc': 'ValueError'}
    if any(m != dm[0] for m in dm):
        return None                      # data RDMs with differing masks: not spoken about
    mask = pooled_mask
    method = case['method']
    rows = [[v for v in r if v is not None] for r in data]
    # the training RDMs are pooled with the same sigma_k as the fit (whitened pooling, V reduced alike)
    Vp = v_sub(case['n'], case['sigma'], mask) if method.endswith('_cov') else None
    y = pool_full(rows, method, 'pool', Vp)
    a = np.array([[v for v in r if v is not None] for r in A], dtype=float)
    V = None
    if method in ('corr', 'corr_cov'):
        a = a - a.mean(1, keepdims=True)
    if method == 'corr_cov':
        y = y - y.mean()
    if method.endswith('_cov'):
        V = v_sub(case['n'], case['sigma'], mask)
    ridge = float(F(case['ridge']))
    if case['nn']:
        theta = nnls(a, y, ridge, V)
    else:
        va = a if V is None else a @ np.linalg.inv(V)
        X = a @ va.T + ridge * np.eye(a.shape[0])
        theta = np.linalg.solve(X, va @ y)
    if case['normalize']:
        s = float(np.sum(theta ** 2))
        if s > 0:
            theta = theta / math.sqrt(s)
    return {'theta': theta.tolist()}


def check_regress(case, impl, nnls):
    with np.errstate(all='ignore'):
        exp = regress_expected(case, nnls)
    if exp is None:
        return None
    name = 'fit_regress_nn' if case['nn'] else 'fit_regress'
    if 'exc' in exp:
        if isinstance(impl, dict) and impl.get('exc') == 'ValueError':
            return None
        return fail(case, 'reject', f'{name}: model and pooled data lack different entries but no error was raised',
                    impl, exp, method=case['method'], nn=case['nn'])
    if any(t != t for t in exp['theta']):
        return None                      # the reference call itself did not return a fit
    if 'exc' in impl:
        return fail(case, 'regress', f'{name} raised {impl["exc"]} on a common mask', impl, exp,
                    method=case['method'], nn=case['nn'])
    tol = 2e-3 if case['method'].endswith('_cov') else 1e-6
    for k, (u, e) in enumerate(zip(impl['theta'], exp['theta'])):
        if not _close(u, e, tol):
            return fail(case, 'regress', f'{name}: theta[{k}] differs from the fit on the reduced vectors', u, e,
                        method=case['method'], nn=case['nn'])
    return None


# ---------------------------------------------------------------- containers producing the masks

def subsample_expected(n, v, idx):
    sel = sorted(idx)
    pos = {p: k for k, p in enumerate(tri_pairs(n))}
    out = []
    for a in range(len(sel)):
        for b in range(a + 1, len(sel)):
            i, j = sel[a], sel[b]
            out.append(None if i == j else v[pos[(min(i, j), max(i, j))]])
    return out


def expand_partial(n_all, pidx, vec):
    """vector over n_all patterns of a partial RDM whose k-th pattern is pattern pidx[k]"""
    m = len(pidx)
    pos = {p: k for k, p in enumerate(tri_pairs(m))}
    where = {p: k for k, p in enumerate(pidx)}
    out = []
    for (i, j) in tri_pairs(n_all):
        if i in where and j in where:
            a, b = where[i], where[j]
            out.append(vec[pos[(min(a, b), max(a, b))]])
        else:
            out.append(None)
    return out


def check_subsample(case, impl):
    exp = []
    for v in case['v']:
        exp.append(subsample_expected(case['n'], v, case['idx']))
    obs = impl.get('v') if isinstance(impl, dict) else impl
    e2 = [[None if a is None else float(F(a)) for a in r] for r in exp]
    if obs != e2:
        return fail(case, 'subsample', 'subsample_pattern: value or NaN at a wrong pair', obs, e2)
    return None


def check_parse(case, impl):
    x, y = case['x'], case['y']
    masks = [mask_of(r) for r in x + y]
    if len(x[0]) != len(y[0]) or any(m != masks[0] for m in masks):
        exp = {'exc': 'ValueError'}
    else:
        exp = {'x': [[float(F(v)) for v in deleted(r)] for r in x],
               'y': [[float(F(v)) for v in deleted(r)] for r in y], 'mask': masks[0]}
    for which in ('compare', 'utils', 'utils_rdms'):
        if which in impl and impl[which] != exp:
            return fail(case, 'reject' if 'exc' in exp else 'parse',
                        f'input parser ({which}) of masked stacks', impl[which], exp, parser=which,
                        maskkind=case.get('maskkind'))
    return None
