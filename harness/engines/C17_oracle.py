"""Independent oracle for C17: a direct transcription of the property statement, run against
the real rsatoolbox (plain loops, exact fractions where possible; no Lean, no model code).

  check_tf  : the transform "means what it says" on this stack, keeps the source's
              descriptors, updates the measure name, returns an RDMs object of the same shape
  check_inv : the measure of the transformed RDMs equals the measure of the untransformed ones
"""
import math
from fractions import Fraction as F

import numpy as np


def _fr(v):
    if v is None:
        return None
    if isinstance(v, str):
        return F(v)
    return F(v)


def _close(a, b, rtol=1e-9, atol=1e-12):
    return abs(a - b) <= atol + rtol * max(abs(a), abs(b))


def _fail(what, observed, expected, **feat):
    return {'what': what, 'observed': observed, 'expected': expected, 'features': feat}


# ------------------------------------------------------------------ expected transforms

def ranks(row, method):
    """ranks among the non-missing entries by sorting (not by counting)"""
    idx = [k for k, v in enumerate(row) if v is not None]
    order = sorted(idx, key=lambda k: (row[k], k))      # stable: ties by position
    out = [None] * len(row)
    pos = 0
    dense = 0
    while pos < len(order):
        end = pos
        while end + 1 < len(order) and row[order[end + 1]] == row[order[pos]]:
            end += 1
        dense += 1
        for q in range(pos, end + 1):
            k = order[q]
            if method == 'average':
                out[k] = F(pos + 1 + end + 1, 2)
            elif method == 'min':
                out[k] = F(pos + 1)
            elif method == 'max':
                out[k] = F(end + 1)
            elif method == 'dense':
                out[k] = F(dense)
            elif method == 'ordinal':
                out[k] = F(q + 1)
        pos = end + 1
    return out


def shortest_paths(n, weight):
    """Floyd-Warshall on exact fractions; weight[(i,j)] for retained edges, None = inf"""
    d = [[None] * n for _ in range(n)]
    for i in range(n):
        d[i][i] = F(0)
    for (i, j), w in weight.items():
        d[i][j] = w if d[i][j] is None else min(d[i][j], w)
        d[j][i] = d[i][j]
    for k in range(n):
        for i in range(n):
            for j in range(n):
                if d[i][k] is not None and d[k][j] is not None:
                    s = d[i][k] + d[k][j]
                    if d[i][j] is None or s < d[i][j]:
                        d[i][j] = s
    return d


def expected_rows(case, custom_fun):
    """per RDM: list of expected entries: Fraction | float | None (NaN) | 'inf' | 'any'"""
    t = case['t']
    x = [[_fr(v) for v in row] for row in case['x']]
    n = case['n']
    if t in ('minmax', 'geotop', 'geodesic') and any(v is None for row in x for v in row):
        # NaN is not supported by these transforms ("NaN where supported"): the property does
        # not say what an RDM with a missing entry becomes (geotop: the thresholds are taken over
        # the whole stack, so nothing is said about any RDM); the other RDMs of a min-max stack
        # must still be transformed as stated
        if t == 'minmax':
            out = []
            for row in x:
                if any(v is None for v in row):
                    out.append(['free'] * len(row))
                else:
                    lo, hi = min(row), max(row)
                    out.append(['any'] * len(row) if lo == hi else [(v - lo) / (hi - lo) for v in row])
            return out
        return [['free'] * len(row) for row in x]
    if t == 'rank':
        return [ranks(row, case['method']) for row in x]
    if t == 'sqrt':
        return [[None if v is None else math.sqrt(max(v, 0)) for v in row] for row in x]
    if t == 'positive':
        return [[None if v is None else max(v, F(0)) for v in row] for row in x]
    if t == 'custom':
        arr = np.array([[float(v) for v in row] for row in x])
        return [[float(v) for v in row] for row in custom_fun(case['fn'])(arr).tolist()]
    if t == 'minmax':
        out = []
        for row in x:
            lo, hi = min(row), max(row)
            out.append(['any'] * len(row) if lo == hi else [(v - lo) / (hi - lo) for v in row])
        return out
    if t == 'geotop':
        arr = np.array([[float(v) for v in row] for row in x])
        lo, hi = float(np.quantile(arr, case['low'])), float(np.quantile(arr, case['up']))
        out = []
        for row in x:
            r = []
            for v in row:
                v = float(v)
                if not lo < hi:
                    r.append(0.0 if v < lo else (1.0 if v > hi else 'any'))
                else:
                    r.append(min(1.0, max(0.0, (v - lo) / (hi - lo))))
            out.append(r)
        return out
    if t == 'geodesic':
        pairs = [(i, j) for i in range(n) for j in range(i + 1, n)]
        out = []
        for row in x:
            lo, hi = min(row), max(row)
            if lo == hi:
                out.append(['any'] * len(row))
                continue
            mm = [(v - lo) / (hi - lo) for v in row]
            d = shortest_paths(n, {p: w for p, w in zip(pairs, mm) if w != 1})
            out.append(['inf' if d[i][j] is None else d[i][j] for (i, j) in pairs])
        return out
    raise ValueError(t)


def _geotop_defect(case, v, got):
    """'sequencing' when the observed value is what re-testing the already rescaled value against
    the thresholds produces (the known defect of the pinned tree), else 'other'"""
    arr = np.array([[float(_fr(u)) for u in row] for row in case['x']])
    lo, hi = float(np.quantile(arr, case['low'])), float(np.quantile(arr, case['up']))
    if not lo < hi or not isinstance(got, float):
        return 'other'
    if v < lo:
        v = 0.0
    if lo <= v <= hi:
        v = (v - lo) / (hi - lo)
    if v > hi:
        v = 1.0
    return 'sequencing' if _close(v, got) else 'other'


def measure_updated(t, old, new):
    """'an updated measure name'"""
    if t == 'positive':
        return new == old
    if not isinstance(new, str) or not new.strip():
        return False
    if t == 'rank':
        return '(ranks)' in new and (old or '').strip() in new
    if t == 'sqrt' and old in ('squared euclidean', 'squared mahalanobis'):
        return new == old[len('squared '):]
    if new == old:
        return False
    return ('unknown' in new) if old is None else (old in new)


# ------------------------------------------------------------------ checks

def check_tf(case, tf_call, source_desc, custom_fun):
    t = case['t']
    feat = dict(t=t, claim='values')
    res = tf_call(case)
    exp = expected_rows(case, custom_fun)
    undefined = any(all(e in ('any', 'free') for e in row) for row in exp)
    if 'exc' in res:
        if undefined:
            return None       # constant RDM: min-max is 0/0, outside the property
        return _fail(f'{t}_transform raised', res['exc'], 'an RDMs object', **dict(feat, claim='returns'))
    if res['type'] != 'RDMs' or res['n_rdm'] != len(case['x']) or res['n_cond'] != case['n']:
        return _fail(f'{t}: result is not an RDMs of the source shape',
                     [res['type'], res['n_rdm'], res['n_cond']], ['RDMs', len(case['x']), case['n']],
                     **dict(feat, claim='returns'))
    got = res['vecs']
    if len(got) != len(exp) or any(len(a) != len(b) for a, b in zip(got, exp)):
        return _fail(f'{t}: shape of the vectors', [len(got)], [len(exp)], **dict(feat, claim='returns'))
    exact = t in ('rank', 'positive')
    for i, (grow, erow) in enumerate(zip(got, exp)):
        for j, (g, e) in enumerate(zip(grow, erow)):
            if e == 'free':
                continue
            if e == 'any':
                # 0/0 of a constant RDM / coinciding thresholds: NaN, or at least inside [0, 1]
                if g is None or (isinstance(g, float) and -1e-12 <= g <= 1 + 1e-12):
                    continue
                return _fail(f'{t}_transform: an entry of a degenerate (constant) RDM is outside [0, 1]',
                             {'rdm': i, 'entry': j, 'source': case['x'][i][j], 'got': g}, 'NaN or a value in [0, 1]',
                             **feat)
            ok = (g is None) if e is None else \
                 (g == 'inf') if e == 'inf' else \
                 (isinstance(g, float) and (float(e) == g if exact else _close(g, float(e))))
            if not ok:
                if t == 'geotop':
                    feat = dict(feat, geotop_defect=_geotop_defect(case, float(_fr(case['x'][i][j])), g))
                return _fail(f'{t}_transform: an entry is not the stated transform of its source value',
                             {'rdm': i, 'entry': j, 'source': case['x'][i][j], 'got': g},
                             None if e is None else (e if e == 'inf' else float(e)), **feat)
    if not measure_updated(t, case.get('measure'), res['measure']):
        return _fail(f'{t}: measure name not updated', res['measure'], f"update of {case.get('measure')!r}",
                     **dict(feat, claim='measure'))
    for key, want in zip(('descr', 'rdm_descr', 'pat_descr'), source_desc):
        if res[key] != want:
            return _fail(f'{t}: {key} differ from the source', res[key], want,
                         **dict(feat, claim='descriptors'))
    return None


def check_inv(case, inv_call, tol):
    rtol, atol = tol
    feat = dict(method=case['method'], map=case['fx']['name'], claim='invariance')
    for mp, stack in ((case['fx'], case['x']), (case['fy'], case['y'])):
        if mp is not None and mp['name'] == 'minmax_transform' and \
                (case['nanpos'] or any(len({_fr(v) for v in row}) <= 1 for row in stack)):
            return None     # min-max of a constant RDM is 0/0 and NaN is not supported by it
        if mp is not None and mp['name'] == 'rank_transform' and mp.get('method') == 'ordinal' and \
                any(len({_fr(v) for v in row}) < len(row) for row in stack):
            return None     # ordinal ranks break ties by position: not a map of the values
    a = inv_call(case, True)
    b = inv_call(case, False)
    if isinstance(a, dict) or isinstance(b, dict):
        # the stacks are valid RDMs (equal shape, shared NaN positions): every route to the measure
        # (RDMs objects or arrays, compare(method=...) or the compare_<measure> function) must
        # return a matrix, before and after the transform
        return _fail(f"compare ({case.get('route', 'compare')}, arguments {case.get('form_x', 'rdms')}/"
                     f"{case.get('form_y', 'rdms')}) raised on valid RDMs"
                     f"{' after ' + case['fx']['name'] if isinstance(a, dict) else ''}", a,
                     'a similarity matrix' if isinstance(b, dict) else b, **dict(feat, claim='returns'))
    for i, (ra, rb) in enumerate(zip(a, b)):
        for j, (u, v) in enumerate(zip(ra, rb)):
            if u is None or v is None:
                if u is None and v is None:
                    continue
                if (u is None and v == 0.0) or (v is None and u == 0.0):
                    continue        # 0/0 conventions of a zero-norm vector
                return _fail(f"{case['method']} changed by {case['fx']['name']}", [i, j, u], v, **feat)
            if not _close(u, v, rtol, atol):
                return _fail(f"{case['method']} changed by {case['fx']['name']}"
                             f"{'/' + case['fy']['name'] if case['fy'] else ''}", [i, j, u], v, **feat)
    return None
