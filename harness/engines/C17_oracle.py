"""Independent oracle for C17: a direct transcription of the property statement, run against
the real rsatoolbox (plain loops, exact fractions where possible; no Lean, no model code).

  check_tf  : the transform "means what it says" on this stack, keeps the source's
              descriptors, updates the measure name, returns an RDMs object of the same shape
  check_inv : the measure of the transformed RDMs equals the measure of the untransformed ones
"""
import math
from fractions import Fraction as F

import numpy as np


def _fr(v):
    if v is None:
        return None
    if isinstance(v, str):
        return F(v)
    return F(v)


def _close(a, b, rtol=1e-9, atol=1e-12):
    return abs(a - b) <= atol + rtol * max(abs(a), abs(b))


def _fail(what, observed, expected, **feat):
    return {'what': what, 'observed': observed, 'expected': expected, 'features': feat}


# ------------------------------------------------------------------ expected transforms

def ranks(row, method):
    """ranks among the non-missing entries by sorting (not by counting)"""
    idx = [k for k, v in enumerate(row) if v is not None]
    order = sorted(idx, key=lambda k: (row[k], k))      # stable: ties by position
    out = [None] * len(row)
    pos = 0
    dense = 0
    while pos < len(order):
        end = pos
        while end + 1 < len(order) and row[order[end + 1]] == row[order[pos]]:
            end += 1
        dense += 1
        for q in range(pos, end + 1):
            k = order[q]
            if method == 'average':
                out[k] = F(pos + 1 + end + 1, 2)
            elif method == 'min':
                out[k] = F(pos + 1)
            elif method == 'max':
                out[k] = F(end + 1)
            elif method == 'dense':
                out[k] = F(dense)
            elif method == 'ordinal':
                out[k] = F(q + 1)
        pos = end + 1
    return out


def shortest_paths(n, weight):
    """Floyd-Warshall on exact fractions; weight[(i,j)] for retained edges, None = inf"""
    d = [[None] * n for _ in range(n)]
    for i in range(n):
        d[i][i] = F(0)
    for (i, j), w in weight.items():
        d[i][j] = w if d[i][j] is None else min(d[i][j], w)
        d[j][i] = d[i][j]
    for k in range(n):
        for i in range(n):
            for j in range(n):
                if d[i][k] is not None and d[k][j] is not None:
                    s = d[i][k] + d[k][j]
                    if d[i][j] is None or s < d[i][j]:
                        d[i][j] = s
    return d


def expected_rows(case, custom_fun):
    """per RDM: list of expected entries: Fraction | float | None (NaN) | 'inf' | 'any'"""
    t = case['t']
    x = [[_fr(v) for v in row] for row in case['x']]
    n = case['n']
    if t in ('minmax', 'geotop', 'geodesic') and any(v is None for row in x for v in row):
        # NaN is not supported by these transforms ("NaN where supported"): the property does
        # not say what an RDM with a missing entry becomes (geotop: the thresholds are taken over
        # the whole stack, so nothing is said about any RDM); the other RDMs of a min-max stack
        # must still be transformed as stated
        if t == 'minmax':
            out = []
            for row in x:
                if any(v is None for v in row):
                    out.append(['free'] * len(row))
                else:
                    lo, hi = min(row), max(row)
                    out.append(['any'] * len(row) if lo == hi else [(v - lo) / (hi - lo) for v in row])
            return out
        return [['free'] * len(row) for row in x]
    if t == 'rank':
        return [ranks(row, case['method']) for row in x]
    if t == 'sqrt':
        return [[None if v is None else math.sqrt(max(v, 0)) for v in row] for row in x]
    if t == 'positive':
        return [[None if v is None else max(v, F(0)) for v in row] for row in x]
    if t == 'custom':
        arr = np.array([[float(v) for v in row] for row in x])
        return [[float(v) for v in row] for row in custom_fun(case['fn'])(arr).tolist()]
    if t == 'minmax':
        out = []
        for row in x:
            lo, hi = min(row), max(row)
            out.append(['any'] * len(row) if lo == hi else [(v - lo) / (hi - lo) for v in row])
        return out
    if t == 'geotop':
        arr = np.array([[float(v) for v in row] for row in x])
        lo, hi = float(np.quantile(arr, case['low'])), float(np.quantile(arr, case['up']))
        out = []
        for row in x:
            r = []
            for v in row:
                v = float(v)
                if not lo < hi:
                    r.append(0.0 if v < lo else (1.0 if v > hi else 'any'))
                else:
                    r.append(min(1.0, max(0.0, (v - lo) / (hi - lo))))
            out.append(r)
        return out
    if t == 'geodesic':
        pairs = [(i, j) for i in range(n) for j in range(i + 1, n)]
        out = []
        for row in x:
            lo, hi = min(row), max(row)
            if lo == hi:
                out.append(['any'] * len(row))
                continue
            mm = [(v - lo) / (hi - lo) for v in row]
            d = shortest_paths(n, {p: w for p, w in zip(pairs, mm) if w != 1})
            out.append(['inf' if d[i][j] is None else d[i][j] for (i, j) in pairs])
        return out
    raise ValueError(t)


def _geotop_defect(case, v, got):
    """'sequencing' when the observed value is what re-testing the already rescaled value against
    the thresholds produces (the known defect of the pinned tree), else 'other'"""
    arr = np.array([[float(_fr(u)) for u in row] for row in case['x']])
    lo, hi = float(np.quantile(arr, case['low'])), float(np.quantile(arr, case['up']))
    if not lo < hi or not isinstance(got, float):
        return 'other'
    if v < lo:
        v = 0.0
    if lo <= v <= hi:
        v = (v - lo) / (hi - lo)
    if v > hi:
        v = 1.0
    return 'sequencing' if _close(v, got) else 'other'


def measure_updated(t, old, new):
    """'an updated measure name'"""
    if t == 'positive':
        return new == old
    if not isinstance(new, str) or not new.strip():
        return False
    if t == 'rank':
        return '(ranks)' in new and (old or '').strip() in new
    if t == 'sqrt' and old in ('squared euclidean', 'squared mahalanobis'):
        return new == old[len('squared '):]
    if new == old:
        return False
    return ('unknown' in new) if old is None else (old in new)


# ------------------------------------------------------------------ checks

def check_tf(case, tf_call, source_desc, custom_fun):
    t = case['t']
    feat = dict(t=t, claim='values')
    res = tf_call(case)
    exp = expected_rows(case, custom_fun)
    undefined = any(all(e in ('any', 'free') for e in row) for row in exp)
    if 'exc' in res:
        if undefined:
            return None       # constant RDM: min-max is 0/0, outside the property
        return _fail(f'{t}_transform raised', res['exc'], 'an RDMs object', **dict(feat, claim='returns'))
    if res['type'] != 'RDMs' or res['n_rdm'] != len(case['x']) or res['n_cond'] != case['n']:
        return _fail(f'{t}: result is not an RDMs of the source shape',
                     [res['type'], res['n_rdm'], res['n_cond']], ['RDMs', len(case['x']), case['n']],
                     **dict(feat, claim='returns'))
    got = res['vecs']
    if len(got) != len(exp) or any(len(a) != len(b) for a, b in zip(got, exp)):
        return _fail(f'{t}: shape of the vectors', [len(got)], [len(exp)], **dict(feat, claim='returns'))
    exact = t in ('rank', 'positive')
    for i, (grow, erow) in enumerate(zip(got, exp)):
        for j, (g, e) in enumerate(zip(grow, erow)):
            if e == 'free':
                continue
            if e == 'any':
                # 0/0 of a constant RDM / coinciding thresholds: NaN, or at least inside [0, 1]
                if g is None or (isinstance(g, float) and -1e-12 <= g <= 1 + 1e-12):
                    continue
                return _fail(f'{t}_transform: an entry of a degenerate (constant) RDM is outside [0, 1]',
                             {'rdm': i, 'entry': j, 'source': case['x'][i][j], 'got': g}, 'NaN or a value in [0, 1]',
                             **feat)
            ok = (g is None) if e is None else \
                 (g == 'inf') if e == 'inf' else \
                 (isinstance(g, float) and (float(e) == g if exact else _close(g, float(e))))
            if not ok:
                if t == 'geotop':
                    feat = dict(feat, geotop_defect=_geotop_defect(case, float(_fr(case['x'][i][j])), g))
                return _fail(f'{t}_transform: an entry is not the stated transform of its source value',
                             {'rdm': i, 'entry': j, 'source': case['x'][i][j], 'got': g},
                             None if e is None else (e if e == 'inf' else float(e)), **feat)
    if not measure_updated(t, case.get('measure'), res['measure']):
        return _fail(f'{t}: measure name not updated', res['measure'], f"update of {case.get('measure')!r}",
                     **dict(feat, claim='measure'))
    for key, want in zip(('descr', 'rdm_descr', 'pat_descr'), source_desc):
        if res[key] != want:
            return _fail(f'{t}: {key} differ from the source', res[key], want,
                         **dict(feat, claim='descriptors'))
    return None


def _isqrt_float(q):
    """sqrt of a non-negative Fraction as a double, without forming a huge float first"""
    if q == 0:
        return 0.0
    k = 0
    while q > 2 ** 200:
        q, k = q / 4 ** 100, k + 100
    while q < F(1, 2 ** 200):
        q, k = q * 4 ** 100, k - 100
    return math.sqrt(float(q)) * 2.0 ** k


def exact_pearson(x, y):
    """Pearson r of every row of `x` with every row of `y`: all moments in exact rational arithmetic
    (two-pass textbook form; one square root and one division in doubles at the very end, so the
    result is within a few ulp of the real value whatever the offset / scale of the rows);
    None where a row has no variance (the property does not speak about 0/0)"""
    def cen(row):
        v = [_fr(u) for u in row]
        mu = sum(v) / len(v)
        return [u - mu for u in v]
    xs, ys = [cen(r) for r in x], [cen(r) for r in y]
    out = []
    for a in xs:
        saa = sum(u * u for u in a)
        row = []
        for b in ys:
            sbb = sum(u * u for u in b)
            sab = sum(u * w for u, w in zip(a, b))
            if saa == 0 or sbb == 0:
                row.append(None)
            else:
                r2 = sab * sab / (saa * sbb)         # exact, in [0, 1]
                row.append(math.copysign(_isqrt_float(r2), sab) if sab != 0 else 0.0)
        out.append(row)
    return out


def _solve_exact(mat, rhs):
    """Gauss-Jordan over the rationals: mat^-1 rhs (rhs a list of columns)"""
    k = len(mat)
    aug = [list(mat[i]) + [c[i] for c in rhs] for i in range(k)]
    for col in range(k):
        piv = next(r for r in range(col, k) if aug[r][col] != 0)
        aug[col], aug[piv] = aug[piv], aug[col]
        p = aug[col][col]
        aug[col] = [u / p for u in aug[col]]
        for r in range(k):
            if r != col and aug[r][col] != 0:
                f = aug[r][col]
                aug[r] = [u - f * w for u, w in zip(aug[r], aug[col])]
    return [[aug[i][k + j] for i in range(k)] for j in range(len(rhs))]


def exact_whitened_corr(x, y, sig, n):
    """corr_cov from the definition, exactly: V = (C diag(sigma) C^T) squared element-wise over the
    pairwise contrasts C (sigma = 1 when None), r = xc V^-1 yc / sqrt(xc V^-1 xc * yc V^-1 yc) of the
    mean-removed rows; None where a row has no variance"""
    pairs = [(i, j) for i in range(n) for j in range(i + 1, n)]
    s = [F(1)] * n if sig is None else [_fr(v) for v in sig]
    vm = []
    for (i, j) in pairs:
        row = []
        for (k, l) in pairs:
            xi = (s[i] if i == k else 0) - (s[i] if i == l else 0) - (s[j] if j == k else 0) + \
                (s[j] if j == l else 0)
            row.append(F(xi) * F(xi))
        vm.append(row)

    def cen(row):
        v = [_fr(u) for u in row]
        mu = sum(v) / len(v)
        return [u - mu for u in v]
    xs, ys = [cen(r) for r in x], [cen(r) for r in y]
    wy = _solve_exact(vm, ys)
    wx = _solve_exact(vm, xs)
    out = []
    for a, wa in zip(xs, wx):
        saa = sum(u * w for u, w in zip(a, wa))
        row = []
        for b, wb in zip(ys, wy):
            sbb = sum(u * w for u, w in zip(b, wb))
            sab = sum(u * w for u, w in zip(a, wb))
            if saa <= 0 or sbb <= 0:
                row.append(None)
            else:
                r2 = sab * sab / (saa * sbb)
                row.append(math.copysign(_isqrt_float(r2), sab) if sab != 0 else 0.0)
        out.append(row)
    return out


def exact_kendall(x, y, variant):
    """Kendall tau-a / tau-b from the definition over all pairs (exact counts; one square root for
    tau-b); None where the denominator vanishes"""
    out = []
    for a in x:
        a = [_fr(u) for u in a]
        row = []
        for b in y:
            b = [_fr(u) for u in b]
            con = dis = tx = ty = tot = 0
            for i in range(len(a)):
                for j in range(i + 1, len(a)):
                    tot += 1
                    sa, sb = (a[i] > a[j]) - (a[i] < a[j]), (b[i] > b[j]) - (b[i] < b[j])
                    tx += sa == 0
                    ty += sb == 0
                    con += sa * sb > 0
                    dis += sa * sb < 0
            if variant == 'tau-a':
                row.append((con - dis) / tot if tot else None)
            else:
                den = (tot - tx) * (tot - ty)
                row.append((con - dis) / math.sqrt(den) if den > 0 else None)
        out.append(row)
    return out


def exact_reference(case):
    """the value the property fixes for a correlation-type or Kendall-type case, from the exact
    UNTRANSFORMED rows (NaN positions dropped): no library code, no doubles before the final square root"""
    nanpos = set(case.get('nanpos') or [])
    x = [[v for k, v in enumerate(r) if k not in nanpos] for r in case['x']]
    y = [[v for k, v in enumerate(r) if k not in nanpos] for r in case['y']]
    if case['method'] == 'corr':
        return exact_pearson(x, y)
    if case['method'] in ('kendall', 'tau-a'):
        return exact_kendall(x, y, 'tau-a' if case['method'] == 'tau-a' else 'tau-b')
    if case['method'] == 'corr_cov' and not nanpos:
        return exact_whitened_corr(x, y, None if case['sigma'] is None else case['sigma']['vec'], case['n'])
    return None


def against_exact(case, got, tol):
    """first entry of the similarity matrix `got` that differs from the exact reference, or None"""
    rtol, atol = tol
    ref = exact_reference(case)
    if ref is None or isinstance(got, dict):
        return None
    for i, (ra, rb) in enumerate(zip(got, ref)):
        for j, (u, v) in enumerate(zip(ra, rb)):
            if v is None:
                continue
            if u is None or not _close(u, v, rtol, atol):
                return i, j, u, v
    return None


def check_inv(case, inv_call, tol):
    rtol, atol = tol
    feat = dict(method=case['method'], map=case['fx']['name'], claim='invariance')
    for mp, stack in ((case['fx'], case['x']), (case['fy'], case['y'])):
        if mp is not None and mp['name'] == 'minmax_transform' and \
                (case['nanpos'] or any(len({_fr(v) for v in row}) <= 1 for row in stack)):
            return None     # min-max of a constant RDM is 0/0 and NaN is not supported by it
        if mp is not None and mp['name'] == 'rank_transform' and mp.get('method') == 'ordinal' and \
                any(len({_fr(v) for v in row}) < len(row) for row in stack):
            return None     # ordinal ranks break ties by position: not a map of the values
    a = inv_call(case, True)
    b = inv_call(case, False)
    if isinstance(a, dict) or isinstance(b, dict):
        # the stacks are valid RDMs (equal shape, shared NaN positions): every route to the measure
        # (RDMs objects or arrays, compare(method=...) or the compare_<measure> function) must
        # return a matrix, before and after the transform
        return _fail(f"compare ({case.get('route', 'compare')}, arguments {case.get('form_x', 'rdms')}/"
                     f"{case.get('form_y', 'rdms')}) raised on valid RDMs"
                     f"{' after ' + case['fx']['name'] if isinstance(a, dict) else ''}", a,
                     'a similarity matrix' if isinstance(b, dict) else b, **dict(feat, claim='returns'))
    for i, (ra, rb) in enumerate(zip(a, b)):
        for j, (u, v) in enumerate(zip(ra, rb)):
            if u is None or v is None:
                if u is None and v is None:
                    continue
                if (u is None and v == 0.0) or (v is None and u == 0.0):
                    continue        # 0/0 conventions of a zero-norm vector
                return _fail(f"{case['method']} changed by {case['fx']['name']}", [i, j, u], v, **feat)
            if not _close(u, v, rtol, atol):
                return _fail(f"{case['method']} changed by {case['fx']['name']}"
                             f"{'/' + case['fy']['name'] if case['fy'] else ''}", [i, j, u], v, **feat)
    # correlation-type measures: both sides above come from the library; the property fixes the value
    # itself -- the exact (rational-arithmetic) correlation of the untransformed RDMs
    for which, got in (('after ' + case['fx']['name'] + ('/' + case['fy']['name'] if case['fy'] else ''), a),
                       ('of the untransformed RDMs', b)):
        bad = against_exact(case, got, tol)
        if bad is not None:
            i, j, u, v = bad
            return _fail(f"{case['method']} {which} is not the exact {case['method']} of the original RDMs",
                         [i, j, u], v, **feat)
    return None


def _judge_sims(pc, got, ref, tol):
    """a similarity matrix obtained in a session against the reference matrix"""
    rtol, atol = tol
    maps = '/'.join('identity' if mp is None else mp['name'] for mp in (pc['fx'], pc['fy']))
    feat = dict(method=pc['method'], map=maps, claim='invariance')
    label = f"{pc['method']} (arguments transformed by {maps})"
    if isinstance(got, dict) or isinstance(ref, dict):
        if got == ref:
            return None if not isinstance(got, dict) else \
                _fail(f'{label}: compare raised on valid RDMs', got, 'a similarity matrix',
                      **dict(feat, claim='returns'))
        return _fail(f'{label}: compare raised on valid RDMs' if isinstance(got, dict) else
                     f'{label}: reference comparison raised', got, ref, **dict(feat, claim='returns'))
    if len(got) != len(ref) or any(len(a) != len(b) for a, b in zip(got, ref)):
        return _fail(f'{label}: shape of the similarity matrix', [len(got)], [len(ref)],
                     **dict(feat, claim='returns'))
    for i, (ra, rb) in enumerate(zip(got, ref)):
        for j, (u, v) in enumerate(zip(ra, rb)):
            if u is None or v is None:
                if (u is None and v is None) or (u is None and v == 0.0) or (v is None and u == 0.0):
                    continue        # 0/0 conventions of a zero-norm vector
                return _fail(f'{label} differs from the comparison of the original RDMs', [i, j, u], v, **feat)
            if not _close(u, v, rtol, atol):
                return _fail(f'{label} differs from the comparison of the original RDMs', [i, j, u], v, **feat)
    return None


def whitened_by_definition(method, x, y, sig, n):
    """cosine_cov / corr_cov with a diagonal sigma_k straight from the definition (no library code, no
    state): V = (C diag(sigma) C^T) squared element-wise over the pairwise contrasts C, similarity =
    x V^-1 y / sqrt(x V^-1 x * y V^-1 y), for corr_cov on the mean-removed vectors"""
    pairs = [(i, j) for i in range(n) for j in range(i + 1, n)]
    cm = np.zeros((len(pairs), n))
    for k, (i, j) in enumerate(pairs):
        cm[k, i], cm[k, j] = 1.0, -1.0
    xi = cm @ np.diag(np.asarray(sig, dtype=float)) @ cm.T
    vinv = np.linalg.inv(xi * xi)
    x, y = np.asarray(x, dtype=float), np.asarray(y, dtype=float)
    if method == 'corr_cov':
        x = x - x.mean(axis=1, keepdims=True)
        y = y - y.mean(axis=1, keepdims=True)
    out = []
    for a in x:
        row = []
        for b in y:
            den = math.sqrt(float(a @ vinv @ a) * float(b @ vinv @ b))
            row.append(float(a @ vinv @ b) / den if den > 0 else None)
        out.append(row)
    return out


def check_sess(case, eng):
    """a reuse session: the two objects are built once and every step works on them.  Every result is
    judged against the definition applied to a PRISTINE copy of the original values (transform steps:
    `check_tf` on the recorded result; comparison steps: the same comparison, by the same route, of
    freshly built, untransformed copies — the measure is invariant under the maps that were applied);
    after every step the source objects must still hold the values they were built from."""
    res = eng.sess_call(case)
    if 'exc' in res:
        return None if any(v is None for o in case['objs'] for row in o['x'] for v in row) and \
            not case['nanpos'] else _fail('building the RDMs raised', res['exc'], 'two RDMs objects',
                                          claim='returns', kind='sess')
    first_change = None
    for k, (st, r) in enumerate(zip(case['steps'], res['steps'])):
        if r.get('src_changed') and first_change is None:
            first_change = (k, r['src_changed'])
    ctx = {} if first_change is None else \
        {'source_first_changed_by_step': first_change[0], 'change': first_change[1]}
    for k, (st, r) in enumerate(zip(case['steps'], res['steps'])):
        where = f'step {k} of {len(case["steps"])}'
        if st['op'] == 'tf':
            pc = eng._sess_tf_case(case, st)
            f = check_tf(pc, lambda c, r=r: r, eng.source_descriptors(pc), eng.custom_fun)
            if f:
                f['what'] = f'reuse session: {f["what"]} ({where}; judged on the values the object was built from)'
                f['features'] = dict(f['features'], kind='sess', step=k, **{'reused': k > 0})
                if ctx:
                    f['observed'] = {'result': f['observed'], **ctx}
                return f
        elif eng.sess_judged(case, st):
            pc = eng._sess_inv_case(case, st)
            f = _judge_sims(pc, r['sim'], eng.inv_call(pc, False), eng.inv_tolerance(pc))
            if not f and st.get('sigma') is not None and not case['nanpos'] and \
                    st['method'] in ('cosine_cov', 'corr_cov') and not isinstance(r['sim'], dict):
                # the whitened measures keep no state between calls: also against the bare definition
                ref = whitened_by_definition(st['method'], [[float(_fr(v)) for v in row] for row in pc['x']],
                                             [[float(_fr(v)) for v in row] for row in pc['y']],
                                             [float(_fr(v)) for v in st['sigma']['vec']], case['n'])
                if not any(v is None for row in ref for v in row):
                    f = _judge_sims(pc, r['sim'], ref, eng.inv_tolerance(pc))
                    if f:
                        f['what'] = f['what'].replace('the comparison of the original RDMs',
                                                      'its definition on the original RDMs')
            if f:
                f['what'] = f'reuse session: {f["what"]} ({where}; against the same comparison of pristine, ' \
                            f'untransformed copies)'
                f['features'] = dict(f['features'], kind='sess', step=k, **{'reused': k > 0})
                if ctx:
                    f['observed'] = {'result': f['observed'], **ctx}
                return f
    if first_change is not None:
        k, ch = first_change
        st = case['steps'][k]
        return _fail(f'reuse session: a {"transform" if st["op"] == "tf" else "comparison"} changed a source '
                     f'object it was only supposed to read (step {k}: {eng._step_label(st)})', ch, 'the object as it was built', claim='source unchanged',
                     kind='sess', step=k)
    if res['results_changed']:
        return _fail('reuse session: an earlier transform result was changed by a later step',
                     res['results_changed'][0], 'the result as it was returned', claim='result unchanged',
                     kind='sess')
    return None
