"""helpers of the C16 engine: building real objects from case specs, typed / canonical
value dumps, the real-code adaptor (files in a scratch directory)."""
import io
import math
import os
import shutil
import tempfile
import warnings
from fractions import Fraction

import numpy as np

from lean import rat

# ----------------------------------------------------------------------------- python values


class Unsupported(Exception):
    pass


LIST_KEY = 'rsatoolbox_list'


def _num_token(x):
    """exact token of a real number: int | 'p/q' | 'nan' | 'inf' | '-inf' | '-0'"""
    if isinstance(x, (bool, np.bool_)):
        return int(x)
    if isinstance(x, (int, np.integer)):
        return int(x)
    x = float(x)
    if math.isnan(x):
        return 'nan'
    if math.isinf(x):
        return 'inf' if x > 0 else '-inf'
    if x == 0 and math.copysign(1.0, x) < 0:
        return '-0'
    return rat(Fraction(x))


def _text(s):
    return [ord(c) for c in str(s)]


def _untext(cps):
    return ''.join(chr(c) for c in cps)


def _atom(x):
    if isinstance(x, (str, np.str_)):
        return ['s', _text(x)]
    if isinstance(x, (bool, np.bool_)):
        return ['b', int(x)]
    if isinstance(x, (int, np.integer)):
        return ['i', int(x)]
    if isinstance(x, (float, np.floating)):
        return ['f', _num_token(x)]
    raise Unsupported(f'atom {type(x).__name__}')


def _flatten(v):
    """(shape, atoms) of a rectangular nest of lists / tuples / arrays"""
    if isinstance(v, np.ndarray):
        if v.dtype.kind in 'biufU':
            return list(v.shape), [_atom(x) for x in v.reshape(-1).tolist()] if v.dtype.kind != 'U' \
                else [['s', _text(x)] for x in v.reshape(-1).tolist()]
        if v.dtype.kind == 'O':
            return list(v.shape), [_atom(x) for x in v.reshape(-1).tolist()]
        raise Unsupported(f'dtype {v.dtype}')
    if isinstance(v, (list, tuple)):
        subs = [_flatten(x) for x in v]
        if not subs:
            return [0], []
        sh0 = subs[0][0]
        if any(s[0] != sh0 for s in subs):
            raise Unsupported('ragged')
        return [len(v)] + sh0, [a for s in subs for a in s[1]]
    return [], [_atom(v)]


def wire(v):
    """typed wire form of a python value (container kinds kept)"""
    if v is None:
        return None
    if isinstance(v, (str, np.str_)):
        return {'s': _text(v)}
    if isinstance(v, dict):
        return {'d': [[_text(k), wire(x)] for k, x in v.items()]}
    if isinstance(v, np.ndarray):
        try:
            sh, at = _flatten(v)
        except Unsupported:
            if v.dtype.kind == 'O':
                # an object array holding None / nested values (numpy builds them from lists
                # with missing entries, e.g. in time_as_observations): the list of its entries
                return wire(v.tolist())
            raise
        return {'t': 'nd', 'sh': sh, 'e': at}
    if isinstance(v, list):
        try:
            sh, at = _flatten(v)
        except Unsupported:
            # a list numpy cannot turn into an array (ragged / holding None): the model's list
            # form = the entries keyed by position ('0' -> v[0], …) behind a marker entry
            # (LIST_KEY -> length).  A dict with the same keys but no marker is a *dict*.
            return {'d': [[_text(LIST_KEY), {'t': 'scalar', 'sh': [], 'e': [['i', len(v)]]}]]
                    + [[_text(str(i)), wire(x)] for i, x in enumerate(v)]}
        return {'t': 'list', 'sh': sh, 'e': at}
    if isinstance(v, tuple):
        sh, at = _flatten(v)
        return {'t': 'tuple', 'sh': sh, 'e': at}
    return {'t': 'scalar', 'sh': [], 'e': [_atom(v)]}


def _canon_num(tok):
    if isinstance(tok, str) and tok not in ('nan', 'inf', '-inf', '-0'):
        return str(Fraction(tok))
    return tok if isinstance(tok, str) else str(Fraction(tok))


def canon(w):
    """python mirror of the *format* of the model's canonical values (sorted keys, tags
    erased, text decoded) — applied to both sides before they are compared"""
    if w is None:
        return None
    if 's' in w:
        return ('t', (), (('s', _untext(w['s'])),))
    if 'd' in w:
        return ('d', tuple(sorted((_untext(k), canon(x)) for k, x in w['d'])))
    atoms = tuple(('s', _untext(a[1])) if a[0] == 's' else ('n', _canon_num(a[1])) for a in w['e'])
    return ('t', tuple(w['sh']), atoms)


def canon_diff(a, b, path=''):
    """first difference of two canonical values"""
    if a == b:
        return None
    if a is None or b is None or a[0] != b[0]:
        return f'{path}: {short(a)} != {short(b)}'
    if a[0] == 'd':
        ka, kb = [k for k, _ in a[1]], [k for k, _ in b[1]]
        if ka != kb:
            return f'{path}: keys {ka} != {kb}'
        for (k, x), (_, y) in zip(a[1], b[1]):
            d = canon_diff(x, y, f'{path}.{k}')
            if d:
                return d
        return f'{path}: differ'
    if a[1] != b[1]:
        return f'{path}: shape {a[1]} != {b[1]}'
    for i, (x, y) in enumerate(zip(a[2], b[2])):
        if x != y:
            return f'{path}[{i}]: {x} != {y}'
    return f'{path}: differ'


def short(x):
    s = repr(x)
    return s if len(s) < 90 else s[:87] + '...'


# ----------------------------------------------------------------------------- spec -> python

NP_DTYPES = {'float32': np.float32, 'float16': np.float16, 'int8': np.int8, 'uint16': np.uint16,
             'int32': np.int32, 'bool_': np.bool_, 'float64': np.float64, 'int64': np.int64}


def pv(spec):
    """python value of a value spec"""
    t = spec['py']
    if t == 'none':
        return None
    if t == 'str':
        return spec['v']
    if t == 'int':
        return int(spec['v'])
    if t == 'bool':
        return bool(spec['v'])
    if t == 'float':
        return float(spec['v'])
    if t == 'list':
        return [pv(x) for x in spec['v']]
    if t == 'tuple':
        return tuple(pv(x) for x in spec['v'])
    if t == 'dict':
        return {k: pv(x) for k, x in spec['v']}
    if t == 'nd':
        if spec['dtype'] in NP_DTYPES:       # small numpy dtypes (values exactly representable)
            return np.array([float(x) for x in spec['v']]).astype(NP_DTYPES[spec['dtype']]).reshape(spec['shape'])
        dt = {'f': float, 'i': int, 'U': str, 'b': bool, 'O': object}[spec['dtype']]
        flat = [float(x) if spec['dtype'] == 'f' else x for x in spec['v']]
        return np.array(flat, dtype=dt).reshape(spec['shape'])
    if t == 'npscalar':                      # a numpy scalar object (np.float32(1.5), np.bool_(True), …)
        return NP_DTYPES[spec['dtype']](spec['v'])
    raise ValueError(t)


def pv_dict(entries):
    return {k: pv(v) for k, v in entries}


def _apply_history(obj, history):
    for step in history or []:
        name, args = step[0], step[1:]
        try:
            with warnings.catch_warnings():
                warnings.simplefilter('ignore')
                if name == 'getitem':
                    new = obj[args[0]]
                elif name == 'sort_by':
                    if hasattr(obj, 'dissimilarities'):
                        obj.sort_by(**{args[0]: 'alpha'})
                        new = obj
                    else:
                        obj.sort_by(args[0])
                        new = obj
                elif name == 'split_obs':
                    parts = obj.split_obs(args[0])
                    new = parts[args[1] % len(parts)]
                elif name == 'split_channel':
                    parts = obj.split_channel(args[0])
                    new = parts[args[1] % len(parts)]
                elif name == 'concat_self':
                    from rsatoolbox.rdm import concat
                    new = concat([obj, obj])
                elif name == 'concat_bare':
                    # concat with a stack that carries no rdm descriptors: the library fills the
                    # missing entries of the merged descriptors with None
                    from rsatoolbox.rdm import concat, RDMs
                    bare = RDMs(obj.dissimilarities.copy(), dissimilarity_measure=obj.dissimilarity_measure,
                                pattern_descriptors=dict(obj.pattern_descriptors))
                    new = concat([obj, bare])
                elif name == 'append_self':
                    import copy
                    new = copy.deepcopy(obj)
                    new.append(copy.deepcopy(obj))
                else:
                    new = getattr(obj, name)(*args)
                    if new is None:
                        new = obj
            if getattr(new, 'n_cond', 1) == 0:
                continue        # no condition left: zero and one condition share the empty vector form
            obj = new
        except Exception:  # noqa: BLE001  a failing C10/C11 operation is not C16's business
            continue
    return obj


def build_rdms(spec):
    from rsatoolbox.rdm import RDMs
    dis = np.array([[float(x) for x in row] for row in spec['dis']], dtype=float)
    obj = RDMs(dis, dissimilarity_measure=spec.get('measure'),
               descriptors=pv_dict(spec.get('descriptors', [])),
               rdm_descriptors=pv_dict(spec.get('rdm_descriptors', [])),
               pattern_descriptors=pv_dict(spec.get('pattern_descriptors', [])))
    return _apply_history(obj, spec.get('history'))


def build_dataset(spec):
    from rsatoolbox.data import Dataset, TemporalDataset
    meas = np.array(spec['meas'], dtype=float).reshape(spec['shape'])
    kw = dict(descriptors=pv_dict(spec.get('descriptors', [])),
              obs_descriptors=pv_dict(spec.get('obs_descriptors', [])),
              channel_descriptors=pv_dict(spec.get('channel_descriptors', [])))
    if len(spec['shape']) == 3:
        td = spec.get('time_descriptors')
        obj = TemporalDataset(meas, time_descriptors=None if td is None else pv_dict(td), **kw)
    elif spec.get('cls') == 'DatasetBase':
        from rsatoolbox.data.base import DatasetBase
        obj = DatasetBase(meas, **kw)
    else:
        obj = Dataset(meas, **kw)
    return _apply_history(obj, spec.get('history'))


def build_model(spec):
    import rsatoolbox.model as rm
    cls = getattr(rm, spec['type'])
    if spec['type'] == 'Model':
        return cls(spec['name'])
    src = spec['rdm']
    if src.get('kind') == 'rdms':
        arg = build_rdms(src)
        if arg.n_rdm == 0:      # a history may select nothing; a model needs at least one RDM
            arg = build_rdms(dict(src, history=None))
    elif 'vec' in src:
        arg = np.array([float(x) for x in src['vec']], dtype=float)
        if spec['type'] != 'ModelFixed':
            arg = arg.reshape(src.get('rows', 1), -1)
    else:
        raise ValueError('model rdm spec')
    return cls(spec['name'], arg)


def _a_fitter(model, data, **kw):
    return None


def build_result(spec):
    from rsatoolbox.inference import Result
    import rsatoolbox.inference as ri
    if spec['how'] == 'ctor':
        models = [build_model(m) for m in spec['models']]
        ev = np.array(spec['evaluations'], dtype=float).reshape(spec['ev_shape'])
        nc = np.array(spec['noise_ceiling'], dtype=float).reshape(spec['nc_shape'])
        var = None if spec.get('variances') is None else \
            np.array(spec['variances'], dtype=float).reshape(spec['var_shape'])
        # `fitter` is not part of what is saved (the property lists models, evaluations, variances,
        # dof …): a Result that carries one must round-trip in everything else
        res = Result(models, ev, spec['method'], spec['cv_method'], nc, variances=var,
                     dof=spec.get('dof', 1), n_rdm=spec.get('n_rdm'), n_pattern=spec.get('n_pattern'),
                     fitter=(_a_fitter if spec.get('fitter') else None))
        for k, v in (spec.get('post') or {}).items():
            setattr(res, k, v)
        return res
    data = build_rdms(spec['data'])
    models = [build_model(m) for m in spec['models']]
    st = np.random.get_state()
    np.random.seed(spec['seed'])
    try:
        with warnings.catch_warnings():
            warnings.simplefilter('ignore')
            ev = spec['evaluator']
            if ev == 'fixed':
                res = ri.eval_fixed(models, data, method=spec['method'])
            elif ev == 'bootstrap_rdm':
                res = ri.eval_bootstrap_rdm(models, data, method=spec['method'], N=spec['N'])
            elif ev == 'bootstrap_pattern':
                res = ri.eval_bootstrap_pattern(models, data, method=spec['method'], N=spec['N'])
            elif ev == 'bootstrap':
                res = ri.eval_bootstrap(models, data, method=spec['method'], N=spec['N'])
            elif ev == 'dual':
                res = ri.eval_dual_bootstrap(models, data, method=spec['method'], N=spec['N'])
            else:
                raise ValueError(ev)
    finally:
        np.random.set_state(st)
    return res


def build(spec):
    with warnings.catch_warnings(), np.errstate(all='ignore'):
        warnings.simplefilter('ignore')
        return {'rdms': build_rdms, 'dataset': build_dataset, 'model': build_model,
                'result': build_result}[spec['kind']](spec)


# ----------------------------------------------------------------------------- objects -> values

def rdms_attrs(o):
    return {'dissimilarities': o.dissimilarities, 'descriptors': o.descriptors,
            'rdm_descriptors': o.rdm_descriptors, 'pattern_descriptors': o.pattern_descriptors,
            'dissimilarity_measure': o.dissimilarity_measure}


def model_attrs(m):
    return {'type': type(m).__name__, 'name': m.name,
            'rdm': None if m.rdm_obj is None else rdms_attrs(m.rdm_obj)}


def attrs(kind, o):
    """the attribute dictionary the model calls "the object" """
    from rsatoolbox.rdm import RDMs
    from rsatoolbox.data.base import DatasetBase
    from rsatoolbox.model import Model
    from rsatoolbox.inference import Result
    if kind == 'rdms':
        if not isinstance(o, RDMs):
            raise Unsupported('not an RDMs')
        return rdms_attrs(o)
    if kind == 'dataset':
        if not isinstance(o, DatasetBase):
            raise Unsupported('not a dataset')
        d = {'type': type(o).__name__, 'measurements': o.measurements, 'descriptors': o.descriptors,
             'obs_descriptors': o.obs_descriptors, 'channel_descriptors': o.channel_descriptors}
        if hasattr(o, 'time_descriptors'):
            d['time_descriptors'] = o.time_descriptors
        return d
    if kind == 'model':
        if not isinstance(o, Model):
            raise Unsupported('not a model')
        return model_attrs(o)
    if not isinstance(o, Result):
        raise Unsupported('not a Result')
    return {'evaluations': o.evaluations, 'dof': o.dof, 'variances': o.variances,
            'noise_ceiling': o.noise_ceiling, 'method': o.method, 'cv_method': o.cv_method,
            'n_rdm': o.n_rdm, 'n_pattern': o.n_pattern,
            'models': {'model_%d' % i: model_attrs(m) for i, m in enumerate(o.models)},
            'model_var': o.model_var, 'diff_var': o.diff_var, 'noise_ceil_var': o.noise_ceil_var}


def _nums(x):
    """numbers of an array-like as exact tokens (for test outputs / predictions)"""
    if x is None:
        return None
    if isinstance(x, (list, tuple)):
        return [_nums(y) for y in x]
    a = np.asarray(x, dtype=float)
    return [list(a.shape), [_num_token(v) for v in a.reshape(-1).tolist()]]


def behaviour(kind, o):
    """what the object *does*: test outputs of a Result, predictions of a model"""
    out = {}
    with warnings.catch_warnings(), np.errstate(all='ignore'):
        warnings.simplefilter('ignore')
        if kind == 'result':
            for tt in ('t-test', 'bootstrap'):
                try:
                    out['test_all:' + tt] = _nums(list(o.test_all(test_type=tt)))
                except Exception as exc:  # noqa: BLE001
                    out['test_all:' + tt] = 'exc:' + type(exc).__name__
            for tt in ('t-test',):       # intervals use the dof (t quantiles)
                try:
                    out['get_ci:' + tt] = _nums(list(o.get_ci(0.95, test_type=tt)))
                except Exception as exc:  # noqa: BLE001
                    out['get_ci:' + tt] = 'exc:' + type(exc).__name__
            for name in ('test_zero', 'test_noise', 'test_pairwise'):
                try:
                    out[name] = _nums(getattr(o, name)())
                except Exception as exc:  # noqa: BLE001
                    out[name] = 'exc:' + type(exc).__name__
            for name in ('get_means', 'get_sem', 'get_noise_ceil'):
                try:
                    out[name] = _nums(getattr(o, name)())
                except Exception as exc:  # noqa: BLE001
                    out[name] = 'exc:' + type(exc).__name__
            out['models'] = [behaviour('model', m) for m in o.models]
        elif kind == 'model':
            out['class'] = type(o).__name__
            out['name'] = o.name
            if o.rdm_obj is not None:
                n = getattr(o, 'n_rdm', 1)
                thetas = [None]
                if type(o).__name__ == 'ModelSelect':
                    thetas = [0, n - 1]
                elif type(o).__name__ in ('ModelWeighted', 'ModelInterpolate'):
                    thetas = [None, np.arange(1, n + 1, dtype=float)]
                for i, th in enumerate(thetas):
                    try:
                        p = o.predict() if th is None else o.predict(th)
                        out[f'predict{i}'] = _nums(p)
                        pr = o.predict_rdm() if th is None else o.predict_rdm(th)
                        out[f'predict_rdm{i}'] = _nums(pr.dissimilarities)
                    except Exception as exc:  # noqa: BLE001
                        out[f'predict{i}'] = 'exc:' + type(exc).__name__
    return out


# ----------------------------------------------------------------------------- real-code adaptor

EXT = {'h5': '.h5', 'pkl': '.pkl', 'other': '.dat'}


def target_name(t):
    """file name ending of a path target (older corpus cases carry 'ext' instead of 'name')"""
    return t['name'] if 'name' in t else EXT[t.get('ext', 'other')]


class FsPath:
    """a path object that is neither `str` nor `pathlib.Path`: only the `os.PathLike` protocol"""

    def __init__(self, p):
        self._p = p

    def __fspath__(self):
        return self._p


VIAS = ('str', 'Path', 'PathLike', 'bytes')


def as_via(fname, via):
    """the file name handed over the way the operation says"""
    if via in (None, 'str'):
        return fname
    if via == 'Path':
        import pathlib
        return pathlib.Path(fname)
    if via == 'PathLike':
        return FsPath(fname)
    if via == 'bytes':
        return os.fsencode(fname)
    raise ValueError(via)


def _freeze(x):
    """hashable, exact image of what h5py / pickle hand back"""
    if isinstance(x, dict):
        return ('dict', tuple(sorted((str(k), _freeze(v)) for k, v in x.items())))
    if isinstance(x, (list, tuple)):
        return (type(x).__name__, tuple(_freeze(v) for v in x))
    if isinstance(x, np.ndarray):
        if x.dtype.kind == 'O':
            return ('ndO', x.shape, tuple(_freeze(v) for v in x.reshape(-1).tolist()))
        return ('nd', str(x.dtype), x.shape, x.tobytes())
    if isinstance(x, np.generic):
        return ('np', str(x.dtype), x.tobytes())
    if isinstance(x, float) and x != x:
        return ('float', 'nan')
    try:
        hash(x)
        return (type(x).__name__, x)
    except TypeError:
        return (type(x).__name__, repr(x))


def snapshot(fname):
    """the content of a file read *independently of rsatoolbox*: with h5py (every member, every
    attribute) or with pickle (every pickle in the file); `None` = no such file"""
    if not os.path.exists(fname):
        return None
    import h5py
    import pickle
    try:
        is_h5 = h5py.is_hdf5(fname)
    except Exception:  # noqa: BLE001
        is_h5 = False
    if is_h5:
        links, attrs = {}, {}
        try:
            f = h5py.File(fname, 'r')
        except OSError:
            # a writer's File object not yet collected (write_dict_hdf5 never closes its file)
            import gc
            gc.collect()
            f = h5py.File(fname, 'r')
        with f:
            def visit(name, o):
                for k, v in o.attrs.items():
                    attrs[name + '@' + k] = _freeze(v)
                if isinstance(o, h5py.Group):
                    links[name] = ('group',)
                elif o.shape is None:
                    links[name] = ('empty',)
                else:
                    links[name] = _freeze(np.asarray(o[()]))
            for k, v in f.attrs.items():
                attrs['@' + k] = _freeze(v)
            f.visititems(visit)
        return {'type': 'hdf5', 'links': links, 'attrs': attrs}
    raw = open(fname, 'rb').read()
    out = []
    try:
        with open(fname, 'rb') as f:
            while f.tell() < len(raw):
                out.append(_freeze(pickle.load(f)))
        return {'type': 'pkl', 'pickles': out}
    except Exception:  # noqa: BLE001
        import hashlib
        return {'type': 'raw', 'sha': hashlib.sha256(raw).hexdigest()}


def snap_relation(a, b):
    """how a file changed: 'same' | 'created' | 'merged' (an HDF5 file that still has every member
    it had, unchanged, next to new ones / replaced attributes) | 'replaced'"""
    if a == b:
        return 'same'
    if a is None:
        return 'created'
    if b is not None and a['type'] == 'hdf5' and b['type'] == 'hdf5' \
            and all(k in b['links'] and b['links'][k] == v for k, v in a['links'].items()):
        return 'merged'
    return 'replaced'


class Files:
    """targets of one session in a scratch directory"""

    def __init__(self):
        self.dir = tempfile.mkdtemp(prefix='c16_')
        self.handles = {}

    def fname(self, t):
        return os.path.join(self.dir, f"p{t['id']}{target_name(t)}") if t['path'] else None

    def target(self, t, via=None):
        if t['path']:
            return as_via(self.fname(t), via)
        key = t['id']
        if key not in self.handles:
            if t.get('mem'):
                self.handles[key] = io.BytesIO()
            else:
                self.handles[key] = open(os.path.join(self.dir, f'h{key}.bin'), 'w+b')
        return self.handles[key]

    def close(self):
        for h in self.handles.values():
            if isinstance(h, io.BytesIO):
                continue        # h5py may still export its buffer; the collector frees it
            try:
                h.close()
            except Exception:  # noqa: BLE001
                pass
        shutil.rmtree(self.dir, ignore_errors=True)


def real_save(kind, obj, target, ft, overwrite):
    """`ft` / `overwrite` None = the argument is not passed (the defaults of `save` apply)"""
    if kind == 'model':
        # models have no save(): the dictionary writers are the interface
        from rsatoolbox.io.hdf5 import write_dict_hdf5
        from rsatoolbox.io.pkl import write_dict_pkl
        from rsatoolbox.util.file_io import remove_file
        d = obj.to_dict()
        if overwrite:
            remove_file(target)
        (write_dict_hdf5 if (ft or 'hdf5') == 'hdf5' else write_dict_pkl)(target, d)
    else:
        kw = {}
        if ft is not None:
            kw['file_type'] = ft
        if overwrite is not None:
            kw['overwrite'] = overwrite
        obj.save(target, **kw)
    if hasattr(target, 'flush'):
        target.flush()


def real_load(kind, target, ft):
    if hasattr(target, 'seek'):
        target.seek(0)          # "reading back" a handle = reading the file from its start
    if kind == 'rdms':
        from rsatoolbox.rdm import load_rdm
        return load_rdm(target, file_type=ft)
    if kind == 'dataset':
        from rsatoolbox.data import load_dataset
        return load_dataset(target, file_type=ft)
    if kind == 'result':
        from rsatoolbox.inference import load_results
        return load_results(target, file_type=ft)
    from rsatoolbox.io.hdf5 import read_dict_hdf5
    from rsatoolbox.io.pkl import read_dict_pkl
    from rsatoolbox.model import model_from_dict
    if ft is None and isinstance(target, str):     # the harness' rule for models = load_rdm's
        ft = 'pkl' if target[-4:] == '.pkl' else 'hdf5' if target[-3:] == '.h5' or target[-4:] == 'hdf5' \
            else None
    if ft is None:
        raise ValueError('filetype not understood')
    return model_from_dict((read_dict_hdf5 if ft == 'hdf5' else read_dict_pkl)(target))


def run_session(case, on_save=None, on_load=None):
    """execute the ops of a case on the real code.  Returns (objects, outcomes)."""
    files = Files()
    try:
        objs = [build(s) for s in case['objs']]
        kinds = [s['kind'] for s in case['objs']]
        before = [wire(attrs(k, o)) for k, o in zip(kinds, objs)]
        beh = [behaviour(k, o) for k, o in zip(kinds, objs)]
        out = []
        for op in case['ops']:
            tgt = files.target(op['target'], op.get('via'))
            fname = files.fname(op['target'])
            if op['do'] == 'save':
                i = op['obj']
                snap0 = snapshot(fname) if fname else None
                try:
                    with warnings.catch_warnings():
                        warnings.simplefilter('ignore')
                        real_save(kinds[i], objs[i], tgt, op.get('ft'), op.get('overwrite'))
                    err = None
                except Exception as exc:  # noqa: BLE001
                    err = type(exc).__name__ + ': ' + str(exc)[:60]
                try:
                    after = wire(attrs(kinds[i], objs[i]))
                except Exception as exc:  # noqa: BLE001
                    after = 'exc ' + type(exc).__name__
                res = {'err': err, 'pure': after == before[i]}
                if fname:
                    # the file before / after, read without rsatoolbox
                    res['existed'] = snap0 is not None
                    snap1 = snapshot(fname)
                    res['file'] = snap_relation(snap0, snap1)
                    if snap0 is not None and op.get('overwrite') and err is None:
                        # "the file afterwards holds exactly the new object": the same object saved
                        # to a fresh path (plain str) gives a file with the same content
                        ref = os.path.join(files.dir, 'ref_' + os.path.basename(fname))
                        try:
                            with warnings.catch_warnings():
                                warnings.simplefilter('ignore')
                                real_save(kinds[i], objs[i], ref, op.get('ft'), None)
                            res['exact'] = snapshot(ref) == snap1
                        except Exception:  # noqa: BLE001
                            res['exact'] = None
                        finally:
                            if os.path.exists(ref):
                                try:
                                    os.remove(ref)
                                except OSError:
                                    pass
                out.append(res)
            else:
                snap0 = snapshot(fname) if fname else None
                try:
                    with warnings.catch_warnings():
                        warnings.simplefilter('ignore')
                        lo = real_load(op['kind'], tgt, op.get('ft'))
                    res = {'loaded': lo}
                except Exception as exc:  # noqa: BLE001
                    res = {'err': type(exc).__name__ + ': ' + str(exc)[:60]}
                if fname:       # reading never creates or changes a file
                    res['file'] = snap_relation(snap0, snapshot(fname))
                out.append(res)
        return objs, kinds, before, beh, out
    finally:
        files.close()
