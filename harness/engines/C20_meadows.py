"""C20 / Meadows: file-name segments and RDM loading (io/meadows.py)."""
import json
import os
import shutil
import tempfile
import warnings
from fractions import Fraction as F
import numpy as np
from lean import rat

ALNUM = 'abcdefghijklmnopqrstuvwxyzABCDEFGHIJKLMNOPQRSTUVWXYZ0123456789'
ADJ = ['cuddly', 'able', 'clean', 'informed', 'brave', 'x', 'Quick9']
STRUCTS = ['1D', '2D', 'tree', 'events', 'annotations']
STIMEXT = ['png', 'jpg', 'jpeg', 'wav', 'p']
_TMP = None


def tmpdir():
    global _TMP
    if _TMP is None:
        _TMP = tempfile.mkdtemp(prefix='c20meadows')
        import atexit
        atexit.register(shutil.rmtree, _TMP, True)
    return _TMP


def petnames():
    from rsatoolbox.io.petnames import PETNAMES
    return list(PETNAMES)


def token(rng, lo=1, hi=7):
    while True:
        t = ''.join(rng.choice(ALNUM) for _ in range(rng.randint(lo, hi)))
        if not t.isdigit():
            return t


def participant(rng):
    return rng.choice(ADJ) + '-' + rng.choice(petnames())


def make_name(rng, shape, ext):
    exp = token(rng)
    ver = str(rng.randint(1, 30))
    struct = rng.choice(STRUCTS)
    exp_info = {'experiment_name': exp, 'version': ver, 'structure': struct, 'filetype': ext}
    head = f'Meadows_{exp}_v_v{ver}_'
    if shape == 'A':
        p, idx = participant(rng), rng.randint(0, 40)
        idx_s = str(idx) if rng.random() < 0.8 else '0' + str(idx)
        exp_info.update(participant_scope='single', task_scope='single', participant=p,
                        task_index=idx, task_name=None)
        return head + f'{p}_{idx_s}_{struct}.{ext}', exp_info
    if shape == 'B':
        p = participant(rng)
        exp_info.update(participant_scope='single', task_scope='multiple', participant=p,
                        task_index=None, task_name=None)
        return head + f'{p}_{struct}.{ext}', exp_info
    while True:
        t = token(rng, 2, 10)
        r = rng.random()
        if r < 0.2:
            t = t + '-' + token(rng, 2, 4) + 'zq'      # hyphenated, second half is no pet name
        elif r < 0.35:
            # three hyphenated parts with a pet name in the middle: still a task, pet names have two
            t = t + '-' + rng.choice(petnames()) + '-' + token(rng, 1, 3)
        if '-' not in t or t.split('-')[1] not in petnames() or len(t.split('-')) != 2:
            break
    exp_info.update(participant_scope='multiple', task_scope='single', participant=None,
                    task_index=None, task_name=t)
    return head + f'{t}_{struct}.{ext}', exp_info


BAD_NAMES = ['Meadows_x_1D.mat', 'Meadows_exp_v_v1_a_1D', 'Meadows_exp_v_v1_a_1D.tar.gz',
             'Meadows_exp_v_v1.mat', 'x.mat', 'Meadows_exp_v_v1_cat-dog-fox_tree.json',
             'Meadows_exp_v_vv12v_12_3_1D.mat', 'Meadows_exp_v_v1_cuddly-bunny_1D.mat',
             'a_b_c_d.e', '/some/dir.d/Meadows_exp_v_v2_able-fox_7_2D.mat']


def stimuli(rng, n, ext_mode='ext'):
    """n distinct stimulus names; ext_mode 'ext': file names with an extension (what Meadows
    stores for uploaded files), 'none': bare names of different lengths (text stimuli), 'mixed'"""
    out = set()
    while len(out) < n:
        s = token(rng, 1, 6)
        if rng.random() < 0.3:
            s = rng.choice(['stim', 'Stim', 'a', 'B']) + str(rng.randint(0, 120))
        out.add(s)
    out = list(out)
    rng.shuffle(out)
    if ext_mode == 'none' and len({len(s) for s in out}) == 1:
        out[0] = out[0] + 'xx'                      # make sure some row gets padded
    return [s if ext_mode == 'none' or (ext_mode == 'mixed' and i % 2 == 0)
            else s + '.' + rng.choice(STIMEXT) for i, s in enumerate(out)]


def utv(rng, n):
    return [rat(F(rng.randint(0, 200), 64)) for _ in range(n * (n - 1) // 2)]


def load_case(rng, form, sort, n, n_part=None, skip=None, mismatch=None, ext_mode='ext'):
    """one supported Meadows file: 'mat1' single participant .mat, 'matN' multi participant .mat,
    'json' single participant multi task .json; skip / mismatch force an info task / a
    multi-arrangement task with other stimuli into the json"""
    if form == 'mat1':
        name, info = make_name(rng, 'A', 'mat')
        stim = stimuli(rng, n, ext_mode)
        u = utv(rng, n)
        vars_ = [['stimuli', {'strs': stim}], ['rdmutv', {'nums': [u]}]]
        rng.shuffle(vars_)
        return {'kind': 'meadows_load', 'fname': name, 'vars': vars_, 'sort': sort, 'form': 'mat1',
                'ext_mode': ext_mode,
                'expect': {'experiment': info['experiment_name'], 'stimuli': stim,
                           'rows': [{'participant': info['participant'], 'task': None,
                                     'task_index': info['task_index'], 'utv': u}]}}
    if form == 'matN':
        name, info = make_name(rng, 'C', 'mat')
        stim = stimuli(rng, n, ext_mode)
        ps = []
        want = n_part or rng.randint(1, 4)
        while len(ps) < want:
            p = participant(rng)
            if p not in ps:
                ps.append(p)
        rows = [{'participant': p, 'task': info['task_name'], 'task_index': None, 'utv': utv(rng, n)}
                for p in ps]
        svars = [['stimuli_' + p.replace('-', '_'), {'strs': stim}] for p in ps]
        uvars = [['rdmutv_' + r_['participant'].replace('-', '_'), {'nums': [r_['utv']]}] for r_ in rows]
        rng.shuffle(uvars)
        vars_ = uvars[:1] + svars + uvars[1:]
        return {'kind': 'meadows_load', 'fname': name, 'vars': vars_, 'sort': sort, 'form': 'matN',
                'ext_mode': ext_mode,
                'expect': {'experiment': info['experiment_name'], 'stimuli': stim, 'rows': rows}}
    name, info = make_name(rng, 'B', 'json')
    stim = stimuli(rng, n, ext_mode)
    if rng.random() < 0.3:
        stim[0] = 'é' + stim[0]
    tasks, rows = [], []
    n_tasks = rng.randint(1, 5)
    plan = []
    for t in range(n_tasks):
        r = rng.random()
        plan.append('info' if r < 0.3 else 'other' if r < 0.4 else 'ma')
    if skip is True:
        plan = ['info'] + plan
    if skip is False:
        plan = [x for x in plan if x != 'info'] or ['ma']
    if mismatch is True:
        plan = plan + ['ma', 'other', 'ma']
    if mismatch is False:
        plan = [x for x in plan if x != 'other'] or ['ma']
    for t, what in enumerate(plan):
        tn = token(rng)
        if what == 'info':
            tasks.append({'task_type': rng.choice(['info', 'survey', None]), 'name': tn,
                          'stimuli': [], 'rdm': []})
        elif what == 'other' and rows:    # other stimuli: skipped with a warning
            tasks.append({'task_type': 'multiarrange', 'name': tn,
                          'stimuli': stimuli(rng, n) + ['extra.png'], 'rdm': utv(rng, n + 1)})
        else:
            u = utv(rng, n)
            tasks.append({'task_type': 'multiarrange', 'name': tn, 'stimuli': stim, 'rdm': u})
            rows.append({'participant': info['participant'], 'task': tn, 'task_index': t, 'utv': u})
    if not rows:
        u = utv(rng, n)
        tasks.append({'task_type': 'multiarrange', 'name': 'ma', 'stimuli': stim, 'rdm': u})
        rows.append({'participant': info['participant'], 'task': 'ma',
                     'task_index': len(tasks) - 1, 'utv': u})
    return {'kind': 'meadows_load', 'fname': name, 'tasks': tasks, 'sort': sort, 'form': 'json',
            'ext_mode': ext_mode,
            'expect': {'experiment': info['experiment_name'], 'stimuli': stim, 'rows': rows}}


def gen(rng, tier):
    k = 1 if tier == 'quick' else 25
    # --- names
    for _ in range(12 * k):
        for shape in 'ABC':
            ext = rng.choice(['mat', 'json', 'mat', 'csv'])
            name, info = make_name(rng, shape, ext)
            pre = rng.choice(['', '/tmp/dl/', 'rel.dir/'])
            yield {'kind': 'meadows_name', 'fpath': pre + name, 'shape': shape, 'expect': info}
    for n in BAD_NAMES:
        yield {'kind': 'meadows_name', 'fpath': n, 'shape': 'bad'}
    # --- files: directed skeleton first (every load:* tag whatever the PRNG draws), then random
    for form, sort, n, kw in (('mat1', True, 3, {}), ('mat1', False, 2, {}),
                              ('matN', True, 4, {'n_part': 3}), ('matN', False, 2, {'n_part': 2}),
                              ('matN', True, 2, {'n_part': 1}),
                              ('json', True, 3, {'skip': True, 'mismatch': True}),
                              ('json', False, 2, {'skip': False, 'mismatch': False}),
                              # stimulus names without extension: blank-padded by loadmat
                              ('mat1', True, 4, {'ext_mode': 'none'}),
                              ('matN', True, 3, {'n_part': 2, 'ext_mode': 'mixed'}),
                              ('json', True, 3, {'ext_mode': 'none'})):
        yield load_case(rng, form, sort, n, **kw)
    for _ in range(14 * k):
        r = rng.random()
        yield load_case(rng, 'mat1' if r < 0.3 else 'matN' if r < 0.65 else 'json',
                        rng.random() < 0.6, rng.randint(2, 6),
                        ext_mode=rng.choice(['ext', 'ext', 'ext', 'none', 'mixed']))
    # --- rejected combinations
    for shape, ext, form in (('B', 'mat', 'rej_mat_multitask'), ('A', 'json', 'rej_json_single'),
                             ('C', 'json', 'rej_json_multi'), ('A', 'csv', 'rej_type')):
        name, info = make_name(rng, shape, ext)
        stim = stimuli(rng, 3)
        yield {'kind': 'meadows_load', 'fname': name, 'sort': True, 'form': form,
               'vars': [['stimuli', {'strs': stim}], ['rdmutv', {'nums': [utv(rng, 3)]}]],
               'tasks': [{'task_type': 'multiarrange', 'name': 't', 'stimuli': stim, 'rdm': utv(rng, 3)}]}
    name, info = make_name(rng, 'A', 'mat')
    yield {'kind': 'meadows_load', 'fname': name, 'sort': False, 'form': 'rej_missing_var',
           'vars': [['stimuli', {'strs': stimuli(rng, 3)}]]}
    name, info = make_name(rng, 'B', 'json')
    yield {'kind': 'meadows_load', 'fname': name, 'sort': False, 'form': 'rej_json_structure',
           'tasks': None}


def _fl(x):
    return float(F(x)) if isinstance(x, str) else float(x)


def write_file(case):
    path = os.path.join(tmpdir(), case['fname'])
    if case['fname'].endswith('.mat'):
        from scipy.io import savemat
        d = {}
        for k, v in case['vars']:
            d[k] = np.array(v['strs']) if 'strs' in v else np.array([[_fl(x) for x in r] for r in v['nums']])
        savemat(path, d)
    elif case['fname'].endswith('.json'):
        if case.get('tasks') is None:
            doc = {'tasks': 'none'}
        else:
            doc = {'token': None, 'tasks': [
                {'status': 'finished', 'task': {'name': t['name'], 'task_type': t['task_type']},
                 'stimuli': [{'id': str(i), 'name': s} for i, s in enumerate(t['stimuli'])],
                 'rdm': [_fl(x) for x in t['rdm']]} for t in case['tasks']]}
        with open(path, 'w', encoding='utf-8') as fh:
            json.dump(doc, fh)
    return path


def impl(case):
    from rsatoolbox.io import meadows
    if case['kind'] == 'meadows_name':
        try:
            info = meadows.extract_filename_segments(case['fpath'])
        except Exception as exc:  # noqa: BLE001
            return {'exc': type(exc).__name__}
        out = {k: info.get(k) for k in ('version', 'experiment_name', 'structure', 'filetype',
                                        'task_scope', 'participant_scope', 'participant',
                                        'task_index', 'task_name')}
        return out
    path = write_file(case)
    try:
        with warnings.catch_warnings():
            warnings.simplefilter('ignore')
            rdms = meadows.load_rdms(path, sort=case['sort'])
    except Exception as exc:  # noqa: BLE001
        return {'exc': type(exc).__name__}
    rd = rdms.rdm_descriptors

    def lst(x):
        return None if x is None else [v.item() if hasattr(v, 'item') else v for v in x]
    return {'experiment_name': rdms.descriptors.get('experiment_name'),
            'dissim': rdms.dissimilarities.tolist(),
            'conds': [str(c) for c in rdms.pattern_descriptors['conds']],
            'participant': lst(rd.get('participant')), 'task': lst(rd.get('task')),
            'task_index': lst(rd.get('task_index'))}


def requests(case):
    if case['kind'] == 'meadows_name':
        return [{'op': 'c20.meadows_name', 'fpath': case['fpath'], 'petnames': petnames()}]
    req = {'op': 'c20.meadows_load', 'fpath': '/dl/' + case['fname'], 'petnames': petnames(),
           'sort': case['sort'], 'vars': case.get('vars', []), 'tasks': case.get('tasks')}
    return [req]


def result(case, answers):
    a = answers[0]
    if isinstance(a, dict) and 'dissim' in a:
        a = dict(a, dissim=[[float(F(x)) for x in r] for r in a['dissim']])
    return a


def oracle(case):
    out = impl(case)
    if case['kind'] == 'meadows_name':
        exp = case.get('expect')
        if exp is None:
            return None
        if out != exp:
            return {'what': 'file-name segments differ from the components the name was built from',
                    'observed': out, 'expected': exp, 'features': {'meadows_shape': case['shape']}}
        return None
    exp = case.get('expect')
    if exp is None:
        return None
    feats = {'meadows_form': case['form'], 'n_stimuli': len(exp['stimuli']), 'n_rdms': len(exp['rows'])}
    if 'exc' in out:
        return {'what': 'supported Meadows file rejected', 'observed': out,
                'expected': 'RDMs', 'features': feats}
    stems = [s.split('.')[0] for s in exp['stimuli']]
    n = len(stems)
    if out['experiment_name'] != exp['experiment']:
        return {'what': 'experiment name differs from the file name', 'observed': out['experiment_name'],
                'expected': exp['experiment'], 'features': feats}
    want_conds = sorted(stems) if case['sort'] else stems
    if case.get('ext_mode', 'ext') != 'ext' and case['form'] in ('mat1', 'matN'):
        # a MATLAB char matrix pads its rows with blanks; for a name without extension the padding
        # stays in the label (modelled: `stem_padded`); the values must still belong to the names
        feats['padded_labels'] = any(c != c.rstrip(' ') for c in out['conds'])
        out = dict(out, conds=[c.rstrip(' ') for c in out['conds']])
    if out['conds'] != want_conds:
        return {'what': 'stimulus labels differ from the file (or are not sorted on request)',
                'observed': out['conds'], 'expected': want_conds, 'features': feats}
    if len(out['dissim']) != len(exp['rows']):
        return {'what': 'number of RDMs differs from the file', 'observed': len(out['dissim']),
                'expected': len(exp['rows']), 'features': feats}
    for r, row in enumerate(exp['rows']):
        if out['participant'][r] != row['participant']:
            return {'what': 'participant descriptor differs from the file', 'observed': out['participant'],
                    'expected': [x['participant'] for x in exp['rows']], 'features': feats}
        if row['task'] is not None and (out['task'] or [None] * (r + 1))[r] != row['task']:
            return {'what': 'task descriptor differs from the file', 'observed': out['task'],
                    'expected': [x['task'] for x in exp['rows']], 'features': feats}
        if row['task_index'] is not None and (out['task_index'] or [None] * (r + 1))[r] != row['task_index']:
            return {'what': 'task index differs from the file', 'observed': out['task_index'],
                    'expected': [x['task_index'] for x in exp['rows']], 'features': feats}
        # labelled map of the file: pair of stimulus names -> value
        file_map, k = {}, 0
        for i in range(n):
            for j in range(i + 1, n):
                file_map[frozenset((stems[i], stems[j]))] = _fl(row['utv'][k])
                k += 1
        k = 0
        if len(out['dissim'][r]) != n * (n - 1) // 2:
            return {'what': 'RDM has the wrong number of entries', 'observed': len(out['dissim'][r]),
                    'expected': n * (n - 1) // 2, 'features': feats}
        for i in range(n):
            for j in range(i + 1, n):
                got = out['dissim'][r][k]
                want = file_map[frozenset((out['conds'][i], out['conds'][j]))]
                k += 1
                if abs(got - want) > 1e-12:
                    return {'what': 'dissimilarity of a stimulus pair differs from the file',
                            'observed': got, 'expected': want,
                            'pair': [out['conds'][i], out['conds'][j]], 'features': feats}
    return None


def feats(case, impl_res):
    if case['kind'] == 'meadows_name':
        b = ['meadows:' + case['shape']]
        return {'kind': 'meadows_name', 'meadows_shape': case['shape'], 'branches': b}
    b = ['load:' + case['form']]
    if case.get('expect'):
        b.append('load:sort' if case['sort'] else 'load:nosort')
        n = len(case['expect']['stimuli'])
        if n == 2:
            b.append('load:two_stimuli')
        if case.get('ext_mode', 'ext') != 'ext':
            b.append('load:noext_json' if case['form'] == 'json' else 'load:noext_mat')
        if case['form'] == 'json':
            if any(t['task_type'] != 'multiarrange' for t in case['tasks']):
                b.append('load:json_skip')
            if any(t['task_type'] == 'multiarrange' and t['stimuli'] != case['expect']['stimuli']
                   for t in case['tasks']):
                b.append('load:json_mismatch')
    return {'kind': 'meadows_load', 'meadows_form': case['form'], 'sort': case['sort'],
            'n_stimuli': len(case['expect']['stimuli']) if case.get('expect') else None,
            'n_rdms': len(case['expect']['rows']) if case.get('expect') else None,
            'branches': b}


BRANCHES = ['meadows:A', 'meadows:B', 'meadows:C', 'meadows:bad', 'load:mat1', 'load:matN',
            'load:json', 'load:sort', 'load:nosort', 'load:rej_mat_multitask',
            'load:rej_json_single', 'load:rej_json_multi', 'load:rej_type',
            'load:rej_missing_var', 'load:rej_json_structure', 'load:two_stimuli',
            'load:json_skip', 'load:json_mismatch', 'load:noext_mat', 'load:noext_json']
