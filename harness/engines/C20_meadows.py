"""C20 / Meadows: file-name segments and RDM loading (io/meadows.py)."""
import json
import os
import shutil
import tempfile
import warnings
from fractions import Fraction as F
import numpy as np
from lean import rat

ALNUM = 'abcdefghijklmnopqrstuvwxyzABCDEFGHIJKLMNOPQRSTUVWXYZ0123456789'
ADJ = ['cuddly', 'able', 'clean', 'informed', 'brave', 'x', 'Quick9']
STRUCTS = ['1D', '2D', 'tree', 'events', 'annotations']
STIMEXT = ['png', 'jpg', 'jpeg', 'wav', 'p']
_TMP = None


def tmpdir():
    global _TMP
    if _TMP is None:
        _TMP = tempfile.mkdtemp(prefix='c20meadows')
        import atexit
        atexit.register(shutil.rmtree, _TMP, True)
    return _TMP


def petnames():
    from rsatoolbox.io.petnames import PETNAMES
    return list(PETNAMES)


def token(rng, lo=1, hi=7):
    while True:
        t = ''.join(rng.choice(ALNUM) for _ in range(rng.randint(lo, hi)))
        if not t.isdigit():
            return t


def participant(rng):
    return rng.choice(ADJ) + '-' + rng.choice(petnames())


def make_name(rng, shape, ext):
    exp = token(rng)
    ver = str(rng.randint(1, 30))
    struct = rng.choice(STRUCTS)
    exp_info = {'experiment_name': exp, 'version': ver, 'structure': struct, 'filetype': ext}
    head = f'Meadows_{exp}_v_v{ver}_'
    if shape == 'A':
        p, idx = participant(rng), rng.randint(0, 40)
        idx_s = str(idx) if rng.random() < 0.8 else '0' + str(idx)
        exp_info.update(participant_scope='single', task_scope='single', participant=p,
                        task_index=idx, task_name=None)
        return head + f'{p}_{idx_s}_{struct}.{ext}', exp_info
    if shape == 'B':
        p = participant(rng)
        exp_info.update(participant_scope='single', task_scope='multiple', participant=p,
                        task_index=None, task_name=None)
        return head + f'{p}_{struct}.{ext}', exp_info
    while True:
        t = token(rng, 2, 10)
        r = rng.random()
        if r < 0.2:
            t = t + '-' + token(rng, 2, 4) + 'zq'      # hyphenated, second half is no pet name
        elif r < 0.35:
            # three hyphenated parts with a pet name in the middle: still a task, pet names have two
            t = t + '-' + rng.choice(petnames()) + '-' + token(rng, 1, 3)
        if '-' not in t or t.split('-')[1] not in petnames() or len(t.split('-')) != 2:
            break
    exp_info.update(participant_scope='multiple', task_scope='single', participant=None,
                    task_index=None, task_name=t)
    return head + f'{t}_{struct}.{ext}', exp_info


BAD_NAMES = ['Meadows_x_1D.mat', 'Meadows_exp_v_v1_a_1D', 'Meadows_exp_v_v1_a_1D.tar.gz',
             'Meadows_exp_v_v1.mat', 'x.mat', 'Meadows_exp_v_v1_cat-dog-fox_tree.json',
             'Meadows_exp_v_vv12v_12_3_1D.mat', 'Meadows_exp_v_v1_cuddly-bunny_1D.mat',
             'a_b_c_d.e', '/some/dir.d/Meadows_exp_v_v2_able-fox_7_2D.mat']


def stimuli(rng, n, ext_mode='ext'):
    """n distinct stimulus names; ext_mode 'ext': file names with an extension (what Meadows
    stores for uploaded files), 'none': bare names of different lengths (text stimuli), 'mixed'"""
    out = set()
    while len(out) < n:
        s = token(rng, 1, 6)
        if rng.random() < 0.3:
            s = rng.choice(['stim', 'Stim', 'a', 'B']) + str(rng.randint(0, 120))
        out.add(s)
    out = list(out)
    rng.shuffle(out)
    if ext_mode == 'none' and len({len(s) for s in out}) == 1:
        out[0] = out[0] + 'xx'                      # make sure some row gets padded
    return [s if ext_mode == 'none' or (ext_mode == 'mixed' and i % 2 == 0)
            else s + '.' + rng.choice(STIMEXT) for i, s in enumerate(out)]


def utv(rng, n):
    return [rat(F(rng.randint(0, 200), 64)) for _ in range(n * (n - 1) // 2)]


def load_case(rng, form, sort, n, n_part=None, skip=None, mismatch=None, ext_mode='ext'):
    """one supported Meadows file: 'mat1' single participant .mat, 'matN' multi participant .mat,
    'json' single participant multi task .json; skip / mismatch force an info task / a
    multi-arrangement task with other stimuli into the json"""
    if form == 'mat1':
        name, info = make_name(rng, 'A', 'mat')
        stim = stimuli(rng, n, ext_mode)
        u = utv(rng, n)
        vars_ = [['stimuli', {'strs': stim}], ['rdmutv', {'nums': [u]}]]
        rng.shuffle(vars_)
        return {'kind': 'meadows_load', 'fname': name, 'vars': vars_, 'sort': sort, 'form': 'mat1',
                'ext_mode': ext_mode,
                'expect': {'experiment': info['experiment_name'], 'stimuli': stim,
                           'rows': [{'participant': info['participant'], 'task': None,
                                     'task_index': info['task_index'], 'utv': u}]}}
    if form == 'matN':
        name, info = make_name(rng, 'C', 'mat')
        stim = stimuli(rng, n, ext_mode)
        ps = []
        want = n_part or rng.randint(1, 4)
        while len(ps) < want:
            p = participant(rng)
            if p not in ps:
                ps.append(p)
        rows = [{'participant': p, 'task': info['task_name'], 'task_index': None, 'utv': utv(rng, n)}
                for p in ps]
        svars = [['stimuli_' + p.replace('-', '_'), {'strs': stim}] for p in ps]
        uvars = [['rdmutv_' + r_['participant'].replace('-', '_'), {'nums': [r_['utv']]}] for r_ in rows]
        rng.shuffle(uvars)
        vars_ = uvars[:1] + svars + uvars[1:]
        return {'kind': 'meadows_load', 'fname': name, 'vars': vars_, 'sort': sort, 'form': 'matN',
                'ext_mode': ext_mode,
                'expect': {'experiment': info['experiment_name'], 'stimuli': stim, 'rows': rows}}
    name, info = make_name(rng, 'B', 'json')
    stim = stimuli(rng, n, ext_mode)
    if rng.random() < 0.3:
        stim[0] = 'é' + stim[0]
    tasks, rows = [], []
    n_tasks = rng.randint(1, 5)
    plan = []
    for t in range(n_tasks):
        r = rng.random()
        plan.append('info' if r < 0.3 else 'other' if r < 0.4 else 'ma')
    if skip is True:
        plan = ['info'] + plan
    if skip is False:
        plan = [x for x in plan if x != 'info'] or ['ma']
    if mismatch is True:
        plan = plan + ['ma', 'other', 'ma']
    if mismatch is False:
        plan = [x for x in plan if x != 'other'] or ['ma']
    for t, what in enumerate(plan):
        tn = token(rng)
        if what == 'info':
            tasks.append({'task_type': rng.choice(['info', 'survey', None]), 'name': tn,
                          'stimuli': [], 'rdm': []})
        elif what == 'other' and rows:    # other stimuli: skipped with a warning
            tasks.append({'task_type': 'multiarrange', 'name': tn,
                          'stimuli': stimuli(rng, n) + ['extra.png'], 'rdm': utv(rng, n + 1)})
        else:
            u = utv(rng, n)
            tasks.append({'task_type': 'multiarrange', 'name': tn, 'stimuli': stim, 'rdm': u})
            rows.append({'participant': info['participant'], 'task': tn, 'task_index': t, 'utv': u})
    if not rows:
        u = utv(rng, n)
        tasks.append({'task_type': 'multiarrange', 'name': 'ma', 'stimuli': stim, 'rdm': u})
        rows.append({'participant': info['participant'], 'task': 'ma',
                     'task_index': len(tasks) - 1, 'utv': u})
    return {'kind': 'meadows_load', 'fname': name, 'tasks': tasks, 'sort': sort, 'form': 'json',
            'ext_mode': ext_mode,
            'expect': {'experiment': info['experiment_name'], 'stimuli': stim, 'rows': rows}}


def _distinct_utv(rng, n):
    """all entries different, so that a value attached to the wrong pair shows"""
    m = n * (n - 1) // 2
    return [rat(F(v, 64)) for v in rng.sample(range(1, 60 * m + 8), m)]


def _reordered(rng, stim):
    """the same stimuli in another order (for >= 3 stimuli every such order moves a pair)"""
    r = rng.random()
    if r < 0.25:
        out = list(reversed(stim))
    elif r < 0.5:
        out = sorted(stim) if sorted(stim) != stim else stim[1:] + stim[:1]
    elif r < 0.7:
        i, j = rng.sample(range(len(stim)), 2)
        out = list(stim)
        out[i], out[j] = out[j], out[i]
    else:
        out = list(stim)
        while out == stim:
            rng.shuffle(out)
    return out


def mat_parts_case(rng, sort, n, kinds, ext_mode='ext'):
    """multi-participant .mat whose participants each have their OWN `stimuli_<p>` list: the first
    participant fixes the labels; every further one lists the same stimuli ('same'), the same set in
    another order ('reorder'), the previous participant's other order ('reorder_prev'), other stimuli
    ('otherset'), more ('superset') or fewer ('subset').  Each `rdmutv_<p>` is laid out in that
    participant's own order with pairwise different values; the variables are written in mixed
    order (the first `stimuli*` variable of the file is the first participant's)."""
    name, info = make_name(rng, 'C', 'mat')
    stim = stimuli(rng, n, ext_mode)
    ps = []
    while len(ps) < len(kinds) + 1:
        q = participant(rng)
        if q not in ps:
            ps.append(q)
    lists = [list(stim)]
    for what in kinds:
        if what == 'same':
            st = list(stim)
        elif what == 'reorder':
            st = _reordered(rng, stim)
        elif what == 'reorder_prev':
            st = list(lists[-1]) if lists[-1] != stim else _reordered(rng, stim)
        elif what == 'otherset':
            st = list(stim)
            for i in rng.sample(range(n), rng.randint(1, n)):
                st[i] = 'zz' + token(rng, 2, 4) + ('' if ext_mode == 'none' else '.png')
            if rng.random() < 0.5:
                rng.shuffle(st)
        elif what == 'superset':
            st = list(stim) + ['extra' + token(rng, 1, 3) + ('' if ext_mode == 'none' else '.png')]
            if rng.random() < 0.5:
                rng.shuffle(st)
        elif what == 'subset':
            st = list(stim)
            del st[rng.randrange(n)]
        else:
            raise ValueError(what)
        lists.append(st)
    utvs = [_distinct_utv(rng, len(st)) for st in lists]
    svars = [['stimuli_' + q.replace('-', '_'), {'strs': st}] for q, st in zip(ps, lists)]
    uvars = [['rdmutv_' + q.replace('-', '_'), {'nums': [u_]}] for q, u_ in zip(ps, utvs)]
    rng.shuffle(uvars)
    cut = rng.randint(0, len(uvars))
    vars_ = uvars[:cut] + svars + uvars[cut:]
    rows = [{'participant': q, 'task': info['task_name'], 'task_index': None, 'utv': u_}
            for q, st, u_ in zip(ps, lists, utvs) if st == stim]
    return {'kind': 'meadows_load', 'fname': name, 'vars': vars_, 'sort': sort, 'form': 'matN',
            'ext_mode': ext_mode, 'part_kinds': list(kinds),
            'expect': {'experiment': info['experiment_name'], 'stimuli': stim, 'rows': rows}}


MAT_SKELETON = (
    (False, 3, ['reorder']),
    (True, 3, ['reorder']),
    (True, 4, ['same', 'reorder', 'same']),
    (False, 3, ['otherset', 'same']),
    (True, 4, ['superset', 'reorder', 'subset']),
    (False, 5, ['reorder', 'reorder_prev', 'same']),
    (True, 2, ['reorder', 'same']),
    (False, 3, ['same', 'same']),
)


def gen_mat_parts(rng, k):
    for sort, n, kinds in MAT_SKELETON:
        yield mat_parts_case(rng, sort, n, kinds)
    for _ in range(10 * k):
        kinds = [rng.choice(['same', 'same', 'reorder', 'reorder', 'reorder', 'otherset', 'superset',
                             'subset', 'reorder_prev']) for _ in range(rng.randint(1, 4))]
        yield mat_parts_case(rng, rng.random() < 0.5, rng.randint(3, 6), kinds,
                             ext_mode=rng.choice(['ext', 'ext', 'ext', 'none', 'mixed']))


JSON_LATER = ['same', 'reorder', 'otherset', 'superset', 'subset', 'renamed_ext', 'nonma']


def json_tasks_case(rng, sort, n, plan, ext_mode='ext'):
    """single-participant multi-task .json whose LATER multi-arrangement tasks list
    the same stimulus set in another order ('reorder'), other stimuli of the same number
    ('otherset'), more ('superset'), fewer ('subset'), the same stems with another extension
    ('renamed_ext'), or exactly the first list ('same'); 'nonma' = a task of another type.
    Every task's `rdm` is laid out in that task's OWN stimulus order, with pairwise different
    values.  `plan` is the list of task kinds; the first 'first' entry fixes the labels."""
    name, info = make_name(rng, 'B', 'json')
    stim = stimuli(rng, n, ext_mode)
    tasks, rows = [], []
    for t, what in enumerate(plan):
        tn = token(rng)
        if what == 'nonma':
            task = {'task_type': rng.choice(['info', 'survey', 'tripletodd', None]), 'name': tn,
                    'stimuli': rng.choice([[], stim, list(reversed(stim))]),
                    'rdm': rng.choice([[], _distinct_utv(rng, n)])}
            r = rng.random()
            if r < 0.25:            # as Meadows writes an info task: no stimuli / rdm entries at all
                task.update(bare='no_stimuli', stimuli=[], rdm=[])
            elif r < 0.45:          # no 'task' entry: `task.get('task', {})`
                task.update(bare='no_meta', task_type=None)
            tasks.append(task)
            continue
        if what in ('first', 'same'):
            st = list(stim)
        elif what == 'reorder':
            st = _reordered(rng, stim)
        elif what == 'reorder_prev':    # the same (other) order as the previous arrangement task
            prev = [x for x in tasks if x['task_type'] == 'multiarrange'][-1]['stimuli']
            st = list(prev) if prev != stim else _reordered(rng, stim)
        elif what == 'otherset':
            st = list(stim)
            for i in rng.sample(range(n), rng.randint(1, n)):
                st[i] = 'zz' + token(rng, 2, 4) + '.png'
            if rng.random() < 0.5:
                rng.shuffle(st)
        elif what == 'superset':
            st = list(stim) + ['extra' + token(rng, 1, 3) + '.png']
            if rng.random() < 0.5:
                rng.shuffle(st)
        elif what == 'subset':
            st = list(stim)
            del st[rng.randrange(n)]
        elif what == 'renamed_ext':
            st = [s_.split('.')[0] + '.tif' for s_ in stim]
        else:
            raise ValueError(what)
        u = _distinct_utv(rng, len(st))
        tasks.append({'task_type': 'multiarrange', 'name': tn, 'stimuli': st, 'rdm': u})
        if st == stim:
            rows.append({'participant': info['participant'], 'task': tn, 'task_index': t, 'utv': u})
    return {'kind': 'meadows_load', 'fname': name, 'tasks': tasks, 'sort': sort, 'form': 'json',
            'ext_mode': ext_mode, 'plan': list(plan),
            # how the two arguments of load_rdms are passed
            'path_type': rng.choice(['str', 'str', 'Path']),
            'sort_type': rng.choice(['bool', 'bool', 'numpy', 'int']),
            'expect': {'experiment': info['experiment_name'], 'stimuli': stim, 'rows': rows}}


JSON_SKELETON = (
    (True, 3, ['first', 'reorder']),
    (False, 3, ['first', 'reorder']),
    (False, 4, ['first', 'nonma', 'reorder', 'same']),
    (True, 3, ['nonma', 'first', 'otherset', 'nonma', 'reorder']),
    (True, 4, ['first', 'superset', 'reorder', 'subset']),
    (False, 5, ['first', 'reorder', 'reorder', 'same']),
    (True, 3, ['first', 'otherset']),
    (False, 4, ['first', 'renamed_ext', 'nonma', 'same']),
    (True, 2, ['first', 'reorder', 'same']),
    (False, 6, ['first', 'same', 'nonma', 'reorder']),
    (False, 4, ['first', 'reorder', 'reorder_prev']),
    (True, 3, ['first', 'nonma', 'reorder', 'nonma', 'reorder_prev', 'same']),
)
JSON_ARGS = (('str', 'bool'), ('Path', 'numpy'), ('str', 'int'), ('Path', 'bool'))


def gen_json_tasks(rng, k):
    for i, (sort, n, plan) in enumerate(JSON_SKELETON):
        c = json_tasks_case(rng, sort, n, plan)
        c['path_type'], c['sort_type'] = JSON_ARGS[i % len(JSON_ARGS)]
        if i in (2, 3):        # the skeleton reaches both forms of a bare task
            for x in c['tasks']:
                if x['task_type'] != 'multiarrange':
                    x.pop('bare', None)
                    if i == 2:
                        x.update(bare='no_meta', task_type=None)
                    else:
                        x.update(bare='no_stimuli', stimuli=[], rdm=[])
        yield c
    for _ in range(10 * k):
        n_ma = rng.randint(2, 4)
        later = [rng.choice(['same', 'reorder', 'reorder', 'reorder', 'otherset', 'superset', 'subset',
                             'renamed_ext', 'reorder_prev']) for _ in range(n_ma - 1)]
        n = rng.randint(3, 6)
        plan = ['first'] + later
        out = []
        for x in plan:                     # tasks of another type before / between / after
            while rng.random() < 0.3:
                out.append('nonma')
            out.append(x)
        if rng.random() < 0.3:
            out.append('nonma')
        yield json_tasks_case(rng, rng.random() < 0.5, n, out,
                              ext_mode=rng.choice(['ext', 'ext', 'ext', 'none', 'mixed']))


def gen(rng, tier):
    k = 1 if tier == 'quick' else 25
    # --- multi-task json files with later tasks in another order / over another set (round 5)
    yield from gen_json_tasks(rng, k)
    # --- multi-participant .mat files whose participants order / choose the stimuli differently (5b)
    yield from gen_mat_parts(rng, k)
    # --- names
    for _ in range(12 * k):
        for shape in 'ABC':
            ext = rng.choice(['mat', 'json', 'mat', 'csv'])
            name, info = make_name(rng, shape, ext)
            pre = rng.choice(['', '/tmp/dl/', 'rel.dir/'])
            yield {'kind': 'meadows_name', 'fpath': pre + name, 'shape': shape, 'expect': info}
    for n in BAD_NAMES:
        yield {'kind': 'meadows_name', 'fpath': n, 'shape': 'bad'}
    # --- files: directed skeleton first (every load:* tag whatever the PRNG draws), then random
    for form, sort, n, kw in (('mat1', True, 3, {}), ('mat1', False, 2, {}),
                              ('matN', True, 4, {'n_part': 3}), ('matN', False, 2, {'n_part': 2}),
                              ('matN', True, 2, {'n_part': 1}),
                              ('json', True, 3, {'skip': True, 'mismatch': True}),
                              ('json', False, 2, {'skip': False, 'mismatch': False}),
                              # stimulus names without extension: blank-padded by loadmat
                              ('mat1', True, 4, {'ext_mode': 'none'}),
                              ('matN', True, 3, {'n_part': 2, 'ext_mode': 'mixed'}),
                              ('json', True, 3, {'ext_mode': 'none'})):
        yield load_case(rng, form, sort, n, **kw)
    for _ in range(14 * k):
        r = rng.random()
        yield load_case(rng, 'mat1' if r < 0.3 else 'matN' if r < 0.65 else 'json',
                        rng.random() < 0.6, rng.randint(2, 6),
                        ext_mode=rng.choice(['ext', 'ext', 'ext', 'none', 'mixed']))
    # --- rejected combinations
    for shape, ext, form in (('B', 'mat', 'rej_mat_multitask'), ('A', 'json', 'rej_json_single'),
                             ('C', 'json', 'rej_json_multi'), ('A', 'csv', 'rej_type')):
        name, info = make_name(rng, shape, ext)
        stim = stimuli(rng, 3)
        yield {'kind': 'meadows_load', 'fname': name, 'sort': True, 'form': form,
               'vars': [['stimuli', {'strs': stim}], ['rdmutv', {'nums': [utv(rng, 3)]}]],
               'tasks': [{'task_type': 'multiarrange', 'name': 't', 'stimuli': stim, 'rdm': utv(rng, 3)}]}
    name, info = make_name(rng, 'A', 'mat')
    yield {'kind': 'meadows_load', 'fname': name, 'sort': False, 'form': 'rej_missing_var',
           'vars': [['stimuli', {'strs': stimuli(rng, 3)}]]}
    name, info = make_name(rng, 'B', 'json')
    yield {'kind': 'meadows_load', 'fname': name, 'sort': False, 'form': 'rej_json_structure',
           'tasks': None}


def _fl(x):
    return float(F(x)) if isinstance(x, str) else float(x)


def write_file(case):
    path = os.path.join(tmpdir(), case['fname'])
    if case['fname'].endswith('.mat'):
        from scipy.io import savemat
        d = {}
        for k, v in case['vars']:
            d[k] = np.array(v['strs']) if 'strs' in v else np.array([[_fl(x) for x in r] for r in v['nums']])
        savemat(path, d)
    elif case['fname'].endswith('.json'):
        if case.get('tasks') is None:
            doc = {'tasks': 'none'}
        else:
            doc = {'token': None, 'tasks': [
                {'status': 'finished', 'task': {'name': t['name'], 'task_type': t['task_type']},
                 'stimuli': [{'id': str(i), 'name': s} for i, s in enumerate(t['stimuli'])],
                 'rdm': [_fl(x) for x in t['rdm']]} for t in case['tasks']]}
            for t, d in zip(case['tasks'], doc['tasks']):
                if t.get('bare') == 'no_meta':
                    del d['task']
                elif t.get('bare') == 'no_stimuli':
                    del d['stimuli'], d['rdm']
        with open(path, 'w', encoding='utf-8') as fh:
            json.dump(doc, fh)
    return path


def impl(case):
    from rsatoolbox.io import meadows
    if case['kind'] == 'meadows_name':
        try:
            info = meadows.extract_filename_segments(case['fpath'])
        except Exception as exc:  # noqa: BLE001
            return {'exc': type(exc).__name__}
        out = {k: info.get(k) for k in ('version', 'experiment_name', 'structure', 'filetype',
                                        'task_scope', 'participant_scope', 'participant',
                                        'task_index', 'task_name')}
        return out
    path = write_file(case)
    try:
        with warnings.catch_warnings():
            warnings.simplefilter('ignore')
            sort = case['sort']
            if case.get('sort_type') == 'numpy':
                sort = np.bool_(sort)
            elif case.get('sort_type') == 'int':
                sort = int(sort)
            if case.get('path_type') == 'Path':
                import pathlib
                path = pathlib.Path(path)
            rdms = meadows.load_rdms(path, sort=sort)
    except Exception as exc:  # noqa: BLE001
        return {'exc': type(exc).__name__}
    rd = rdms.rdm_descriptors

    def lst(x):
        return None if x is None else [v.item() if hasattr(v, 'item') else v for v in x]
    return {'experiment_name': rdms.descriptors.get('experiment_name'),
            'dissim': rdms.dissimilarities.tolist(),
            'conds': [str(c) for c in rdms.pattern_descriptors['conds']],
            'participant': lst(rd.get('participant')), 'task': lst(rd.get('task')),
            'task_index': lst(rd.get('task_index'))}


def requests(case):
    if case['kind'] == 'meadows_name':
        return [{'op': 'c20.meadows_name', 'fpath': case['fpath'], 'petnames': petnames()}]
    req = {'op': 'c20.meadows_load', 'fpath': '/dl/' + case['fname'], 'petnames': petnames(),
           'sort': case['sort'], 'vars': case.get('vars', []), 'tasks': case.get('tasks')}
    return [req]


def result(case, answers):
    a = answers[0]
    if isinstance(a, dict) and 'dissim' in a:
        a = dict(a, dissim=[[float(F(x)) for x in r] for r in a['dissim']])
    return a


def oracle_json(case, out):
    """Independent judgement of a loaded multi-task .json: the FILE is read back from disk (not the
    generator's bookkeeping) and, for every RDM of the result, the task it claims to come from
    (`task_index`) is looked up in the file.  Demanded: that task is a multi-arrangement task with
    the result's name; its stimulus set is the label set; and for every pair of labels the RDM's
    value is the file's value of that task for these two stimuli — located through the task's OWN
    stimulus order.  A later task may be skipped unless its stimulus list is exactly the first
    one's (those must be loaded); tasks over another set must not be loaded."""
    path = os.path.join(tmpdir(), case['fname'])
    with open(path, encoding='utf-8') as fh:
        doc = json.load(fh)
    tasks = doc['tasks']
    ma = [t for t, task in enumerate(tasks)
          if isinstance(task.get('task'), dict) and task['task'].get('task_type') == 'multiarrange']
    feats = {'meadows_form': 'json', 'n_tasks': len(tasks), 'n_ma_tasks': len(ma), 'sort': case['sort']}
    if not ma:
        return None
    if 'exc' in out:
        return {'what': 'supported Meadows file rejected', 'observed': out, 'expected': 'RDMs',
                'features': feats}

    def names(t):
        return [s_['name'] for s_ in tasks[t]['stimuli']]

    def stems(t):
        return [x.split('.')[0] for x in names(t)]
    first = ma[0]
    must = [t for t in ma if names(t) == names(first)]
    may = [t for t in ma if sorted(stems(t)) == sorted(stems(first))
           and len(set(stems(t))) == len(stems(t))]
    labels = sorted(stems(first)) if case['sort'] else stems(first)
    feats['n_reordered'] = len([t for t in may if names(t) != names(first)])
    if out['conds'] != labels:
        return {'what': 'stimulus labels differ from the first multi-arrangement task of the file '
                        '(or are not sorted on request)', 'observed': out['conds'], 'expected': labels,
                'features': feats}
    tix = out['task_index']
    if tix is None or out['task'] is None or not (len(tix) == len(out['task']) == len(out['dissim'])
                                                  == len(out['participant'])):
        return {'what': 'descriptors and RDMs of the json file differ in number',
                'observed': {'task_index': tix, 'task': out['task'], 'n_rdms': len(out['dissim'])},
                'expected': 'one task, task_index, participant per RDM', 'features': feats}
    if any(b <= a for a, b in zip(tix, tix[1:])) or any(t not in ma for t in tix):
        return {'what': 'task_index is not an increasing list of multi-arrangement tasks of the file',
                'observed': tix, 'expected': f'subset of {ma}', 'features': feats}
    missing = [t for t in must if t not in tix]
    if missing:
        return {'what': 'a task with exactly the first task\'s stimulus list was not loaded',
                'observed': tix, 'expected': must, 'features': feats}
    n = len(labels)
    for r, t in enumerate(tix):
        task = tasks[t]
        if out['task'][r] != task['task']['name']:
            return {'what': 'task descriptor differs from the name of the task at task_index',
                    'observed': out['task'][r], 'expected': task['task']['name'], 'features': feats}
        if t not in may:
            return {'what': 'a task over other stimuli than the labels was loaded',
                    'observed': {'task_index': t, 'stimuli': names(t)}, 'expected': 'skipped',
                    'labels': labels, 'features': feats}
        own = stems(t)                       # this task's own order
        m = len(own)
        file_map, k = {}, 0
        for i in range(m):
            for j in range(i + 1, m):
                file_map[frozenset((own[i], own[j]))] = float(task['rdm'][k])
                k += 1
        row = out['dissim'][r]
        if len(row) != n * (n - 1) // 2:
            return {'what': 'RDM has the wrong number of entries', 'observed': len(row),
                    'expected': n * (n - 1) // 2, 'features': feats}
        k = 0
        for i in range(n):
            for j in range(i + 1, n):
                want = file_map[frozenset((labels[i], labels[j]))]
                if abs(row[k] - want) > 1e-12:
                    return {'what': 'dissimilarity of a stimulus pair differs from the file\'s value for '
                                    'that pair in that task',
                            'observed': row[k], 'expected': want, 'pair': [labels[i], labels[j]],
                            'task_index': t, 'task': task['task']['name'],
                            'task_stimulus_order': own, 'labels': labels,
                            'features': dict(feats, reordered_task_loaded=names(t) != names(first))}
                k += 1
    return None


def oracle_mat_multi(case, out):
    """Independent judgement of a loaded multi-participant .mat: the FILE is read back from disk
    and every participant of the result is judged through ITS OWN `stimuli_<p>` / `rdmutv_<p>`
    pair: its stimulus set must be the label set and, for every pair of labels, the RDM's value
    must be the value the file gives that participant for these two stimuli (located through the
    participant's own order).  Participants with exactly the first list must be loaded, in file
    order; one with the same stimuli in another order may be skipped or loaded-and-correct; one
    over other stimuli must not be loaded."""
    from scipy.io import loadmat
    path = os.path.join(tmpdir(), case['fname'])
    data = loadmat(path)
    svars = [k for k in data.keys() if k.startswith('stimuli')]
    feats = {'meadows_form': 'matN', 'n_participants': len(svars), 'sort': case['sort']}
    if not svars:
        return None
    if 'exc' in out:
        return {'what': 'supported Meadows file rejected', 'observed': out, 'expected': 'RDMs',
                'features': feats}
    parts = [k.split('_', 1)[1].replace('_', '-') for k in svars]
    own = {q: [str(x).rstrip(' ').split('.')[0] for x in data[k]] for q, k in zip(parts, svars)}
    raw = {q: [str(x).rstrip(' ') for x in data[k]] for q, k in zip(parts, svars)}
    vec = {q: [float(x) for x in data['rdmutv_' + k.split('_', 1)[1]].ravel()] for q, k in zip(parts, svars)}
    first = parts[0]
    must = [q for q in parts if raw[q] == raw[first]]
    may = [q for q in parts if sorted(own[q]) == sorted(own[first]) and len(set(own[q])) == len(own[q])]
    feats['participant_stimulus_order_differs'] = any(raw[q] != raw[first] for q in may)
    labels = sorted(own[first]) if case['sort'] else own[first]
    conds = [c.rstrip(' ') for c in out['conds']]
    if conds != labels:
        return {'what': 'stimulus labels differ from the first participant\'s list (or are not sorted '
                        'on request)', 'observed': out['conds'], 'expected': labels, 'features': feats}
    got = out['participant']
    if len(got) != len(out['dissim']) or (out['task'] is not None and len(out['task']) != len(got)):
        return {'what': 'descriptors and RDMs of the .mat file differ in number',
                'observed': {'participant': got, 'n_rdms': len(out['dissim'])},
                'expected': 'one participant and task per RDM', 'features': feats}
    it = iter(parts)
    if not all(any(q == x for x in it) for q in got):
        return {'what': 'participants are not a sub-sequence of the file\'s participants',
                'observed': got, 'expected': parts, 'features': feats}
    if [q for q in must if q not in got]:
        return {'what': 'a participant with exactly the first participant\'s stimulus list was not loaded',
                'observed': got, 'expected': must, 'features': feats}
    tname = case['fname'].split('.')[0].split('_')[-2]
    n = len(labels)
    for r, q in enumerate(got):
        if out['task'] is None or out['task'][r] != tname:
            return {'what': 'task descriptor differs from the file name', 'observed': out['task'],
                    'expected': tname, 'features': feats}
        if q not in may:
            return {'what': 'a participant over other stimuli than the labels was loaded',
                    'observed': {'participant': q, 'stimuli': raw[q]}, 'expected': 'skipped',
                    'labels': labels, 'features': feats}
        o = own[q]
        file_map, k = {}, 0
        for i in range(len(o)):
            for j in range(i + 1, len(o)):
                file_map[frozenset((o[i], o[j]))] = vec[q][k]
                k += 1
        row = out['dissim'][r]
        if len(row) != n * (n - 1) // 2:
            return {'what': 'RDM has the wrong number of entries', 'observed': len(row),
                    'expected': n * (n - 1) // 2, 'features': feats}
        k = 0
        for i in range(n):
            for j in range(i + 1, n):
                want = file_map[frozenset((labels[i], labels[j]))]
                if abs(row[k] - want) > 1e-12:
                    return {'what': 'dissimilarity of a stimulus pair differs from the file\'s value for '
                                    'that pair of that participant',
                            'observed': row[k], 'expected': want, 'pair': [labels[i], labels[j]],
                            'participant': q, 'participant_stimulus_order': o, 'labels': labels,
                            'features': feats}
                k += 1
    return None


def oracle(case):
    out = impl(case)
    if case['kind'] == 'meadows_name':
        exp = case.get('expect')
        if exp is None:
            return None
        if out != exp:
            return {'what': 'file-name segments differ from the components the name was built from',
                    'observed': out, 'expected': exp, 'features': {'meadows_shape': case['shape']}}
        return None
    exp = case.get('expect')
    if exp is None:
        return None
    if case['form'] == 'json':
        bad = oracle_json(case, out)
        if bad:
            return bad
    if case['form'] == 'matN':
        bad = oracle_mat_multi(case, out)
        if bad:
            return bad
    feats = {'meadows_form': case['form'], 'n_stimuli': len(exp['stimuli']), 'n_rdms': len(exp['rows'])}
    if 'exc' in out:
        return {'what': 'supported Meadows file rejected', 'observed': out,
                'expected': 'RDMs', 'features': feats}
    stems = [s.split('.')[0] for s in exp['stimuli']]
    n = len(stems)
    if out['experiment_name'] != exp['experiment']:
        return {'what': 'experiment name differs from the file name', 'observed': out['experiment_name'],
                'expected': exp['experiment'], 'features': feats}
    want_conds = sorted(stems) if case['sort'] else stems
    if case.get('ext_mode', 'ext') != 'ext' and case['form'] in ('mat1', 'matN'):
        # a MATLAB char matrix pads its rows with blanks; for a name without extension the padding
        # stays in the label (modelled: `stem_padded`); the values must still belong to the names
        feats['padded_labels'] = any(c != c.rstrip(' ') for c in out['conds'])
        out = dict(out, conds=[c.rstrip(' ') for c in out['conds']])
    if out['conds'] != want_conds:
        return {'what': 'stimulus labels differ from the file (or are not sorted on request)',
                'observed': out['conds'], 'expected': want_conds, 'features': feats}
    if len(out['dissim']) != len(exp['rows']):
        return {'what': 'number of RDMs differs from the file', 'observed': len(out['dissim']),
                'expected': len(exp['rows']), 'features': feats}
    for r, row in enumerate(exp['rows']):
        if out['participant'][r] != row['participant']:
            return {'what': 'participant descriptor differs from the file', 'observed': out['participant'],
                    'expected': [x['participant'] for x in exp['rows']], 'features': feats}
        if row['task'] is not None and (out['task'] or [None] * (r + 1))[r] != row['task']:
            return {'what': 'task descriptor differs from the file', 'observed': out['task'],
                    'expected': [x['task'] for x in exp['rows']], 'features': feats}
        if row['task_index'] is not None and (out['task_index'] or [None] * (r + 1))[r] != row['task_index']:
            return {'what': 'task index differs from the file', 'observed': out['task_index'],
                    'expected': [x['task_index'] for x in exp['rows']], 'features': feats}
        # labelled map of the file: pair of stimulus names -> value; a row may carry its own
        # stimulus order (multi-participant .mat: one `stimuli_<participant>` variable each)
        own = [s.split('.')[0] for s in row['stimuli']] if row.get('stimuli') else stems
        if row.get('stimuli'):
            feats['participant_stimulus_order_differs'] = own != stems
        file_map, k = {}, 0
        for i in range(n):
            for j in range(i + 1, n):
                file_map[frozenset((own[i], own[j]))] = _fl(row['utv'][k])
                k += 1
        k = 0
        if len(out['dissim'][r]) != n * (n - 1) // 2:
            return {'what': 'RDM has the wrong number of entries', 'observed': len(out['dissim'][r]),
                    'expected': n * (n - 1) // 2, 'features': feats}
        for i in range(n):
            for j in range(i + 1, n):
                got = out['dissim'][r][k]
                want = file_map[frozenset((out['conds'][i], out['conds'][j]))]
                k += 1
                if abs(got - want) > 1e-12:
                    return {'what': 'dissimilarity of a stimulus pair differs from the file',
                            'observed': got, 'expected': want,
                            'pair': [out['conds'][i], out['conds'][j]], 'features': feats}
    return None


def mat_tags(case):
    """tags of a multi-participant .mat, computed from its variables"""
    lists = [v['strs'] for k_, v in case['vars'] if k_.startswith('stimuli')]
    if len(lists) < 2:
        return []
    b, first, seen = [], lists[0], False
    for prev, st in zip(lists, lists[1:]):
        if st == first:
            b.append('mat:participant-same')
            if seen:
                b.append('mat:same-after-reordered')
        elif sorted(st) == sorted(first):
            seen = True
            b.append('mat:participant-reordered')
            b.append('mat:reordered-sort' if case['sort'] else 'mat:reordered-nosort')
            if len(first) >= 3:
                b.append('mat:reordered-3plus')
            if st == prev:
                b.append('mat:reordered-repeat')
        elif len(st) != len(first):
            b.append('mat:participant-other-length')
        else:
            b.append('mat:participant-other-set')
    keys = [k_ for k_, _ in case['vars']]
    if not keys[0].startswith('stimuli'):
        b.append('mat:utv-var-first')
    return sorted(set(b))


def json_tags(case):
    """tags of a multi-task json, computed from the tasks themselves (not from the plan)"""
    ma = [(t, x) for t, x in enumerate(case['tasks']) if x['task_type'] == 'multiarrange']
    if len(ma) < 2:
        return []
    b = []
    t0, first = ma[0]
    st0 = [s.split('.')[0] for s in first['stimuli']]
    seen_reorder = False
    for t, x in ma[1:]:
        st = [s.split('.')[0] for s in x['stimuli']]
        if x['stimuli'] == first['stimuli']:
            b.append('json:task-same')
            if seen_reorder:
                b.append('json:same-after-reordered')
        elif sorted(x['stimuli']) == sorted(first['stimuli']):
            seen_reorder = True
            b.append('json:task-reordered')
            b.append('json:reordered-sort' if case['sort'] else 'json:reordered-nosort')
            if len(st0) >= 3:
                b.append('json:reordered-3plus')
        elif set(st0) < set(st):
            b.append('json:task-superset')
        elif set(st) < set(st0):
            b.append('json:task-subset')
        elif sorted(st) == sorted(st0):
            b.append('json:task-renamed-ext')
        else:
            b.append('json:task-other-set')
        if any(y['task_type'] != 'multiarrange' for y in case['tasks'][t0 + 1:t]):
            b.append('json:nonma-between')
    b.append('json:ma-tasks-%d' % min(len(ma), 4))
    for (_, x), (_, y) in zip(ma[1:], ma[2:]):
        if x['stimuli'] == y['stimuli'] != first['stimuli'] and sorted(x['stimuli']) == sorted(first['stimuli']):
            b.append('json:reordered-repeat')
    for x in case['tasks']:
        if x.get('bare'):
            b.append('json:bare-' + x['bare'])
    if case.get('path_type') == 'Path':
        b.append('json:arg-pathlib')
    if case.get('sort_type') in ('numpy', 'int'):
        b.append('json:arg-sort-' + case['sort_type'])
    return sorted(set(b))


def feats(case, impl_res):
    if case['kind'] == 'meadows_name':
        b = ['meadows:' + case['shape']]
        return {'kind': 'meadows_name', 'meadows_shape': case['shape'], 'branches': b}
    b = ['load:' + case['form']]
    if case.get('expect'):
        b.append('load:sort' if case['sort'] else 'load:nosort')
        n = len(case['expect']['stimuli'])
        if n == 2:
            b.append('load:two_stimuli')
        if case.get('ext_mode', 'ext') != 'ext':
            b.append('load:noext_json' if case['form'] == 'json' else 'load:noext_mat')
        if case['form'] == 'matN':
            b.extend(mat_tags(case))
        if case['form'] == 'json':
            if any(t['task_type'] != 'multiarrange' for t in case['tasks']):
                b.append('load:json_skip')
            if any(t['task_type'] == 'multiarrange' and t['stimuli'] != case['expect']['stimuli']
                   for t in case['tasks']):
                b.append('load:json_mismatch')
            b.extend(json_tags(case))
    return {'kind': 'meadows_load', 'meadows_form': case['form'], 'sort': case['sort'],
            'n_stimuli': len(case['expect']['stimuli']) if case.get('expect') else None,
            'n_rdms': len(case['expect']['rows']) if case.get('expect') else None,
            'branches': b}


BRANCHES = ['meadows:A', 'meadows:B', 'meadows:C', 'meadows:bad', 'load:mat1', 'load:matN',
            'load:json', 'load:sort', 'load:nosort', 'load:rej_mat_multitask',
            'load:rej_json_single', 'load:rej_json_multi', 'load:rej_type',
            'load:rej_missing_var', 'load:rej_json_structure', 'load:two_stimuli',
            'load:json_skip', 'load:json_mismatch', 'load:noext_mat', 'load:noext_json',
            # round 5: later multi-arrangement tasks of a json in another order / over another set
            'json:task-reordered', 'json:task-other-set', 'json:task-superset', 'json:task-subset',
            'json:task-same', 'json:task-renamed-ext', 'json:same-after-reordered',
            'json:reordered-sort', 'json:reordered-nosort', 'json:reordered-3plus',
            'json:nonma-between', 'json:ma-tasks-2', 'json:ma-tasks-3', 'json:ma-tasks-4',
            'json:reordered-repeat', 'json:bare-no_meta', 'json:bare-no_stimuli', 'json:arg-pathlib',
            'json:arg-sort-numpy', 'json:arg-sort-int',
            # round 5b: participants of a multi-participant .mat with their own stimulus lists
            'mat:participant-reordered', 'mat:participant-other-set', 'mat:participant-other-length',
            'mat:participant-same', 'mat:same-after-reordered', 'mat:reordered-sort',
            'mat:reordered-nosort', 'mat:reordered-3plus', 'mat:reordered-repeat', 'mat:utv-var-first']
