"""C02 — cross-validated distances are the mean of between-fold products only.

Engine interface (see harness/run_check.py):
  THEOREMS, LEVEL, RULE, BRANCHES, generate, run_impl, model_requests, model_result,
  compare, oracle, features, nontrivial_key, search, shrink

A *case* is the literal input of one call of the real code

  method        'crossnobis' | 'poisson_cv'
  via           'calc_rdm' (rsatoolbox.rdm.calc_rdm(method=…)) | 'direct' (calc_rdm_crossnobis / _poisson_cv)
  ckind/fkind   label type of the condition / fold descriptor: 'int' | 'str' | 'rat' (python float)
  cond, fold    one label per observation; fold None = default descriptor
  x             observations x channels, exact numbers ("p/q" or int; all dyadic)
  P             number of channels
  noise_kind    'none' | 'matrix' | 'list';  noise: matrix / list of matrices (integers), the
                list aligned with the *sorted* distinct fold labels (the API's convention)
  noise_container  how a per-fold precision list is handed over: 'list' | 'dict' (keys 0..M-1) |
                'array3d';  noise_kind 'scalar' / 'badshape' = malformed precision (rejected)
  descriptor    False = the call passes descriptor=None (rejected)
  parts         list input: `calc_rdm([ds_1, ds_2, …], …)`; every part is a complete case of its
                own dataset (same conditions), `dslist_noise` 'none' | 'matrix' | 'per_dataset'
  remove_mean, prior_lambda, prior_weight, extra (a second obs descriptor and a vector-valued
                dataset descriptor)
  desc_container 'list' | 'array': obs descriptors handed to Dataset as python lists or numpy arrays
  layout        'c' | 'int' (integer dtype, only when all values are integers) | 'fortran' |
                'strided' (non-contiguous view of a wider array): dtype / memory layout of the measurements
  noise_dtype   'float' | 'int': dtype of the precision array(s)
  ds_container  (dataset lists) 'list' | 'tuple' | 'generator'
  dslist_noise  'none' | 'matrix' | 'per_dataset' | 'per_dataset_array3d' (one 3-D array, one matrix per
                dataset) | 'per_dataset_per_fold' (list over datasets of lists over folds)
  kind          absent = one call; 'session' = ONE Dataset object analysed by several successive calls
                (round 4, format in engines/C02_session.py): every call is judged as the stand-alone
                call on a pristine copy of the case's ORIGINAL numbers, the dataset and the precision
                objects must be bit-identical after every call, earlier results must not change later
  view          None or a re-presentation of the same data under which the property says the
                result is invariant: {'rows': permutation, 'fold_map': [[old, new] …] | None,
                'chan': permutation | None}; the real code is run on the case *and* on the
                viewed case, both are compared with the one model answer.
"""
import itertools
import json
import math
import os
import subprocess
import sys
from fractions import Fraction as F

import numpy as np

from lean import rat, unrat, fbits, unfbits, close
from engines import C02_session as SES

PROPERTY = 'C02'
LEVEL = 'proof'
_P = 'Rsa.Props.C02.'
THEOREMS = [_P + n for n in (
    'train_mean_eq_mean_of_fold_means',
    'lofo_eq_pair_average',
    'crossnobis_eq_pair_average',
    'crossnobis_identity_precision',
    'crossnobis_foldprec_eq',
    'poissoncv_eq_pair_average',
    'poissoncv_lastfold_closed',
    'no_within_fold_product',
    'cv_obs_perm',
    'cv_obs_perm_estimators',
    'cv_fold_relabel',
    'cv_fold_relabel_estimators',
    'cv_channel_perm',
    'cv_channel_perm_foldprec',
    'crossnobis_foldprec_certified',
    'cv_channel_perm_foldprec_certified',
    'certInv_is_inverse',
    'poissoncv_lastfold_ne_spec',
    'cv_labels_from_descriptor',
    'defaultCv_balanced',
    'defaultCv_dataset_balanced',
    'defaultCv_rejects_unbalanced',
    'leaf_entry_formula',
    'leaf_fold_average',
    'leaf_prior_regularisation',
    'leaf_counts_ok',
    'leaf_channel_norm',
    'leaf_poisson_fold_mean',
    'leaf_pair_cov',
    'leaf_kernel_summand',
    'leaf_centre',
    'leaf_fold_loops',
    'leaf_pair_loop',
    'pairsOf_eq_loopPairs',
    'leaf_fold_selectors',
    # round 4: reuse sessions (memory model of one call, induction over the step list)
    'leaf_no_input_writes',
    'call_keeps_content',
    'session_calls_independent',
    'session_content_is_sorts_only',
    'session_objects_independent',
    'session_call_value',
)]
RULE = ('cases come from one PRNG: fold-balanced designs with 2-5 conditions x 2-5 folds x 1-3 '
        'repetitions x 1-5 channels (plus a many-fold stream with 11-12 folds and a malformed '
        'stream: unequal counts under the default fold descriptor, descriptor=None, precision of wrong '
        'type or shape; a list-of-datasets stream through calc_rdm), rows shuffled, condition '
        'and fold labels int / str / float, explicit or default fold descriptor, precision none / '
        'one matrix (SPD or non-symmetric) / one SPD per fold, remove_mean, crossnobis (exact '
        'rationals) or poisson_cv (doubles), called through calc_rdm or directly; every case is also '
        're-presented (rows permuted, folds relabelled, channels permuted with the precision) and '
        'both presentations are compared with the same model answer. Reuse sessions (about 12 %, plus 11 '
        'fixed recipes at the start): ONE Dataset object (float64 C / Fortran / strided, int64) with two '
        'condition descriptors and a fold descriptor, 2-4 successive calc_rdm / calc_rdm_crossnobis / '
        'calc_rdm_poisson_cv calls with changing options (remove_mean first then without, precision none / '
        'matrix / per-fold list as the SAME objects or other ones, default then explicit folds, other '
        'descriptor, other method) and optionally a user ds.sort_by in between; every call is compared '
        'with the model answer of the stand-alone call on the original numbers, the dataset and all '
        'precision objects must be bit-identical after every call, results read again at the end. '
        'A case is non-trivial when '
        'some dissimilarity is non-zero; distinct = distinct (method, design, values, precision, flags)')
BRANCHES = ['crossnobis:noise_none', 'crossnobis:noise_matrix', 'crossnobis:noise_list',
            'poisson_cv', 'cv:default', 'cv:explicit', 'remove_mean', 'labels:int', 'labels:str',
            'labels:rat', 'foldlabels:str', 'reject:unbalanced_default', 'via:calc_rdm', 'via:direct',
            'reps>1', 'folds>=11', 'view:rows', 'view:fold_map', 'view:chan', 'nonsym_precision',
            'reject:no_descriptor', 'reject:noise_type', 'reject:noise_shape',
            'noise_container:dict', 'noise_container:array3d',
            'input:dataset_list', 'dslist:noise_none', 'dslist:noise_matrix', 'dslist:noise_per_dataset',
            'dslist:noise_per_dataset_array3d', 'dslist:noise_per_dataset_per_fold',
            'dslist:tuple', 'dslist:generator', 'desc:array', 'layout:int', 'layout:fortran',
            'layout:strided', 'noise_dtype:int', 'labels:bool'] + SES.REQUIRED
ASSUMPTIONS = [
    'float64 evaluation (numpy on the implementation side, Lean Float / exact Rat on the model side) '
    'agrees within rtol 1e-9 / atol 1e-9 on the small dyadic inputs used',
    'np.linalg.inv returns the inverse (contract A·inv A = 1; the model uses exact Gauss-Jordan)',
]
TRUSTED_EXTRA = ['np.linalg.inv contract for the per-fold-precision branch; np.log = Float.log within tolerance']

RTOL, ATOL = 1e-9, 1e-9
STR_POOL = ['a', 'b', 'B', 'Z', 'c1', 'c10', 'c9', '10', '9', '2', 'face', 'house', 'x', 'y', 'ab', 'abc',
            'é', 'ä', 'K', 'k', 'run', 'z', '0', '1']


# ------------------------------------------------------------------ generation

def _labels(rng, kind, n):
    if kind == 'bool':
        return rng.sample([False, True], n)
    if kind == 'int':
        return rng.sample(range(-12, 130), n)
    if kind == 'str':
        return rng.sample(STR_POOL, n)
    return [float(F(v, 4)) for v in rng.sample(range(-20, 60), n)]


def _spd(rng, p):
    a = [[rng.randint(-2, 2) for _ in range(p)] for _ in range(p)]
    return [[sum(a[k][i] * a[k][j] for k in range(p)) + (1 if i == j else 0) for j in range(p)]
            for i in range(p)]


def _nonsym(rng, p):
    return [[rng.randint(-3, 3) + (4 if i == j else 0) for j in range(p)] for i in range(p)]


def _value(rng, method, fine):
    if method == 'poisson_cv':
        return F(rng.randint(0, 80), 8) if fine else F(rng.randint(0, 12))
    return F(rng.randint(-40, 40), 8) if fine else F(rng.randint(-6, 6))


def _mk_view(rng, case):
    n = len(case['cond'])
    view = {'rows': list(range(n)), 'fold_map': None, 'chan': None}
    if case['fold'] is not None:
        rng.shuffle(view['rows'])
        if rng.random() < 0.7:
            olds = sorted(set(case['fold']))
            news = _labels(rng, case['fkind'], len(olds))
            view['fold_map'] = [[o, nw] for o, nw in zip(olds, news)]
    else:
        # default folds are defined by the order within a condition: only interleave
        by = {}
        for i, c in enumerate(case['cond']):
            by.setdefault(json.dumps(c), []).append(i)
        slots = [k for k, v in by.items() for _ in v]
        rng.shuffle(slots)
        its = {k: iter(v) for k, v in by.items()}
        view['rows'] = [next(its[k]) for k in slots]
    if case['P'] > 1 and rng.random() < 0.7:
        ch = list(range(case['P']))
        rng.shuffle(ch)
        view['chan'] = ch
    return view


def make_case(rng, n_cond=None, n_fold=None, n_rep=None, n_chan=None, method=None,
              default_cv=None, ckind=None, noise_kind=None, unbalanced=False):
    method = method or rng.choice(['crossnobis', 'crossnobis', 'poisson_cv'])
    if ckind is None and n_cond in (None, 2) and rng.random() < 0.05:
        ckind, n_cond = 'bool', 2
    C = n_cond or rng.randint(2, 5)
    M = n_fold or rng.randint(2, 5)
    R = n_rep or rng.choice([1, 1, 2, 3])
    P = n_chan or rng.randint(1, 5)
    ckind = ckind or rng.choice(['int', 'str', 'rat'])
    fkind = rng.choice(['int', 'str', 'rat'])
    default_cv = (rng.random() < 0.35) if default_cv is None else default_cv
    if default_cv:
        R = 1        # default descriptor: every occurrence is its own fold
    conds = _labels(rng, ckind, C)
    folds = _labels(rng, fkind, M)
    fine = rng.random() < 0.5
    cond, fold, x = [], [], []
    for c in conds:
        for f in folds:
            for _ in range(R):
                cond.append(c)
                fold.append(f)
                x.append([rat(_value(rng, method, fine)) for _ in range(P)])
    if unbalanced:
        k = rng.randrange(len(cond))
        del cond[k], fold[k], x[k]
    order = list(range(len(cond)))
    rng.shuffle(order)
    cond = [cond[i] for i in order]
    fold = [fold[i] for i in order]
    x = [x[i] for i in order]
    case = {'method': method, 'via': rng.choice(['calc_rdm', 'direct']), 'ckind': ckind, 'fkind': fkind,
            'cond': cond, 'fold': None if default_cv else fold, 'x': x, 'P': P,
            'noise_kind': 'none', 'noise': None, 'remove_mean': False,
            'prior_lambda': 1.0, 'prior_weight': 0.1, 'extra': rng.random() < 0.3, 'view': None,
            'descriptor': True, 'noise_container': 'list',
            'desc_container': rng.choice(['list', 'list', 'array']),
            'layout': rng.choice(['c', 'c', 'int', 'fortran', 'strided']),
            'noise_dtype': rng.choice(['float', 'float', 'int'])}
    if case['layout'] == 'int' and any(not isinstance(v, int) for row in x for v in row):
        case['layout'] = 'c'
    if method == 'crossnobis':
        nk = noise_kind or rng.choice(['none', 'matrix', 'matrix', 'list', 'list'])
        case['noise_kind'] = nk
        if nk == 'matrix':
            case['noise'] = _nonsym(rng, P) if rng.random() < 0.3 else _spd(rng, P)
        elif nk == 'list':
            case['noise'] = [_spd(rng, P) for _ in range(M)]
            case['noise_container'] = rng.choice(['list', 'list', 'dict', 'array3d'])
        case['remove_mean'] = rng.random() < 0.4
    else:
        case['prior_lambda'] = rng.choice([1.0, 0.5, 2.0, 1.0])
        case['prior_weight'] = rng.choice([0.1, 0.25, 1.0, 0.1])
        case['remove_mean'] = rng.random() < 0.15 and case['via'] == 'calc_rdm'
    if not unbalanced and rng.random() < 0.8:
        case['view'] = _mk_view(rng, case)
    return case


def make_malformed(rng, kind=None):
    """arguments the code refuses before looking at the data"""
    kind = kind or rng.choice(['no_descriptor', 'noise_type', 'noise_shape'])
    c = make_case(rng, method=None if kind == 'no_descriptor' else 'crossnobis', default_cv=False)
    c['view'] = None
    if kind == 'no_descriptor':
        c['descriptor'] = False
    elif kind == 'noise_type':
        c['noise_kind'], c['noise'] = 'scalar', 3
    else:
        bad = _spd(rng, c['P'] + 1)
        if c['noise_kind'] == 'list':
            c['noise'] = list(c['noise'])
            c['noise'][rng.randrange(len(c['noise']))] = bad
        else:
            c['noise_kind'], c['noise'] = 'matrix', bad
    return c


def make_dslist(rng, noise=None):
    """calc_rdm on a list of datasets: one RDM per dataset, same conditions"""
    method = 'crossnobis' if noise else rng.choice(['crossnobis', 'crossnobis', 'poisson_cv'])
    C, P = rng.randint(2, 4), rng.randint(1, 3)
    ckind = rng.choice(['int', 'str', 'rat'])
    default_cv = rng.random() < 0.3
    conds = _labels(rng, ckind, C)
    n = rng.randint(2, 3)
    parts = []
    for _ in range(n):
        p = make_case(rng, n_cond=C, n_chan=P, method=method, default_cv=default_cv, ckind=ckind,
                      noise_kind='none')
        # same condition labels in every dataset
        old = sorted(set(p['cond']))
        ren = dict(zip(map(json.dumps, old), rng.sample(conds, C)))
        p['cond'] = [ren[json.dumps(c)] for c in p['cond']]
        p['view'], p['extra'], p['via'] = None, False, 'calc_rdm'
        parts.append(p)
    top = dict(parts[0])
    top['parts'] = parts
    top['dslist_noise'] = 'none'
    top['ds_container'] = rng.choice(['list', 'list', 'tuple', 'generator'])
    for k in ('remove_mean', 'prior_lambda', 'prior_weight'):
        for p in parts:
            p[k] = top[k]
    if method == 'crossnobis':
        top['dslist_noise'] = noise or rng.choice(['none', 'matrix', 'per_dataset', 'per_dataset_array3d',
                                                   'per_dataset_per_fold'])
        if top['dslist_noise'] == 'matrix':
            N = _spd(rng, P)
            for p in parts:
                p['noise_kind'], p['noise'] = 'matrix', N
        elif top['dslist_noise'] in ('per_dataset', 'per_dataset_array3d'):
            for p in parts:
                p['noise_kind'], p['noise'] = 'matrix', _spd(rng, P)
        elif top['dslist_noise'] == 'per_dataset_per_fold':
            for p in parts:
                m = len(set(p['fold'])) if p['fold'] is not None else p['cond'].count(p['cond'][0])
                p['noise_kind'], p['noise'] = 'list', [_spd(rng, P) for _ in range(m)]
    return top


def generate(rng, tier):
    n = 252 if tier == 'quick' else 9000
    # reuse sessions first: state that survives a call also leaks into later *cases* of the same
    # process; a session reproduces it inside one case (so its replay fails on its own)
    for recipe, layout in SES.FIXED:
        yield SES.gen_session(rng, _labels, _spd, _nonsym, recipe=recipe, layout=layout)
    for k, recipe in enumerate(SES.TWIN_FIXED):       # two objects that collide on every coarse key
        for _ in range(20):
            c = SES.gen_session(rng, _labels, _spd, _nonsym, recipe=recipe, twin=True)
            if c['twin']['kind'] == ('merge' if k % 2 == 0 else 'regroup'):
                break
        yield c
    # a few fixed-shape cases first so that every branch is reached whatever the seed
    yield make_case(rng, method='poisson_cv', default_cv=False)
    yield make_case(rng, method='poisson_cv', default_cv=True)
    for nk in ('none', 'matrix', 'list'):
        yield make_case(rng, method='crossnobis', noise_kind=nk, default_cv=False, n_rep=2)
        yield make_case(rng, method='crossnobis', noise_kind=nk, default_cv=True)
    for kind in ('no_descriptor', 'noise_type', 'noise_shape'):
        yield make_malformed(rng, kind)
    for nz in ('none', 'matrix', 'per_dataset', 'per_dataset_array3d', 'per_dataset_per_fold'):
        yield make_dslist(rng, nz)
    for cont in ('tuple', 'generator'):
        c = make_dslist(rng)
        c['ds_container'] = cont
        yield c
    for key, val in (('desc_container', 'array'), ('layout', 'int'), ('layout', 'fortran'),
                     ('layout', 'strided'), ('noise_dtype', 'int')):
        c = make_case(rng, method='crossnobis', noise_kind='matrix', default_cv=False)
        c[key] = val
        if key == 'layout' and val == 'int':
            c['x'] = [[int(round(float(unrat(v)))) for v in row] for row in c['x']]
        yield c
    yield make_case(rng, n_cond=2, ckind='bool', default_cv=False)
    yield make_case(rng, n_cond=2, ckind='bool', default_cv=True, n_fold=3)
    for cont in ('dict', 'array3d'):
        c = make_case(rng, method='crossnobis', noise_kind='list', default_cv=False)
        c['noise_container'] = cont
        yield c
    for i in range(n):
        u = rng.random()
        if u < 0.06:
            # many folds: 11-12 (default descriptor numbering beyond one digit)
            yield make_case(rng, n_cond=rng.randint(2, 3), n_fold=rng.randint(11, 12), n_rep=1,
                            n_chan=rng.randint(1, 2), default_cv=rng.random() < 0.7,
                            ckind=rng.choice(['int', 'str', 'rat']),
                            noise_kind=rng.choice(['none', 'matrix']))
        elif u < 0.12:
            yield make_case(rng, default_cv=True, unbalanced=True)
        elif u < 0.17:
            yield make_malformed(rng)
        elif u < 0.25:
            yield make_dslist(rng)
        elif u < 0.37:
            yield SES.gen_session(rng, _labels, _spd, _nonsym, twin=rng.random() < 0.3)
        else:
            yield make_case(rng)


def search(rng, tier):
    """failing-input search: the fixed session recipes, then every second case a random session"""
    for k, c in enumerate(generate(rng, 'thorough')):
        yield c
        if k >= len(SES.FIXED) and k % 2 == 0:
            yield SES.gen_session(rng, _labels, _spd, _nonsym, twin=rng.random() < 0.5)


# ------------------------------------------------------------------ the real code

def _apply_view(case):
    """the same data re-presented: rows permuted, folds relabelled (precision list re-aligned
    with the new sorted fold labels), channels permuted together with the precision"""
    v = case['view']
    c = dict(case)
    idx = v['rows']
    c['cond'] = [case['cond'][i] for i in idx]
    c['x'] = [case['x'][i] for i in idx]
    if case['fold'] is not None:
        fold = [case['fold'][i] for i in idx]
        if v['fold_map']:
            olds = [o for o, _ in v['fold_map']]
            news = [nw for _, nw in v['fold_map']]
            fold = [news[olds.index(f)] for f in fold]
            if case['noise_kind'] == 'list':
                sorted_old = sorted(set(case['fold']))
                c['noise'] = [case['noise'][sorted_old.index(olds[news.index(nw)])]
                              for nw in sorted(news)]
        c['fold'] = fold
    if v['chan']:
        ch = v['chan']
        c['x'] = [[row[k] for k in ch] for row in c['x']]

        def pm(m):
            return [[m[a][b] for b in ch] for a in ch]
        if c['noise_kind'] == 'matrix':
            c['noise'] = pm(c['noise'])
        elif c['noise_kind'] == 'list':
            c['noise'] = [pm(m) for m in c['noise']]
    c['view'] = None
    return c


def _plain(v):
    if isinstance(v, (np.bool_, bool)):
        return bool(v)
    if isinstance(v, (np.integer,)):
        return int(v)
    if isinstance(v, (np.floating,)):
        return float(v)
    if isinstance(v, (np.str_, str)):
        return str(v)
    return v


def _measurements(case):
    """the measurement array in the dtype / memory layout the case asks for (same values)"""
    X = np.array([[float(unrat(v)) for v in row] for row in case['x']], dtype=float)
    layout = case.get('layout', 'c')
    if layout == 'int' and np.all(X == np.round(X)):
        return X.astype(np.int64)
    if layout == 'fortran':
        return np.asfortranarray(X)
    if layout == 'strided':
        wide = np.full((X.shape[0], 2 * X.shape[1] + 1), 77.0)
        wide[:, 1::2] = X
        return wide[:, 1::2]                   # non-contiguous view
    return X


def _descriptor(case, values):
    return np.array(values) if case.get('desc_container', 'list') == 'array' else list(values)


def _noise_array(case, m):
    return np.array(m, dtype=int if case.get('noise_dtype', 'float') == 'int' else float)


def _noise_arg(case):
    noise = None
    if case['noise_kind'] in ('matrix', 'badshape'):
        noise = _noise_array(case, case['noise'])
    elif case['noise_kind'] == 'scalar':
        noise = float(case['noise'])
    elif case['noise_kind'] == 'list':
        noise = [_noise_array(case, m) for m in case['noise']]
        cont = case.get('noise_container', 'list')
        if cont == 'dict':
            noise = dict(enumerate(noise))
        elif cont == 'array3d' and len({m.shape for m in noise}) == 1:
            noise = np.array(noise)
    return noise


def _call(case):
    """run rsatoolbox on exactly this input; canonical result"""
    from rsatoolbox.data import Dataset
    from rsatoolbox.rdm import calc as rcalc
    X = _measurements(case)
    obs = {'cond': _descriptor(case, case['cond'])}
    if case['fold'] is not None:
        obs['fold'] = _descriptor(case, case['fold'])
    if case['extra']:
        obs['family'] = ['g' + str(_plain(c)) for c in case['cond']]
    dsc = {'subj': 's1'}
    if case['extra']:
        dsc['params'] = [1.5, 2.5, 3.5]        # vector-valued dataset descriptor
    ds = Dataset(X, descriptors=dsc, obs_descriptors=obs)
    cv = 'fold' if case['fold'] is not None else None
    noise = _noise_arg(case)
    if case.get('parts'):
        return _call_list(case)
    dname = 'cond' if case.get('descriptor', True) else None
    try:
        if case['method'] == 'crossnobis':
            if case['via'] == 'calc_rdm':
                r = rcalc.calc_rdm(ds, method='crossnobis', descriptor=dname, noise=noise,
                                   cv_descriptor=cv, remove_mean=case['remove_mean'])
            else:
                r = rcalc.calc_rdm_crossnobis(ds, dname, noise=noise, cv_descriptor=cv,
                                              remove_mean=case['remove_mean'])
        else:
            if case['via'] == 'calc_rdm':
                r = rcalc.calc_rdm(ds, method='poisson_cv', descriptor=dname, cv_descriptor=cv,
                                   prior_lambda=case['prior_lambda'], prior_weight=case['prior_weight'],
                                   remove_mean=case['remove_mean'])
            else:
                r = rcalc.calc_rdm_poisson_cv(ds, dname, prior_lambda=case['prior_lambda'],
                                              prior_weight=case['prior_weight'], cv_descriptor=cv)
    except Exception as exc:      # noqa: BLE001  any library exception is a result, never a harness crash
        name = type(exc).__name__
        return {'exc': name if name in ('ValueError', 'TypeError', 'AssertionError') else 'other'}
    return _canon(r, 'cond')


def _canon(r, dname):
    """canonical form of a returned one-RDM object: labelled pairs with their values"""
    if r.dissimilarities.shape[0] != 1 or dname not in r.pattern_descriptors:
        return {'exc': 'malformed', 'shape': list(r.dissimilarities.shape)}
    labels = [_plain(v) for v in r.pattern_descriptors[dname]]
    vec = [float(v) for v in r.dissimilarities[0]]
    pairs = list(itertools.combinations(labels, 2))
    if len(pairs) != len(vec):
        return {'exc': 'malformed', 'n_labels': len(labels), 'n_values': len(vec)}
    return {'pairs': [[a, b, v] for (a, b), v in zip(pairs, vec)]}


def _call_list(case):
    """calc_rdm([ds_1, …]): one canonical result per RDM of the returned stack"""
    from rsatoolbox.data import Dataset
    from rsatoolbox.rdm import calc as rcalc
    dss = []
    for p in case['parts']:
        X = _measurements(p)
        obs = {'cond': _descriptor(p, p['cond'])}
        if p['fold'] is not None:
            obs['fold'] = _descriptor(p, p['fold'])
        dss.append(Dataset(X, descriptors={'subj': 's1'}, obs_descriptors=obs))
    cv = 'fold' if case['fold'] is not None else None
    noise = None
    if case['dslist_noise'] == 'matrix':
        noise = _noise_arg(case['parts'][0])
    elif case['dslist_noise'] == 'per_dataset':
        noise = [_noise_arg(p) for p in case['parts']]
    elif case['dslist_noise'] == 'per_dataset_array3d':
        noise = np.array([_noise_arg(p) for p in case['parts']])     # (n_datasets, P, P)
    elif case['dslist_noise'] == 'per_dataset_per_fold':
        noise = [_noise_arg(p) for p in case['parts']]               # list of lists of matrices
    cont = case.get('ds_container', 'list')
    if cont == 'tuple':
        dss = tuple(dss)
    elif cont == 'generator':
        dss = (d for d in list(dss))
    n_ds = len(case['parts'])
    try:
        r = rcalc.calc_rdm(dss, method=case['method'], descriptor='cond', noise=noise, cv_descriptor=cv,
                           prior_lambda=case['prior_lambda'], prior_weight=case['prior_weight'],
                           remove_mean=case['remove_mean'])
    except Exception as exc:      # noqa: BLE001  any library exception is a result, never a harness crash
        name = type(exc).__name__
        return {'exc': name if name in ('ValueError', 'TypeError', 'AssertionError') else 'other'}
    if r.dissimilarities.shape[0] != n_ds or 'cond' not in r.pattern_descriptors:
        return {'exc': 'malformed', 'shape': list(r.dissimilarities.shape)}
    labels = [_plain(v) for v in r.pattern_descriptors['cond']]
    pairs = list(itertools.combinations(labels, 2))
    if len(pairs) != r.dissimilarities.shape[1]:
        return {'exc': 'malformed', 'n_labels': len(labels), 'n_values': int(r.dissimilarities.shape[1])}
    return {'rdms': [{'pairs': [[a, b, float(v)] for (a, b), v in zip(pairs, row)]}
                     for row in r.dissimilarities]}


def run_impl(case):
    # every object handed to the library is built here from the case's JSON (fresh lists / arrays per
    # call, nothing shared between cases or between a case and its view); the JSON itself must come
    # back untouched
    frozen = json.dumps(case, sort_keys=True)
    with np.errstate(all='ignore'):
        import warnings
        with warnings.catch_warnings():
            warnings.simplefilter('ignore')
            if case.get('kind') == 'session':
                res = SES.run_session(case, _measurements, _descriptor, _noise_array, _plain, _canon)
            else:
                res = {'main': _call(case), 'variant': None}
                if case.get('view'):
                    res['variant'] = _call(_apply_view(case))
    if json.dumps(case, sort_keys=True) != frozen:
        raise RuntimeError('harness: the case description was modified while running the library')
    return res


# ------------------------------------------------------------------ the model

def _enc_label(kind, v):
    if kind == 'rat':
        return rat(F(v))
    if kind == 'bool':
        return int(v)          # np.unique orders False < True like 0 < 1
    return v


def _dec_label(kind, v):
    if kind == 'rat':
        return float(unrat(v))
    if kind == 'bool':
        return bool(v)
    return v


def _request(case, what):
    r = {'ckind': 'int' if case['ckind'] == 'bool' else case['ckind'], 'fkind': case['fkind'],
         'P': case['P'], 'what': what,
         'descriptor': bool(case.get('descriptor', True)),
         'cond': [_enc_label(case['ckind'], c) for c in case['cond']],
         'fold': None if case['fold'] is None else [_enc_label(case['fkind'], f) for f in case['fold']]}
    if case['method'] == 'crossnobis':
        r['op'] = 'c02.crossnobis'
        r['x'] = case['x']
        r['noise_kind'] = 'matrix' if case['noise_kind'] == 'badshape' else case['noise_kind']
        r['noise'] = case['noise']
        r['remove_mean'] = case['remove_mean']
    else:
        r['op'] = 'c02.poisson_cv'
        r['x'] = [[fbits(float(unrat(v))) for v in row] for row in case['x']]
        r['prior_lambda'] = fbits(case['prior_lambda'])
        r['prior_weight'] = fbits(case['prior_weight'])
    return r


def model_requests(case):
    if case.get('kind') == 'session':
        # the model is a function of the call's input alone: every call of a session is asked as the
        # stand-alone call on the original numbers (Props `session_calls_independent`)
        return [_request(SES.step_case(case, i), w) for i in SES.calls_of(case) for w in ('algo', 'spec')]
    if case.get('parts'):
        return [_request(p, w) for p in case['parts'] for w in ('algo', 'spec')]
    return [_request(case, 'algo'), _request(case, 'spec')]


def _dec_answer(case, ans):
    if isinstance(ans, dict) and 'reject' in ans:
        return {'exc': {'unbalanced': 'AssertionError', 'noise_shape': 'AssertionError',
                        'noise_type': 'ValueError', 'no_descriptor': 'ValueError'}.get(ans['reject'], 'other')}
    if not isinstance(ans, dict) or 'pairs' not in ans:
        return {'model_error': ans}
    num = (lambda v: float(unrat(v))) if case['method'] == 'crossnobis' else unfbits
    return {'pairs': [[_dec_label(case['ckind'], a), _dec_label(case['ckind'], b), num(v)]
                      for a, b, v in ans['pairs']]}


def model_result(case, answers):
    if case.get('kind') == 'session':
        out = {}
        for k, i in enumerate(SES.calls_of(case)):
            sub = SES.step_case(case, i)
            out[str(i)] = {'algo': _dec_answer(sub, answers[2 * k]), 'spec': _dec_answer(sub, answers[2 * k + 1])}
        return {'steps': out}
    if case.get('parts'):
        return {'parts': [{'algo': _dec_answer(p, answers[2 * k]), 'spec': _dec_answer(p, answers[2 * k + 1])}
                          for k, p in enumerate(case['parts'])]}
    return {'algo': _dec_answer(case, answers[0]), 'spec': _dec_answer(case, answers[1])}


def _diff(tag, got, want):
    if 'model_error' in want:
        return f'model error {want}'
    if 'exc' in got or 'exc' in want:
        return None if got.get('exc') == want.get('exc') else f'{tag}: {got} != model {want}'
    if [p[:2] for p in got['pairs']] != [p[:2] for p in want['pairs']]:
        return (f'{tag}: labelled pairs {[p[:2] for p in got["pairs"]]} != model '
                f'{[p[:2] for p in want["pairs"]]}')
    for g, w in zip(got['pairs'], want['pairs']):
        if not close(g[2], w[2], RTOL, ATOL):
            return f'{tag}: pair {g[:2]} value {g[2]!r} != model {w[2]!r}'
    return None


def compare(case, impl, model):
    if case.get('kind') == 'session':
        for i, st in enumerate(impl['steps']):
            if st['t'] == 'sort':
                if st['ok']:
                    return f'session step {i + 1} (ds.sort_by): {st["ok"]}'
                continue
            m = model['steps'][str(i)]
            tag = f'session step {i + 1} of {len(impl["steps"])}'
            d = None
            if 'exc' not in m['algo']:
                d = _diff(tag + ': model algo vs model spec', m['algo'], m['spec'])
            d = d or _diff(tag + ': impl', st['res'], m['algo'])
            if d:
                return d
            if st['mutated']:
                return f'{tag}: input not bit-identical after the call: {st["mutated"]}'
        if impl.get('late'):
            return 'session: ' + impl['late']
        return None
    if case.get('parts'):
        got = impl['main']
        if 'exc' in got:
            return f'impl (dataset list): {got}'
        for k, (g, m) in enumerate(zip(got['rdms'], model['parts'])):
            d = _diff(f'model algo vs model spec (dataset {k})', m['algo'], m['spec']) \
                or _diff(f'impl RDM {k} of the dataset list', g, m['algo'])
            if d:
                return d
        return None
    # model-internal: algorithm as coded = statement (what the theorems prove)
    if 'exc' not in model['algo']:
        d = _diff('model algo vs model spec', model['algo'], model['spec'])
        if d:
            return d
    d = _diff('impl', impl['main'], model['algo'])
    if d:
        return d
    if impl.get('variant') is not None:
        d = _diff('impl on re-presented data (' + _view_tag(case) + ')', impl['variant'], model['algo'])
        if d:
            return d
    return None


def _view_tag(case):
    v = case.get('view') or {}
    return ','.join(k for k in ('rows', 'fold_map', 'chan') if v.get(k))


# ------------------------------------------------------------------ features

def _design(case):
    conds = sorted(set(case['cond']))
    if case['fold'] is None:
        counts = {c: case['cond'].count(c) for c in conds}
        n_fold = max(counts.values()) if counts else 0
        balanced = len(set(counts.values())) <= 1
        reps = 1
    else:
        folds = sorted(set(case['fold']))
        cells = {}
        for c, f in zip(case['cond'], case['fold']):
            cells[(c, f)] = cells.get((c, f), 0) + 1
        n_fold = len(folds)
        balanced = len(cells) == len(conds) * n_fold and len(set(cells.values())) == 1
        reps = next(iter(cells.values())) if cells else 0
    return len(conds), n_fold, reps, balanced


def features(case, impl):
    if case.get('kind') == 'session':
        cs = [st for st in case['steps'] if st['t'] == 'call']
        return {'method': 'session', 'via': 'session', 'session': True, 'n_calls': len(cs),
                'n_steps': len(case['steps']), 'layout': case.get('layout', 'c'),
                'objects': 2 if case.get('twin') else 1,
                'first_call': cs[0]['method'] + ('+remove_mean' if cs[0]['remove_mean'] else ''),
                'n_channel': case['P'], 'malformed_args': False, 'dataset_list': False,
                'branches': SES.branches(case)}
    n_cond, n_fold, reps, balanced = _design(case)
    br = []
    if case['method'] == 'crossnobis':
        if case['noise_kind'] in ('none', 'matrix', 'list'):
            br.append('crossnobis:noise_' + case['noise_kind'])
        if case['noise_kind'] == 'matrix' and \
                any(case['noise'][i][j] != case['noise'][j][i]
                    for i in range(case['P']) for j in range(case['P'])):
            br.append('nonsym_precision')
    else:
        br.append('poisson_cv')
    br.append('cv:default' if case['fold'] is None else 'cv:explicit')
    if case['remove_mean'] and case['method'] == 'crossnobis':
        br.append('remove_mean')
    br.append('labels:' + case['ckind'])
    if case['fold'] is not None and case['fkind'] == 'str':
        br.append('foldlabels:str')
    if not balanced and case['fold'] is None:
        br.append('reject:unbalanced_default')
    br.append('via:' + case['via'])
    if reps > 1:
        br.append('reps>1')
    if n_fold >= 11:
        br.append('folds>=11')
    if not case.get('descriptor', True):
        br.append('reject:no_descriptor')
    if case['noise_kind'] == 'scalar':
        br.append('reject:noise_type')
    if case['noise_kind'] in ('matrix', 'list') and case['noise'] is not None:
        ms = [case['noise']] if case['noise_kind'] == 'matrix' else case['noise']
        if any(len(m) != case['P'] for m in ms):
            br.append('reject:noise_shape')
    if case['noise_kind'] == 'list' and case.get('noise_container', 'list') != 'list':
        br.append('noise_container:' + case['noise_container'])
    if case.get('parts'):
        br.append('input:dataset_list')
        br.append('dslist:noise_' + case['dslist_noise'])
        if case.get('ds_container', 'list') != 'list':
            br.append('dslist:' + case['ds_container'])
    else:
        if case.get('desc_container', 'list') == 'array':
            br.append('desc:array')
        if case.get('layout', 'c') != 'c':
            br.append('layout:' + case['layout'])
        if case.get('noise_dtype', 'float') == 'int' and case['noise_kind'] in ('matrix', 'list'):
            br.append('noise_dtype:int')
    v = case.get('view') or {}
    if v.get('rows') and v['rows'] != sorted(v['rows']):
        br.append('view:rows')
    if v.get('fold_map'):
        br.append('view:fold_map')
    if v.get('chan'):
        br.append('view:chan')
    return {'method': case['method'], 'via': case['via'], 'ckind': case['ckind'],
            'malformed_args': (not case.get('descriptor', True)) or any(b.startswith('reject:noise') for b in br),
            'dataset_list': bool(case.get('parts')),
            'fkind': case['fkind'] if case['fold'] is not None else 'default',
            'noise_kind': case['noise_kind'], 'default_cv': case['fold'] is None,
            'n_cond': n_cond, 'n_fold': n_fold, 'reps': reps, 'n_channel': case['P'],
            'remove_mean': bool(case['remove_mean']), 'balanced': balanced, 'branches': br}


def nontrivial_key(case, impl):
    if case.get('kind') == 'session':
        if impl is None or not any(st['t'] == 'call' and 'pairs' in st['res'] and
                                   any(abs(p[2]) > 1e-12 for p in st['res']['pairs'])
                                   for st in impl.get('steps', [])):
            return None
        return ['session', case['cond'], case['cond2'], case['fold'], case['x'], case['steps'],
                case.get('twin')]
    if impl is not None and case.get('parts') and 'rdms' in impl.get('main', {}):
        if all(abs(p[2]) < 1e-12 for r in impl['main']['rdms'] for p in r['pairs']):
            return None
        return [case['method'], [[p['cond'], p['fold'], p['x'], p['noise']] for p in case['parts']],
                case['remove_mean']]
    if impl is None or 'pairs' not in impl.get('main', {}):
        return None
    if all(abs(p[2]) < 1e-12 for p in impl['main']['pairs']):
        return None
    return [case['method'], case['cond'], case['fold'], case['x'], case['noise'],
            case['remove_mean'], case['prior_lambda'], case['prior_weight']]


# ------------------------------------------------------------------ oracle
# Direct transcription of the property statement (plain loops, Fractions for crossnobis,
# doubles + math.log for Poisson); independent of the Lean model.

def _finv(m):
    """exact inverse of a square Fraction matrix (Gauss-Jordan)"""
    n = len(m)
    a = [[F(v) for v in row] + [F(1 if i == j else 0) for j in range(n)] for i, row in enumerate(m)]
    for c in range(n):
        p = next(r for r in range(c, n) if a[r][c] != 0)
        a[c], a[p] = a[p], a[c]
        d = a[c][c]
        a[c] = [v / d for v in a[c]]
        for r in range(n):
            if r != c and a[r][c] != 0:
                f = a[r][c]
                a[r] = [v - f * w for v, w in zip(a[r], a[c])]
    return [row[n:] for row in a]


def _default_folds(cond):
    seen = {}
    out = []
    for c in cond:
        k = json.dumps(c)
        out.append(seen.get(k, 0))
        seen[k] = seen.get(k, 0) + 1
    return out


def definition(case):
    """{(a, b): value} from the statement, or None when the case is outside the quantifier
    (not fold-balanced, fewer than two folds)"""
    cond = case['cond']
    fold = case['fold'] if case['fold'] is not None else _default_folds(cond)
    conds, folds = sorted(set(cond)), sorted(set(fold))
    P, M = case['P'], len(folds)
    if M < 2:
        return None
    rows = {}
    for c, f, xr in zip(cond, fold, case['x']):
        rows.setdefault((c, f), []).append([unrat(v) for v in xr])
    if len(rows) != len(conds) * M or len({len(v) for v in rows.values()}) != 1:
        return None
    pois = case['method'] == 'poisson_cv'
    mean = {}
    for key, rs in rows.items():
        m = [sum(r[k] for r in rs) / len(rs) for k in range(P)]
        if pois:
            lam0, w = case['prior_lambda'], case['prior_weight']
            m = [(float(v) + lam0 * w) / (1 + w) for v in m]
        elif case['remove_mean']:
            mu = sum(m) / P
            m = [v - mu for v in m]
        mean[key] = m
    prec = {}
    if not pois:
        eye = [[F(1 if i == j else 0) for j in range(P)] for i in range(P)]
        if case['noise_kind'] == 'none':
            one = eye
        elif case['noise_kind'] == 'matrix':
            one = [[F(v) for v in row] for row in case['noise']]
        else:
            cov = {f: _finv(case['noise'][i]) for i, f in enumerate(folds)}
        for m in folds:
            for n in folds:
                if m != n:
                    if case['noise_kind'] == 'list':
                        avg = [[(cov[m][i][j] + cov[n][i][j]) / 2 for j in range(P)] for i in range(P)]
                        prec[(m, n)] = _finv(avg)
                    else:
                        prec[(m, n)] = one
    out = {}
    for a, b in itertools.combinations(conds, 2):
        tot, cnt = 0, 0
        for m in folds:
            for n in folds:
                if m == n:
                    continue        # products of a fold with itself never contribute
                dm = [mean[(a, m)][k] - mean[(b, m)][k] for k in range(P)]
                if pois:
                    dn = [math.log(mean[(a, n)][k]) - math.log(mean[(b, n)][k]) for k in range(P)]
                    tot += sum(dm[k] * dn[k] for k in range(P)) / P
                else:
                    dn = [mean[(a, n)][k] - mean[(b, n)][k] for k in range(P)]
                    N = prec[(m, n)]
                    tot += sum(dm[k] * N[k][l] * dn[l] for k in range(P) for l in range(P)) / P
                cnt += 1
        out[(a, b)] = tot / cnt
    return out


def _last_fold_only(case):
    """what calc_rdm_poisson_cv yields when only the last test fold is used (for the finding's signature)"""
    cond = case['cond']
    fold = case['fold'] if case['fold'] is not None else _default_folds(cond)
    conds, folds = sorted(set(cond)), sorted(set(fold))
    P = case['P']
    lam0, w = case['prior_lambda'], case['prior_weight']
    last = folds[-1]

    def lam(c, sel):
        rs = [[float(unrat(v)) for v in xr] for cc, f, xr in zip(cond, fold, case['x']) if cc == c and sel(f)]
        return [(sum(r[k] for r in rs) / len(rs) + lam0 * w) / (1 + w) for k in range(P)]
    out = {}
    for a, b in itertools.combinations(conds, 2):
        tra, trb = lam(a, lambda f: f != last), lam(b, lambda f: f != last)
        tea, teb = lam(a, lambda f: f == last), lam(b, lambda f: f == last)
        out[(a, b)] = sum((tra[k] - trb[k]) * (math.log(tea[k]) - math.log(teb[k])) for k in range(P)) / P
    return out


def _check_against(defn, got, tag):
    """the property speaks about the labelled values, not about the order of the conditions:
    compare as a map  unordered label pair -> value"""
    if 'exc' in got:
        return {'what': f'{tag}: the library raised on a fold-balanced dataset', 'observed': got,
                'expected': 'an RDM'}
    conds = sorted({c for ab in defn for c in ab})
    labels = []
    for p in got['pairs']:
        for c in p[:2]:
            if c not in labels:
                labels.append(c)
    n = len(conds)
    if sorted(labels) != conds or len(got['pairs']) != n * (n - 1) // 2 \
            or len({frozenset(map(json.dumps, p[:2])) for p in got['pairs']}) != len(got['pairs']):
        return {'what': f'{tag}: RDM rows are not labelled by the distinct condition labels of the dataset',
                'observed': [p[:2] for p in got['pairs']], 'expected': [list(ab) for ab in defn]}
    for p in got['pairs']:
        key = (p[0], p[1]) if (p[0], p[1]) in defn else (p[1], p[0])
        if key not in defn:
            return {'what': f'{tag}: RDM rows are not labelled by the distinct condition labels of the dataset',
                    'observed': p[:2], 'expected': [list(ab) for ab in defn]}
        if not close(p[2], float(defn[key]), RTOL, ATOL):
            return {'what': f'{tag}: value differs from the average over ordered pairs of distinct folds',
                    'pair': list(key), 'observed': p[2], 'expected': float(defn[key])}
    return None


def _outside(case):
    """malformed arguments: the property's quantifier does not include them"""
    if not case.get('descriptor', True) or case['noise_kind'] in ('scalar', 'badshape'):
        return True
    if case['noise_kind'] in ('matrix', 'list') and case['noise'] is not None:
        ms = [case['noise']] if case['noise_kind'] == 'matrix' else case['noise']
        if any(len(m) != case['P'] or any(len(r) != case['P'] for r in m) for m in ms):
            return True
    return False


def _oracle_session(case):
    """every call of the session against the statement evaluated on the case's ORIGINAL numbers
    (exact, plain loops; the sorts so far applied in plain Python); the inputs must be bit-identical
    after every call; no earlier result may change afterwards"""
    impl = run_impl(case)
    n = len(case['steps'])
    n_call = 0
    for i, st in enumerate(impl['steps']):
        feats = {'signature': 'session', 'session': True, 'step': i + 1}
        if st['t'] == 'sort':
            if st['ok']:
                return {'what': f'session step {i + 1}/{n}: after ds.sort_by the dataset does not hold its '
                                'rows in stably sorted order', 'observed': st['ok'],
                        'expected': 'the original rows, stably sorted', 'features': feats}
            continue
        n_call += 1
        sub = SES.step_case(case, i)
        defn = None if _outside(sub) else definition(sub)
        where = 'first call' if n_call == 1 else \
            ('a later call; another dataset object was analysed before' if case.get('twin')
             else 'a later call on a dataset object that was analysed before')
        if defn is not None:
            bad = _check_against(defn, st['res'], f"session step {i + 1}/{n} ({where}): {sub['method']}")
            if bad:
                feats['later_call'] = n_call > 1
                bad['features'] = feats
                return bad
        if st['mutated']:
            feats['signature'] = 'input_modified'
            return {'what': f'session step {i + 1}/{n}: the call changed its input ({st["mutated"]}); '
                            'every later analysis of the same object is computed from other data',
                    'observed': st['mutated'], 'expected': 'dataset and precision arguments bit-identical '
                    'after the call', 'features': feats}
    if impl.get('late'):
        return {'what': 'session: ' + impl['late'] + ' (the result shares memory with later computations)',
                'observed': [st.get('late') for st in impl['steps'] if st.get('late')],
                'expected': 'a returned RDM keeps its values',
                'features': {'signature': 'result_changed_later', 'session': True}}
    return None


def oracle(case):
    """the property on the real code for this case.  A failure seen in this process is confirmed in a
    FRESH interpreter before it is reported: state that survives a call (a module-level memo, a
    shared buffer) also leaks from one case into the next case of the same process, and such a case
    is not a failing input on its own (its replay would pass) — the reuse sessions reproduce that
    class inside ONE case, and those are reported.  If the fresh run cannot be made, the in-process
    verdict stands."""
    o = _oracle_here(case)
    if o is None or os.environ.get('C02_ORACLE_CHILD'):
        return o
    fresh = _oracle_fresh(case)
    if fresh == 'holds':
        return None
    if isinstance(fresh, dict):
        return fresh
    return o


_FRESH_SERVER = r"""
import sys, json, os
sys.path[:0] = json.loads(sys.argv[1])
from engines import C02
import rsatoolbox.rdm.calc, rsatoolbox.data          # imported, never called: pristine module state
sys.stdout.write('ready\n'); sys.stdout.flush()
for line in sys.stdin:
    r, w = os.pipe()
    pid = os.fork()
    if pid == 0:                                        # a copy of the pristine interpreter
        os.close(r)
        try:
            o = C02._oracle_here(json.loads(line))
            out = json.dumps(o if o else 'holds', default=str)
        except BaseException as exc:
            out = json.dumps({'child_error': repr(exc)})
        os.write(w, out.encode())
        os._exit(0)
    os.close(w)
    data = b''
    while True:
        chunk = os.read(r, 65536)
        if not chunk:
            break
        data += chunk
    os.close(r)
    os.waitpid(pid, 0)
    sys.stdout.write(data.decode() + '\n'); sys.stdout.flush()
"""
_fresh = {'proc': None, 'memo': {}}


def _fresh_close():
    p = _fresh.get('proc')
    if p is not None:
        try:
            p.stdin.close()
            p.wait(timeout=5)
        except Exception:  # noqa: BLE001
            p.kill()
        _fresh['proc'] = None


import atexit  # noqa: E402
atexit.register(_fresh_close)


def _oracle_fresh(case):
    """`_oracle_here(case)` evaluated in an interpreter in which the library was imported but never
    called (a fork of a pristine template process per evaluation): 'holds' | failure dict | None
    when no fresh evaluation could be made"""
    key = json.dumps(case, sort_keys=True, default=str)
    if key in _fresh['memo']:
        return _fresh['memo'][key]
    out = None
    try:
        p = _fresh['proc']
        if p is None or p.poll() is not None:
            env = dict(os.environ, C02_ORACLE_CHILD='1', TQDM_DISABLE='1', OPENBLAS_NUM_THREADS='1',
                       OMP_NUM_THREADS='1')
            p = subprocess.Popen([sys.executable, '-c', _FRESH_SERVER, json.dumps(sys.path)],
                                 stdin=subprocess.PIPE, stdout=subprocess.PIPE, stderr=subprocess.DEVNULL,
                                 text=True, env=env)
            if p.stdout.readline().strip() != 'ready':
                p.kill()
                raise RuntimeError('fresh-interpreter server did not start')
            _fresh['proc'] = p
        p.stdin.write(key + '\n')
        p.stdin.flush()
        ans = json.loads(p.stdout.readline())
        if not (isinstance(ans, dict) and 'child_error' in ans):
            out = ans
    except Exception:  # noqa: BLE001
        try:
            if _fresh['proc'] is not None:
                _fresh['proc'].kill()
        except Exception:  # noqa: BLE001
            pass
        _fresh['proc'] = None
    _fresh['memo'][key] = out
    return out


def _oracle_here(case):
    if case.get('kind') == 'session':
        return _oracle_session(case)
    if case.get('parts'):
        if any(_outside(p) for p in case['parts']):
            return None
        defs = [definition(p) for p in case['parts']]
        if any(d is None for d in defs):
            return None
        got = run_impl(case)['main']
        if 'exc' in got:
            return {'what': 'calc_rdm on a list of fold-balanced datasets raised', 'observed': got,
                    'expected': 'one RDM per dataset', 'features': {'signature': 'other'}}
        for k, (d, g) in enumerate(zip(defs, got['rdms'])):
            bad = _check_against(d, g, f"{case['method']} RDM {k} of a dataset list")
            if bad:
                bad['features'] = {'signature': 'other'}
                return bad
        return None
    if _outside(case):
        return None
    defn = definition(case)
    if defn is None:
        return None                      # outside the quantifier of the property
    impl = run_impl(case)
    n_cond, n_fold, reps, _ = _design(case)
    feats = {'signature': 'other'}
    bad = _check_against(defn, impl['main'], case['method'])
    if bad is None and impl.get('variant') is not None:
        bad = _check_against(defn, impl['variant'],
                             case['method'] + ' on re-presented data (' + _view_tag(case) + ')')
        if bad:
            feats['signature'] = 'not_invariant'
    if bad is None:
        return None
    if case['method'] == 'poisson_cv' and 'pairs' in impl['main']:
        lf = _last_fold_only(case)
        if all((p[0], p[1]) in lf and close(p[2], lf[(p[0], p[1])], RTOL, ATOL)
               for p in impl['main']['pairs']):
            feats['signature'] = 'last_fold_only'
            bad['what'] = 'poisson_cv: value equals the estimate of the last test fold alone, ' \
                          'not the average over ordered pairs of distinct folds'
    if case['fold'] is None and case['ckind'] == 'str' and n_fold > 10 and feats['signature'] == 'other':
        width = max(len(str(c)) for c in case['cond'])
        if len(str(n_fold - 1)) > width:
            feats['signature'] = 'default_cv_truncated'
            bad['what'] = 'default fold descriptor: occurrence numbers are stored in the string dtype of ' \
                          'the condition labels and truncated, folds collide (k-th occurrence is not fold k)'
    bad['features'] = feats
    return bad


# ------------------------------------------------------------------ shrinking

def _drop_rows(case, keep):
    c = dict(case)
    idx = [i for i in range(len(case['cond'])) if keep(i)]
    c['cond'] = [case['cond'][i] for i in idx]
    c['x'] = [case['x'][i] for i in idx]
    if case['fold'] is not None:
        c['fold'] = [case['fold'][i] for i in idx]
    c['view'] = None
    return c


def _candidates(case):
    if case.get('parts'):
        if len(case['parts']) > 2:
            for k in range(len(case['parts'])):
                c = dict(case)
                c['parts'] = [p for j, p in enumerate(case['parts']) if j != k]
                if k == 0:
                    top = dict(c['parts'][0])
                    top.update({'parts': c['parts'], 'dslist_noise': case['dslist_noise']})
                    c = top
                yield c
        return
    if case.get('view'):
        c = dict(case)
        c['view'] = None
        yield c
    conds = sorted(set(case['cond']))
    if len(conds) > 2:
        for d in conds:
            yield _drop_rows(case, lambda i, d=d: case['cond'][i] != d)
    if case['fold'] is not None:
        folds = sorted(set(case['fold']))
        if len(folds) > 2:
            for k, d in enumerate(folds):
                c = _drop_rows(case, lambda i, d=d: case['fold'][i] != d)
                if case['noise_kind'] == 'list':
                    c['noise'] = [m for j, m in enumerate(case['noise']) if j != k]
                yield c
        # one repetition less per cell
        seen, keep = {}, []
        for i, (cc, f) in enumerate(zip(case['cond'], case['fold'])):
            key = json.dumps([cc, f])
            seen[key] = seen.get(key, 0) + 1
            keep.append(seen[key] > 1)
        if any(keep) and not all(keep):
            first = {}
            for i, (cc, f) in enumerate(zip(case['cond'], case['fold'])):
                first.setdefault(json.dumps([cc, f]), i)
            drop = set(first.values())
            yield _drop_rows(case, lambda i: i not in drop)
    else:
        # default folds: drop the last occurrence of every condition
        n = {c: case['cond'].count(c) for c in conds}
        if len(set(n.values())) == 1 and next(iter(n.values())) > 2:
            last = {c: max(i for i, cc in enumerate(case['cond']) if cc == c) for c in conds}
            drop = set(last.values())
            yield _drop_rows(case, lambda i: i not in drop)
    if case['P'] > 1:
        c = dict(case)
        c['P'] = case['P'] - 1
        c['x'] = [row[:-1] for row in case['x']]
        if case['noise_kind'] == 'matrix':
            c['noise'] = [row[:-1] for row in case['noise'][:-1]]
        elif case['noise_kind'] == 'list':
            c['noise'] = [[row[:-1] for row in m[:-1]] for m in case['noise']]
        c['view'] = None
        yield c
    for key, val in (('remove_mean', False), ('extra', False), ('via', 'direct')):
        if case[key] != val:
            c = dict(case)
            c[key] = val
            yield c
    if case['noise_kind'] != 'none':
        c = dict(case)
        c['noise_kind'], c['noise'] = 'none', None
        yield c
    # simpler numbers
    if any(not isinstance(v, int) for row in case['x'] for v in row):
        c = dict(case)
        c['x'] = [[int(round(float(unrat(v)))) for v in row] for row in case['x']]
        yield c


def shrink(case, still_fails):
    if case.get('kind') == 'session':
        return SES.shrink(case, still_fails)
    cur = case
    for _ in range(60):
        for cand in _candidates(cur):
            if still_fails(cand):
                cur = cand
                break
        else:
            break
    return cur
