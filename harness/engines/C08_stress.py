"""C08 stress set for `_nn_least_squares` (round 5; the round-1 / round-3 sets were ad-hoc scripts).

    python harness/engines/C08_stress.py <tree> [n_problems=40000] [seed=1]

Problem families (equal shares): random / mix / neg (round 1: termination), dup / collinear / zero / nested (round 3,
exact small-integer dependencies), view (round 5: regressors restricted to a draw with three distinct conditions,
mean removed in floating point, optionally two nearly opposite regressors = heavy cancellation, entries / 7, / 10),
each with V = None and (every 8th) a whitened V.  Judged per problem: returns (no exception), terminates (1 s alarm),
x >= 0, loss within 1e-7 (1 + loss) + 1e-12 |y|^2 (whitened: 1e-5 (1 + loss) + ... - the library solves V x = b by conjugate gradients to rtol 1e-5) of the reference minimum.  Reference: scipy.optimize.nnls where the (whitened)
regressors are independent beyond rounding, else enumeration of independent subsets (`C08_oracle.nnls_bruteforce`;
scipy's solver returns weights of 1e16 on rounding-noise columns there - counted separately as `scipy_off`).
Where the minimiser is unique, x must agree with scipy's to 1e-6 relative.
"""
import os
import random
import signal
import sys
import time

tree = sys.argv[1] if len(sys.argv) > 1 else '/repo'
sys.path.insert(0, os.path.join(tree, 'src'))
sys.path.insert(0, os.path.dirname(os.path.dirname(os.path.abspath(__file__))))
os.environ.setdefault('TQDM_DISABLE', '1')
import numpy as np                      # noqa: E402
import scipy.optimize                   # noqa: E402
from engines import C08_oracle as orc   # noqa: E402
from rsatoolbox.model.fitter import _nn_least_squares  # noqa: E402


class _Timeout(Exception):
    pass


def _alarm(*_a):
    raise _Timeout()


def problem(rng, fam):
    n = rng.randint(4, 6)
    m = n * (n - 1) // 2
    k = rng.randint(2, 5)
    rows = [[rng.randint(-2, 5) for _ in range(m)] for _ in range(k)]
    if fam == 'random':
        y = [rng.randint(-2, 5) for _ in range(m)]
    elif fam == 'mix':
        th = [rng.choice([0, 1, 2]) for _ in range(k)]
        y = [sum(th[i] * rows[i][e] for i in range(k)) + rng.randint(-1, 1) for e in range(m)]
        if rng.random() < 0.3:
            y = [sum(th[i] * rows[i][e] for i in range(k)) for e in range(m)]       # exact fit
        if rng.random() < 0.3:
            rows = [[10 * v for v in r] for r in rows]
            y = [10 * v for v in y]
    elif fam == 'neg':
        y = [-rng.randint(0, 4) for _ in range(m)]
    elif fam == 'dup':
        rows[rng.randrange(1, k)] = list(rows[0])
        y = [rows[0][e] + rng.randint(-1, 2) for e in range(m)]
    elif fam == 'zero':
        rows[rng.randrange(k)] = [0] * m
        y = [rng.randint(0, 5) for _ in range(m)]
    elif fam == 'collinear':
        k = max(k, 3)
        rows = [[rng.randint(0, 5) for _ in range(m)] for _ in range(k - 1)]
        rows.insert(rng.randrange(k), [3 * sum(r[e] for r in rows) for e in range(m)])
        rows = [[10 * v for v in r] if i_ % 2 else r for i_, r in enumerate(rows)]
        th = [rng.choice([0, 1, 2, 3]) for _ in range(k)]
        y = [sum(th[i] * rows[i][e] for i in range(k)) + rng.randint(-2, 2) for e in range(m)]
    elif fam == 'nested':
        k = max(k, 3)
        parts = [[rng.randint(0, 5) for _ in range(m)] for _ in range(k - 1)]
        tot = [sum(p[e] for p in parts) for e in range(m)]
        c = [3 * tot[e] + 2 * rng.randint(0, 2) for e in range(m)]
        rows = [[10 * v for v in p] for p in parts]
        rows.insert(rng.randrange(k), c)
        p_, q_ = rng.choice([(10, 9), (8, 6), (12, 10), (10, 3)])
        y = [p_ * c[e] - q_ * tot[e] + rng.randint(0, 1) for e in range(m)]
    else:   # view
        k = rng.randint(3, 4)
        q = rng.choice([1, 1, 7, 10])
        full = [[rng.randint(0, 8) / q for _ in range(m)] for _ in range(k)]
        u = rng.random()
        delta = [rng.choice([-1, 0, 0, 1]) for _ in range(m)]
        if u < 0.3:
            full[1] = [3 * full[0][e] + delta[e] / q for e in range(m)]
        elif u < 0.8:
            s_ = rng.choice([1, 3, 10, 30, 100])
            full[0] = [s_ * v for v in full[0]]
            full[1] = [rng.choice([1, 2, 3]) * (8 * s_ / q - full[0][e]) + (delta[e] + 1) / q for e in range(m)]
        distinct = rng.sample(range(n), 3)
        sel = sorted(distinct + [rng.choice(distinct) for _ in range(rng.randint(1, 3))])
        sub = [orc.sub_vec(n, sel, np.array(r)) for r in full]
        sub = [r[~np.isnan(r)] for r in sub]
        if u >= 0.3 and u < 0.8 and rng.random() < 0.7:
            d_ = orc.sub_vec(n, sel, np.array(delta, dtype=float))
            yv = 6 + rng.choice([1, 2, 3]) * d_[~np.isnan(d_)]
        else:
            th = [rng.choice([0, 1, 2]) for _ in range(k)]
            yv = sum(t * r for t, r in zip(th, sub)) + np.array([rng.randint(-1, 1) for _ in sub[0]], dtype=float)
        if rng.random() < 0.8:      # the corr path: regressors centred, pooled target shifted to be positive
            sub = [r - np.mean(r) for r in sub]
            yv = yv - np.mean(yv)
            sd = float(np.sqrt(np.mean(yv ** 2)))
            yv = yv / (sd if sd > 0 else 1.0)
            yv = yv - yv.min() + 0.01
        return np.array(sub, dtype=float).T, np.asarray(yv, dtype=float), None
    a = np.array(rows, dtype=float).T
    return a, np.array(y, dtype=float), n


def main():
    n_prob = int(sys.argv[2]) if len(sys.argv) > 2 else 40000
    rng = random.Random(int(sys.argv[3]) if len(sys.argv) > 3 else 1)
    fams = ['random', 'mix', 'neg', 'dup', 'zero', 'collinear', 'nested', 'view']
    cnt = {k_: 0 for k_ in ('problems', 'exception', 'timeout', 'negative', 'suboptimal', 'x_differs', 'unique',
                            'rank_deficient', 'scipy_off', 'whitened')}
    per = {f_: [0, 0] for f_ in fams}
    first = {}
    t0 = time.time()
    old = signal.signal(signal.SIGALRM, _alarm)
    for i in range(n_prob):
        fam = fams[i % len(fams)]
        a, y, n = problem(rng, fam)
        v = None
        if n is not None and i % 8 == 7 - (i // 8) % 8 and fam != 'view':
            b = np.array([[rng.randint(-2, 2) for _ in range(n)] for _ in range(n)], dtype=float)
            v = orc.v_matrix(n, b @ b.T / 4 + np.eye(n))
            cnt['whitened'] += 1
        cnt['problems'] += 1
        per[fam][0] += 1
        w = np.eye(a.shape[0]) if v is None else np.linalg.inv(v)
        l_ = np.linalg.cholesky((w + w.T) / 2)
        ma, mb = l_.T @ a, l_.T @ y
        indep = orc.independent_columns(ma)
        ref_s, _ = scipy.optimize.nnls(ma, mb)
        ref = ref_s if indep else orc.nnls_bruteforce(ma, mb)
        loss = lambda t: float(np.sum((mb - ma @ t) ** 2))     # noqa: E731
        if not indep:
            cnt['rank_deficient'] += 1
            if loss(ref_s) > loss(ref) + 1e-7 * (1 + loss(ref)) or loss(ref_s) < loss(ref) - 1e-7 * (1 + loss(ref)) \
                    or float(np.max(ref_s)) > 1e6 * max(float(np.max(ref)), 1.0):
                cnt['scipy_off'] += 1
        bad = None
        signal.setitimer(signal.ITIMER_REAL, 1.0)
        try:
            with np.errstate(all='ignore'):
                x, _ = _nn_least_squares(a, y, V=v)
        except _Timeout:
            bad = 'timeout'
        except Exception as exc:     # noqa: BLE001
            bad = 'exception'
            first.setdefault('exception', (type(exc).__name__, fam, a.tolist(), y.tolist()))
        finally:
            signal.setitimer(signal.ITIMER_REAL, 0)
        if bad is None:
            if x.min() < 0:
                bad = 'negative'
            elif loss(x) > loss(ref) + (1e-7 if v is None else 1e-5) * (1 + loss(ref)) + 1e-12 * float(mb @ mb):
                bad = 'suboptimal'
                first.setdefault('suboptimal', (fam, loss(x), loss(ref), a.tolist(), y.tolist()))
            elif indep and np.linalg.cond(ma) < 1e3:
                cnt['unique'] += 1
                if float(np.max(np.abs(x - ref))) > (1e-6 if v is None else 5e-3) * max(1.0, float(np.max(np.abs(ref)))):
                    bad = 'x_differs'
                    first.setdefault('x_differs', (fam, x.tolist(), ref.tolist()))
        if bad:
            cnt[bad] += 1
            per[fam][1] += 1
    signal.signal(signal.SIGALRM, old)
    print(f'tree {tree}: {cnt}  ({time.time() - t0:.0f} s)')
    print('failures per family (problems, failures):', per)
    for k_, v_ in first.items():
        print('first', k_, ':', str(v_)[:600])
    return 1 if any(cnt[k_] for k_ in ('exception', 'timeout', 'negative', 'suboptimal', 'x_differs')) else 0


if __name__ == '__main__':
    sys.exit(main())
