"""C08 reuse sessions (round 4): state that survives a call.

A *session* is a list of steps run in ONE process on objects that are handed in again and again:

  {'kind': 'session', 'skind': <generator label>, 'n': n, 'desc': [...], 'common_nan': None | e,
   'models': [{'cls': 'weighted'|'select'|'interpolate'|'fixed', 'basis': rows}, ...]   # all named 'm'
   'data': rows, 'steps': [step, ...], 'cseed': int}

  step = {'op': 'fit', 'model': slot, 'fitter': f, 'method': m, 'route': 'func' | 'Model.fit' | 'Fitter',
          'by': 'index' | 'cond', 'value': None | [...], 'sigma': None | {'vec'} | {'mat'}, 'normalize': bool,
          'seed': s}
       | {'op': 'predict', 'model': slot, 'theta': None | int | [rat, ...], 'slot': name}
       | {'op': 'edit', 'how': 'write' | 'rebind' | 'append', 'rows': rows}

Live objects of a session (built once, then reused by every step):
  models    one model object per slot, built on an RDMs object with pattern descriptor `cond` (its `rdm` array
            IS the vector array of that RDMs object); two slots hold models of the same class and name
  data      ONE RDMs object.  A step without pattern indices passes it to the fitter as it is (no copy is made on
            the way); with pattern indices the harness passes `data.subsample_pattern(by, value)` as
            crossval / bootstrap do, and hands the SAME subsample and the SAME index array to every later step
            with that selection (until the caller edits the data)
  sigma_k   ONE ndarray per (form, size); every step writes its own numbers into it in place before the call
  theta     ONE ndarray per `slot` name; a predict step writes its weights into it in place and hands it to
            `predict` and to `predict_rdm`
  Fitter    ONE `Fitter` object per (fitting function, normalize, sigma_k array)
  edit      the CALLER changes the data between calls: 'write' puts new numbers into `data.dissimilarities`
            in place, 'rebind' assigns a new array, 'append' calls `RDMs.append` (in place)

Every step is judged on its own: the expected optimum / prediction comes from the session's own numbers
(`virtual_case` = the ordinary C08 `fit` case a fresh-object harness would have built for this step), never
from a live object.  Universal side conditions: after every call every live object is bit-identical to what it
was before the call (values, dtype, shape, descriptors); at the end everything an earlier call returned still
holds what it held when it was returned.
"""
import copy
import json
import math
import random
from fractions import Fraction as F

import numpy as np

from lean import rat, unrat


def _E():
    from engines import C08
    return C08


SKINDS = ('centre-then-cosine', 'pattern-idx', 'sigma-refill', 'two-models', 'routes', 'select-interp',
          'predict-reuse', 'edit-data', 'optimize', 'fixed', 'mixed')
CLS_FITTERS = {'weighted': ['regress', 'regress_nn'], 'select': ['select'], 'interpolate': ['interpolate'],
               'fixed': ['mock']}


# ------------------------------------------------------------------ the ordinary case of one step

def data_at(case, upto):
    """the training rows the CALLER has established before step `upto`"""
    rows = [list(r) for r in case['data']]
    for st in case['steps'][:upto]:
        if st['op'] == 'edit':
            rows = rows + [list(r) for r in st['rows']] if st['how'] == 'append' else [list(r) for r in st['rows']]
    return rows


def virtual_case(case, i):
    """the single-call `fit` case of step i: what a harness with fresh objects would check"""
    st = case['steps'][i]
    return {'kind': 'fit', 'fitter': st['fitter'], 'method': st['method'], 'n': case['n'],
            'desc': case['desc'], 'by': st['by'], 'value': st['value'],
            'basis': case['models'][st['model']]['basis'], 'data': data_at(case, i), 'sigma': st['sigma'],
            'normalize': bool(st['normalize']), 'scale': 1, 'dstyle': 'session',
            'common_nan': case.get('common_nan'), 'malformed': False, 'cseed': case['cseed'] + i,
            'sess': _E()._key(dict(case, steps=case['steps'][:i + 1])), 'step': i}


# ------------------------------------------------------------------ generation

def _base(rng, cls, method='cosine', k_models=1):
    """numbers of a session: n, desc, basis rows per model, data rows (a signal-carrying problem)"""
    E = _E()
    fitter = {'weighted': 'regress_nn', 'select': 'select', 'interpolate': 'interpolate',
              'fixed': 'regress'}[cls]
    c = E._fit_case(rng, fitter, method, 'quick', small=True)
    n, m = c['n'], c['n'] * (c['n'] - 1) // 2
    k = len(c['basis'])
    models = [{'cls': cls, 'basis': c['basis'] if cls != 'fixed' else c['basis'][:1]}]
    for _ in range(k_models - 1):
        while True:
            b2 = [[rng.randint(0, 5) for _ in range(m)] for _ in range(k if cls != 'fixed' else 1)]
            if b2 != models[0]['basis']:
                break
        models.append({'cls': cls, 'basis': b2})
    return {'kind': 'session', 'n': n, 'desc': c['desc'], 'common_nan': None, 'models': models,
            'data': c['data'], 'steps': [], 'cseed': rng.randint(0, 10 ** 6)}


def _fit_step(rng, case, slot, fitter, method, route='func', by='cond', value=None, sigma_kind=None,
              normalize=None, sigma=None):
    E = _E()
    st = {'op': 'fit', 'model': slot, 'fitter': fitter, 'method': method, 'route': route, 'by': by,
          'value': value, 'sigma': None,
          'normalize': (rng.random() < 0.6) if normalize is None else normalize,
          'seed': rng.randint(0, 10 ** 6)}
    if route == 'Model.fit' or fitter in ('select', 'interpolate', 'mock'):
        st['normalize'] = True if fitter.startswith('optimize') else False
    if method.endswith('_cov'):
        nsub = len(E.orc.positions(list(range(case['n'])) if by == 'index' else list(case['desc']), value))
        st['sigma'] = sigma if sigma is not None else \
            E._sigma(rng, nsub, sigma_kind or rng.choice(['none', 'vec', 'mat']))
    return st


def _theta(rng, k, nonneg=False):
    return [rat(F(rng.randint(0 if nonneg else -8, 12), 4)) for _ in range(k)]


def _predict_step(rng, case, slot, name='t0', theta='new'):
    cls = case['models'][slot]['cls']
    k = len(case['models'][slot]['basis'])
    if theta == 'new':
        if cls == 'fixed':
            theta = None
        elif cls == 'select':
            theta = rng.randrange(k)
        else:
            theta = _theta(rng, k, nonneg=(cls == 'interpolate'))
    return {'op': 'predict', 'model': slot, 'theta': theta, 'slot': name}


def _new_data(rng, case, r=None):
    m = case['n'] * (case['n'] - 1) // 2
    b = case['models'][0]['basis']
    k = len(b)
    r = r or rng.choice([1, 2, 3])
    th = [rng.choice([0, 1, 2, 3]) for _ in range(k)]
    if not any(th):
        th[0] = 1
    if case['models'][0]['cls'] == 'interpolate':
        i = rng.randrange(k - 1)
        th = [0] * k
        th[i], th[i + 1] = rng.choice([(1, 3), (2, 2), (3, 1)])
    return [[sum(th[i] * b[i][e] for i in range(k)) + rng.randint(-2, 2) + 6 for e in range(m)]
            for _ in range(r)]


def _ok(case):
    """every fit step is a well-posed single-call case"""
    E = _E()
    for i, st in enumerate(case['steps']):
        if st['op'] == 'fit' and st['fitter'] != 'mock' and not E._well_posed(virtual_case(case, i)):
            return False
    return True


def _sel(rng, case, by, style):
    return _E()._selection(rng, case['n'], case['desc'], by, style)


def gen_session(rng, skind, first=False):
    """`first`: the deterministic variant of the kind (guarantees its coverage tags in every run)"""
    for _ in range(200):
        c = _gen(rng, skind, first)
        if c is not None and _ok(c):
            c['skind'] = skind
            return c
    raise RuntimeError(f'no well-posed session of kind {skind}')


def _gen(rng, skind, first):
    E = _E()
    M = E.METHODS
    if skind == 'centre-then-cosine':
        # the centring criteria first, then the plain ones, all on the very same objects, no pattern indices
        c = _base(rng, 'weighted')
        f1 = 'regress' if first else rng.choice(['regress', 'regress_nn'])
        c['steps'] = [_fit_step(rng, c, 0, f1, 'corr' if first or rng.random() < 0.6 else 'corr_cov',
                                route='func' if first else rng.choice(['func', 'Fitter'])),
                      _fit_step(rng, c, 0, 'regress' if first else rng.choice(['regress', 'regress_nn']), 'cosine'),
                      _fit_step(rng, c, 0, 'regress_nn' if first else rng.choice(['regress', 'regress_nn']),
                                rng.choice(['corr_cov', 'cosine_cov'])),
                      _fit_step(rng, c, 0, 'regress_nn', 'cosine')][:4 if first else rng.choice([2, 3, 4])]
        return c
    if skind == 'pattern-idx':
        # the same selection (same index array, same subsample object) for several fits, mixed with fits
        # without pattern indices
        c = _base(rng, 'weighted')
        by = rng.choice(['index', 'cond'])
        v = _sel(rng, c, by, 'repeats' if first else rng.choice(['subset', 'repeats']))
        c['steps'] = [_fit_step(rng, c, 0, 'regress', 'corr', by=by, value=v),
                      _fit_step(rng, c, 0, rng.choice(['regress', 'regress_nn']), 'cosine', by=by, value=v),
                      _fit_step(rng, c, 0, 'regress_nn', rng.choice(M)),
                      _fit_step(rng, c, 0, 'regress', rng.choice(['cosine', 'cosine_cov']), by=by, value=v)]
        if not first:
            c['steps'] = c['steps'][:rng.choice([3, 4])]
        return c
    if skind == 'sigma-refill':
        # the same sigma_k array object, refilled in place with other numbers between the calls
        cls = 'weighted' if first else rng.choice(['weighted', 'weighted', 'select'])
        c = _base(rng, cls, 'cosine_cov')
        f = CLS_FITTERS[cls]
        by = rng.choice(['index', 'cond'])
        v = None if first or rng.random() < 0.5 else _sel(rng, c, by, 'subset')
        kinds = ['vec', 'vec', 'mat', 'mat'] if first else [rng.choice(['vec', 'mat'])] * 2 + \
            [rng.choice(['vec', 'mat', 'none'])]
        c['steps'] = [_fit_step(rng, c, 0, rng.choice(f), rng.choice(['cosine_cov', 'corr_cov']), by=by,
                                value=v, sigma_kind=kd, route=rng.choice(['func', 'Fitter']) if cls == 'weighted'
                                else 'func') for kd in kinds]
        sg = [json.dumps(s_['sigma'], sort_keys=True) for s_ in c['steps']]
        if any(a == b for a, b in zip(sg, sg[1:])):
            return None                 # "refilled" means other numbers
        return c
    if skind == 'two-models':
        # two models of the same class, name and shape that differ in their RDMs, used alternately
        cls = 'weighted' if first else rng.choice(['weighted', 'weighted', 'select', 'interpolate'])
        meth = rng.choice(M)
        c = _base(rng, cls, meth, k_models=2)
        f = CLS_FITTERS[cls]
        sig = _fit_step(rng, c, 0, f[0], meth, sigma_kind=rng.choice(['vec', 'mat', 'none']))['sigma']
        steps = []
        p0 = _predict_step(rng, c, 0, 't0')      # the same parameters for both models
        for j in range(4 if first else rng.choice([2, 3, 4])):
            steps.append(_fit_step(rng, c, j % 2, rng.choice(f), meth, sigma=sig, normalize=True))
            if j < 2 and (first or rng.random() < 0.5):
                steps.append(dict(p0, model=j % 2))
        c['steps'] = steps
        return c
    if skind == 'routes':
        # the same fit through the plain function, a Fitter object and Model.fit in succession
        cls = rng.choice(['weighted', 'select', 'interpolate'])
        if first:
            cls = 'weighted'
        meth = rng.choice(M)
        c = _base(rng, cls, meth)
        by = rng.choice(['index', 'cond'])
        v = None if rng.random() < 0.5 else _sel(rng, c, by, rng.choice(['subset', 'repeats']))
        f = rng.choice(CLS_FITTERS[cls])
        s0 = _fit_step(rng, c, 0, f, meth, by=by, value=v, normalize=True)
        routes = ['func', 'Fitter', 'func'] if cls == 'weighted' else ['func', 'Model.fit', 'func']
        c['steps'] = [dict(s0, route=r, seed=s0['seed'] + j) for j, r in enumerate(routes)]
        if cls == 'weighted' and (first or rng.random() < 0.3):
            # Model.fit of a weighted model = fit_optimize (observed only on signal-carrying data)
            c['steps'].append(dict(s0, fitter='optimize', route='Model.fit', normalize=True,
                                   method=rng.choice(['cosine', 'corr']), sigma=None))
        return c
    if skind == 'select-interp':
        cls = ('select', 'interpolate')[rng.randrange(2)] if not first else 'interpolate'
        if first == 'select':
            cls = 'select'
        c = _base(rng, cls, 'corr')
        f = CLS_FITTERS[cls][0]
        by = rng.choice(['index', 'cond'])
        v = None if rng.random() < 0.6 else _sel(rng, c, by, 'subset')
        meths = ['corr', 'cosine'] + [rng.choice(M) for _ in range(rng.choice([0, 1, 2]))]
        c['steps'] = [_fit_step(rng, c, 0, f, mm, by=by, value=v if j != 1 else None,
                                route=rng.choice(['func', 'Model.fit'])) for j, mm in enumerate(meths)]
        return c
    if skind == 'predict-reuse':
        # the same theta array handed to predict / predict_rdm repeatedly, fits in between
        cls = 'weighted' if first else rng.choice(['weighted', 'weighted', 'interpolate', 'select'])
        c = _base(rng, cls, 'corr')
        p1 = _predict_step(rng, c, 0, 't0')
        f = CLS_FITTERS[cls][0]
        c['steps'] = [p1, _fit_step(rng, c, 0, f, 'corr'), dict(p1),
                      _predict_step(rng, c, 0, 't0'), _fit_step(rng, c, 0, f, rng.choice(M)), dict(p1)]
        if not first:
            c['steps'] = c['steps'][:rng.choice([3, 4, 6])]
        return c
    if skind == 'edit-data':
        # fit - the caller changes the data object - the same fit again
        cls = 'weighted' if first else rng.choice(['weighted', 'weighted', 'select', 'interpolate'])
        meth = rng.choice(M)
        c = _base(rng, cls, meth)
        f = rng.choice(CLS_FITTERS[cls])
        by = rng.choice(['index', 'cond'])
        v = None if (not first and rng.random() < 0.5) else _sel(rng, c, by, rng.choice(['subset', 'repeats']))
        s0 = _fit_step(rng, c, 0, f, meth, by=by, value=v)
        hows = ['write', 'append', 'rebind'] if first else [rng.choice(['write', 'rebind', 'append'])]
        steps = [s0]
        r = len(c['data'])
        for how in hows:
            rows = _new_data(rng, c, r=rng.choice([1, 2]) if how == 'append' else r)
            if how == 'append':
                r += len(rows)
            steps += [{'op': 'edit', 'how': how, 'rows': rows}, dict(s0, seed=s0['seed'] + len(steps))]
        c['steps'] = steps
        return c
    if skind == 'optimize':
        c = _base(rng, 'weighted', 'corr')
        f = 'optimize_positive' if first else rng.choice(['optimize', 'optimize_positive'])
        c['steps'] = [_fit_step(rng, c, 0, f, 'corr', normalize=True,
                                route='Model.fit' if f == 'optimize' and rng.random() < 0.5 else 'func'),
                      _fit_step(rng, c, 0, 'regress_nn', 'cosine'),
                      _fit_step(rng, c, 0, f, 'cosine', normalize=True)][:3 if first else 2]
        return c
    if skind == 'fixed':
        c = _base(rng, 'fixed', k_models=2)
        mock = {'op': 'fit', 'model': 0, 'fitter': 'mock', 'method': 'cosine', 'route': 'Model.fit',
                'by': 'cond', 'value': None, 'sigma': None, 'normalize': False, 'seed': 0}
        c['steps'] = [_predict_step(rng, c, 0), mock, _predict_step(rng, c, 1), dict(mock, model=1),
                      _predict_step(rng, c, 0)]
        return c
    # mixed: anything goes
    cls = rng.choice(['weighted', 'weighted', 'select', 'interpolate'])
    c = _base(rng, cls, rng.choice(M), k_models=rng.choice([1, 2]))
    if first or rng.random() < 0.3:
        c['common_nan'] = rng.randrange(c['n'] * (c['n'] - 1) // 2)
    steps = []
    for _j in range(rng.choice([2, 3, 4])):
        slot = rng.randrange(len(c['models']))
        u = rng.random()
        if u < 0.2 and c['common_nan'] is None:
            steps.append(_predict_step(rng, c, slot, rng.choice(['t0', 't1'])))
        elif u < 0.3 and steps:
            steps.append({'op': 'edit', 'how': rng.choice(['write', 'rebind']),
                          'rows': _new_data(rng, c, r=len(data_at(dict(c, steps=steps), len(steps))))})
        else:
            by = rng.choice(['index', 'cond'])
            v = None if rng.random() < 0.5 else _sel(rng, c, by, rng.choice(['subset', 'repeats']))
            steps.append(_fit_step(rng, c, slot, rng.choice(CLS_FITTERS[cls]), rng.choice(M), by=by, value=v,
                                   route=rng.choice(['func', 'func', 'Fitter' if cls == 'weighted' else
                                                     'Model.fit'])))
    if not any(s['op'] == 'fit' for s in steps):
        return None
    c['steps'] = steps
    return c


def generate(rng, tier):
    quick = tier == 'quick'
    for sk in SKINDS:
        yield gen_session(rng, sk, first=True)
    yield gen_session(rng, 'select-interp', first='select')
    reps = {'optimize': 1 if quick else 6}
    for sk in SKINDS:
        for _ in range(reps.get(sk, 4 if quick else 40)):
            yield gen_session(rng, sk)


def search(rng, k):
    """sessions for the failing-input search (cheap kinds, no optimisers)"""
    kinds = [s for s in SKINDS if s != 'optimize']
    return gen_session(rng, kinds[k % len(kinds)], first=(k < 2 * len(kinds) and k % 2 == 0))


# ------------------------------------------------------------------ running a session on the real code

def _snap_arr(a):
    a = np.asarray(a)
    return (str(a.dtype), a.shape, a.tobytes())


def _snap_desc(d):
    return json.dumps({str(k): np.asarray(v).tolist() for k, v in d.items()}, sort_keys=True, default=str)


def _snap_rdms(r, lab, out):
    out[lab + '.dissimilarities'] = _snap_arr(r.dissimilarities)
    out[lab + '.pattern_descriptors'] = _snap_desc(r.pattern_descriptors)
    out[lab + '.rdm_descriptors'] = _snap_desc(r.rdm_descriptors)
    out[lab + '.descriptors'] = _snap_desc(r.descriptors)
    out[lab + '.n'] = (r.n_rdm, r.n_cond)


class Live:
    """the live objects of one session"""

    def __init__(self, case):
        E = _E()
        self.E = E
        self.case = case
        mod = E._mod
        self.models = []
        for md in case['models']:
            cls = {'weighted': mod.ModelWeighted, 'select': mod.ModelSelect,
                   'interpolate': mod.ModelInterpolate, 'fixed': mod.ModelFixed}[md['cls']]
            self.models.append(cls('m', E._rdms(case, E._apply_common_nan(case, E._rows(md['basis'])))))
        self.data = E._rdms(case, E._apply_common_nan(case, E._rows(case['data'])))
        self.sigma = {}
        self.theta = {}
        self.sub = {}
        self.idx = {}
        self.fitters = {}
        self.held = []

    def snapshot(self):
        out = {}
        for i, m in enumerate(self.models):
            out[f'model[{i}].rdm'] = _snap_arr(m.rdm)
            _snap_rdms(m.rdm_obj, f'model[{i}].rdm_obj', out)
            # (values only: a private attribute added by a call is not by itself a change of content)
            out[f'model[{i}].attrs'] = (m.name, int(m.n_param), int(m.n_cond),
                                        getattr(m.default_fitter, '__name__', ''))
        _snap_rdms(self.data, 'data', out)
        for k, a in self.sigma.items():
            out[f'sigma_k{k}'] = _snap_arr(a)
        for k, a in self.theta.items():
            out[f'theta[{k}]'] = _snap_arr(a)
        for k, a in self.idx.items():
            out[f'pattern_idx{k}'] = _snap_arr(a)
        for k, r in self.sub.items():
            _snap_rdms(r, f'data.subsample{k}', out)
        return out

    @staticmethod
    def diff(before, after):
        for k in before:
            if k not in after or before[k] != after[k]:
                return k
        for k in after:
            if k not in before:
                return k
        return None

    def sigma_arg(self, sig):
        if sig is None:
            return None, None
        arr = self.E._sigma_np(sig)
        key = (self.E.sigma_kind(sig), arr.shape)
        if key not in self.sigma:
            self.sigma[key] = arr.copy()
        else:
            np.copyto(self.sigma[key], arr)          # refilled in place
        return self.sigma[key], key

    def data_arg(self, st):
        if st['value'] is None:
            return self.data, {}
        by = 'index' if st['by'] == 'index' else 'cond'
        key = (by, tuple(st['value']))
        if key not in self.idx:
            self.idx[key] = np.array(st['value'])
        if key not in self.sub:
            self.sub[key] = self.data.subsample_pattern(by, self.idx[key])
        return self.sub[key], {'pattern_idx': self.idx[key], 'pattern_descriptor': by}

    def hold(self, label, arr):
        arr = np.asarray(arr)
        self.held.append((label, arr, _snap_arr(arr)))

    def held_diff(self):
        for label, arr, snap in self.held:
            if _snap_arr(arr) != snap:
                return label
        return None

    # -------- steps
    def fit(self, st):
        """prepares the arguments (the caller's part: refill sigma_k, draw the subsample) and returns the call"""
        E = self.E
        fit = E._fit
        model = self.models[st['model']]
        data, kw = self.data_arg(st)
        sig, skey = self.sigma_arg(st['sigma'])
        f = {'regress': fit.fit_regress, 'regress_nn': fit.fit_regress_nn, 'optimize': fit.fit_optimize,
             'optimize_positive': fit.fit_optimize_positive, 'select': fit.fit_select,
             'interpolate': fit.fit_interpolate, 'mock': fit.fit_mock}[st['fitter']]
        norm = st['fitter'] in ('regress', 'regress_nn', 'optimize', 'optimize_positive')
        np.random.seed(st['seed'] % (2 ** 31))

        def go():
            if st['route'] == 'Model.fit':
                th = model.fit(data, method=st['method'], sigma_k=sig, **kw)
            elif st['route'] == 'Fitter':
                key = (st['fitter'], bool(st['normalize']), skey)
                if key not in self.fitters:
                    settings = {'sigma_k': sig}
                    if norm:
                        settings['normalize'] = bool(st['normalize'])
                    self.fitters[key] = fit.Fitter(f, **settings)
                th = self.fitters[key](model, data, method=st['method'], **kw)
            else:
                kw2 = dict(kw, normalize=bool(st['normalize'])) if norm else kw
                th = f(model, data, method=st['method'], sigma_k=sig, **kw2)
            if isinstance(th, np.ndarray):
                self.hold(f'theta returned by {st["fitter"]}', th)
            if st['fitter'] == 'select':
                return int(th)
            return [float(v) for v in np.asarray(th, dtype=float).reshape(-1)]
        return lambda: {'theta': E._guarded(go, 120.0 if st['fitter'].startswith('optimize') else E.TIMEOUT_S)}

    def predict(self, st):
        E = self.E
        model = self.models[st['model']]
        p = st['theta']
        if p is None:
            args = ()
        elif isinstance(p, int):
            args = (p,)
        else:
            vals = np.array([E._fl(v) for v in p], dtype=float)
            if st['slot'] not in self.theta or self.theta[st['slot']].shape != vals.shape:
                self.theta[st['slot']] = vals.copy()
            else:
                np.copyto(self.theta[st['slot']], vals)
            args = (self.theta[st['slot']],)

        def vec():
            v = model.predict(*args)
            self.hold(f'vector returned by predict(theta={p})', v)
            return [rat(F(float(x))) for x in np.asarray(v).reshape(-1)]

        def rdm():
            r = model.predict_rdm(*args)
            self.hold(f'dissimilarities of predict_rdm(theta={p})', r.dissimilarities)
            return {'rdm': [[rat(F(float(x))) for x in row] for row in r.get_vectors().tolist()],
                    'desc': {str(k): [int(x) for x in np.asarray(v).tolist()]
                             for k, v in r.pattern_descriptors.items()}}
        def call():
            v = E._guarded(vec)
            r = E._guarded(rdm)
            if isinstance(r, dict) and 'exc' in r:
                return {'vec': v, 'rdm': r, 'desc': r}
            return {'vec': v, 'rdm': r['rdm'], 'desc': r['desc']}
        return call

    def edit(self, st):
        E = self.E
        rows = np.array(E._apply_common_nan(self.case, E._rows(st['rows'])), dtype=float)
        if st['how'] == 'write':
            self.data.dissimilarities[...] = rows
        elif st['how'] == 'rebind':
            self.data.dissimilarities = rows.copy()
        else:
            self.data.append(E._rdms(self.case, rows.tolist()))
        self.sub.clear()                # the caller draws its subsamples again from the edited object


def run_session(case):
    """-> {'steps': [per-step result], 'held': None | label}; every result carries 'state': None | the
    first live object that differs from what it was before the call"""
    live = Live(case)
    out = []
    for st in case['steps']:
        if st['op'] == 'edit':
            live.edit(st)
            out.append({'edit': st['how']})
            continue
        call = live.fit(st) if st['op'] == 'fit' else live.predict(st)
        before = live.snapshot()
        res = call()
        after = live.snapshot()
        res['state'] = Live.diff(before, after)
        res['held'] = live.held_diff()
        out.append(res)
    return {'steps': out}


# ------------------------------------------------------------------ expected predictions (exact)

def expected_predict(case, st):
    """(vector as Fractions, admissible?) by the property's definition: the weighted sum of the basis"""
    md = case['models'][st['model']]
    basis = [[F(unrat(v)) for v in r] for r in md['basis']]
    k = len(basis)
    cls, p = md['cls'], st['theta']
    if cls == 'fixed':
        return basis[0], True
    if cls == 'select':
        return basis[0 if p is None else p], True
    if p is None:
        return None, False
    th = [F(unrat(v)) for v in p]
    vec = [sum(th[i] * basis[i][e] for i in range(k)) for e in range(len(basis[0]))]
    return vec, (cls == 'weighted' or all(t >= 0 for t in th))


def shrink(case, still_fails, failing_step):
    """shortest failing call sequence: cut after the failing step, then drop earlier steps one by one"""
    best = case
    if failing_step is not None and failing_step + 1 < len(best['steps']):
        c = dict(best, steps=best['steps'][:failing_step + 1])
        if still_fails(c):
            best = c
    j = len(best['steps']) - 2
    while j >= 0:
        steps = best['steps'][:j] + best['steps'][j + 1:]
        c = dict(best, steps=steps)
        if any(s['op'] != 'edit' for s in steps) and still_fails(c):
            best = c
        j -= 1
    if len(best['models']) > 1 and all(s.get('model', 0) == best['steps'][-1].get('model', 0)
                                       for s in best['steps'] if s['op'] != 'edit'):
        slot = best['steps'][-1].get('model', 0)
        c = dict(best, models=[best['models'][slot]],
                 steps=[dict(s, model=0) if s['op'] != 'edit' else s for s in best['steps']])
        if still_fails(c):
            best = c
    return copy.deepcopy(best)


# ------------------------------------------------------------------ judging a session in a pristine process

_FRESH_BUDGET = [24]


def fresh_claim(case):
    """the oracle's verdict on `case` in a NEW interpreter (no module-level state left by earlier cases of this
    run): the claim that fails, '' if the property holds there, None if the budget is used up / on error"""
    import os
    import subprocess
    import sys
    if _FRESH_BUDGET[0] <= 0:
        return None
    _FRESH_BUDGET[0] -= 1
    here = os.path.dirname(os.path.dirname(os.path.abspath(__file__)))
    repo = os.environ.get('RSA_REPO', '/repo')
    code = ('import sys, json\n'
            f'sys.path.insert(0, {here!r}); sys.path.insert(0, {os.path.join(repo, "src")!r})\n'
            'from engines import C08\n'
            'o = C08.oracle(json.load(sys.stdin))\n'
            'print("CLAIM=" + (o["features"].get("claim", "?") if o else ""))\n')
    try:
        p = subprocess.run([sys.executable, '-c', code], input=json.dumps(case).encode(), stdout=subprocess.PIPE,
                           stderr=subprocess.DEVNULL, timeout=300,
                           env=dict(os.environ, TQDM_DISABLE='1', OMP_NUM_THREADS='1', OPENBLAS_NUM_THREADS='1'))
        for line in p.stdout.decode().splitlines():
            if line.startswith('CLAIM='):
                return line[6:]
    except Exception:  # noqa: BLE001
        return None
    return None
