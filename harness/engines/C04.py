"""C04 — each stored evaluation is the direct comparison of prediction and resampled data.

Engine interface (see harness/run_check.py):
  THEOREMS, LEVEL, RULE, BRANCHES, generate, run_impl, model_requests, model_result,
  compare, oracle, features, nontrivial_key, search, shrink

A case is ONE CALL of an evaluation routine of rsatoolbox.inference (eval_fixed, eval_bootstrap,
eval_bootstrap_pattern, eval_bootstrap_rdm, crossval on sets of a generator, bootstrap_crossval,
eval_dual_bootstrap, eval_dual_bootstrap_random, bootstrap_testset[_pattern|_rdm]) on a small RDM
stack with grouping descriptors and a list of fixed / weighted / select / interpolate models.

The real routine runs in-process under four taps applied from outside (C04_lib.observe):
  * np.random.randint / np.random.shuffle record every draw the routine makes (seeded generator);
  * every model gets a wrapping fitter that records the object it is fitted on, the pattern
    indices and the resulting parameters / prediction;
  * evaluate.boot_noise_ceiling / cv_noise_ceiling record the objects they are called on and
    their value.
The Lean model (driver op c04.run, Rsa.Core.Eval) gets the data, the recorded draws and the
recorded fitter / noise-ceiling calls *keyed by the content of their arguments*; it recomputes
every stored number.  Compared: evaluations (every entry, NaN positions), noise_ceiling,
variances, dof.  The oracle (C04_lib.plain) is an independent plain-loop transcription of the
property on the original arrays, plus the same-seed rerun.

Round 4 — reuse sessions (C04_session): a case with key `session` is a list of steps on ONE set of
objects; see the module docstring there.
"""
import json
import math

import numpy as np

import lean
from engines import C04_lib as L
from engines import C04_session as S

PROPERTY = 'C04'
LEVEL = 'proof'
P = 'Rsa.Props.C04.'
THEOREMS = [P + n for n in (
    'restrict_entry', 'restrict_mask_aligned', 'sample_is_boot_sample',
    'rdm_sample_unrestricted', 'boot_entry', 'boot_sample_both', 'boot_nan_row',
    'boot_rows_independent', 'noise_ceiling_same_resample', 'boot_row_ok_iff',
    'nan_samples_excluded', 'nan_samples_excluded_rdm', 'cov_entry_spec', 'column_spec',
    'fixed_entry', 'fixed_cov', 'groups_card', 'dof_boot', 'dof_cv', 'dof_fixed',
    'cv_fold_entry', 'cv_fold_nan', 'theta_from_train_only', 'cv_train_test_disjoint',
    'cv_kfold_values_disjoint', 'sample_conds_are_selection', 'cv_pred_aligned',
    'internal_cv_spec', 'bcv_entry', 'bcv_nan_row', 'dual_entry', 'random_entry',
    'testset_entry', 'noise_ceiling_same_resample_cv', 'nan_samples_excluded_cv',
    'eval_deterministic', 'cv_correction_spec',
    # round 3
    'usable_tests_spec', 'cv_cov_switch', 'cvMethod_closed', 'result_ns_consistent',
    'result_ns_random_partial', 'result_crossval_plain', 'result_attrs', 'result_shapes',
    'loops_fill_arrays', 'model_rows_fill_shape', 'crossval_rejects_iff',
    'usable_resample_sets_accepted', 'cov_lt_two_undefined', 'cov_single_obs_numerator',
    'k_default_spec', 'nc_descriptor_spec', 'n_groups_def',
    # round 4: reuse sessions
    'input_write_leaves', 'call_leaves_content_unchanged', 'session_calls_independent',
    'session_final_content', 'sessionSpec_length', 'sessionSpec_append_call', 'session_call_at',
    'session_rerun_identical', 'inplace_write_changes_later_call',
    # round 5: the noise ceiling of the public crossval with / without ceil_set
    'crossval_ceiling_no_ceil_set_spec', 'crossval_ceiling_ceil_set_spec')]
RULE = ('one PRNG; stacks of 2-8 RDMs x 4-12 conditions (dissimilarities k/8, k integer) with int or '
        'str grouping descriptors on either axis or the default index; 1-3 models of the classes '
        'fixed / weighted / select / interpolate, theta given or fitted (default fitters, fit_regress, '
        'fit_optimize observed); methods cosine / corr / spearman / rho-a / tau-a; every routine and '
        'option (N <= 8 quick / 30 thorough, k_pattern, k_rdm 1-3, n_cv 1-3, boot_type, boot_noise_ceil, '
        'use_correction, n_pattern, n_rdm); draws recorded under a numpy seed (thorough: also all draw '
        'outcomes of a 2-RDM x 4-condition bootstrap injected).  A case is non-trivial when at least one '
        'resample differs from the data and at least one evaluation is not NaN; distinct = distinct '
        '(routine, options, stack, models, seed).  Round 4, reuse sessions: ONE data object, one list of model '
        'objects and the parameter arrays handed to 2-3 successive routines (all 7 kinds; method orders corr / '
        'spearman / rho-a before cosine etc.; same-seed reruns; the same theta arrays handed over again; in-place '
        'user edits of a data row, of the parameter arrays, of a grouping descriptor between calls); every call '
        'judged against the content of its moment, inputs bit-identical after every call, Results unchanged '
        'at the end; mutable inputs are never shared between cases (every case builds its objects from its '
        'own JSON numbers).  Round 5, the ceiling of the public crossval: direct calls with calc_noise_ceil=True '
        '(bool / int / numpy bool), ceil_set handed over or left out (the default None), on the folds of every '
        'set generator (sets_k_fold with k_rdm and / or k_pattern > 1, sets_k_fold_rdm, sets_k_fold_pattern, '
        'sets_leave_one_out_rdm / _pattern) and on hand-built splits (RDM positions not aligned with groups, test '
        'RDMs overlapping the training RDMs, single folds, unsorted test groups, pattern indices as list / tuple / '
        'array); every class on a fixed schedule; also as a later call of a reuse session.')
BRANCHES = ['routine:fixed', 'routine:bootstrap', 'routine:crossval', 'routine:bcv', 'routine:dual',
            'routine:random', 'routine:testset', 'bt:both', 'bt:rdm', 'bt:pattern',
            'boot_nc:true', 'boot_nc:false', 'nan_sample', 'ok_sample', 'grouped:rdm',
            'grouped:pattern', 'desc:str', 'model:fixed', 'model:weighted', 'model:select',
            'model:interpolate', 'theta:given', 'fitter:default', 'fitter:regress',
            'correction:on', 'correction:off', 'k:1', 'k:2+', 'cv:ceil', 'cv:noceil',
            'method:cosine', 'method:corr', 'method:spearman', 'method:rho-a', 'method:tau-a',
            'single_rdm',
            # round 3
            'desc:float', 'desc:float-collide-int', 'desc:bool', 'desc:negative', 'desc:array', 'desc:int64', 'desc:tuple',
            'models:4+', 'models:mixed3', 'N:large', 'N:2', 'k:default', 'n:default',
            'cv:nonrandom', 'sets:rejected', 'cov:undefined', 'fitcheck:select',
            'fitcheck:optimize'] + S.SESSION_BRANCHES + [   # round 4: reuse sessions
            # round 5: direct crossval calls, ceiling computed and stored, by path x kind of folds
            'crossval:no_ceil_set:rdm_split', 'crossval:no_ceil_set:both_split',
            'crossval:no_ceil_set:pattern_only', 'crossval:ceil_set:rdm_split',
            'crossval:ceil_set:both_split', 'crossval:ceil_set:pattern_only',
            'crossval:no_ceil_set:gen:k_fold', 'crossval:no_ceil_set:gen:k_fold_rdm',
            'crossval:no_ceil_set:gen:loo_rdm', 'crossval:no_ceil_set:gen:loo_pattern',
            'crossval:no_ceil_set:gen:k_fold_pattern', 'crossval:no_ceil_set:gen:hand',
            'crossval:ceil_set:gen:hand', 'crossval:ceil_set:gen:k_fold', 'crossval:ceil_set:gen:k_fold_rdm',
            'crossval:ceil_set:gen:loo_rdm', 'crossval:ceil_set:gen:loo_pattern',
            'crossval:hand:idx:list', 'crossval:hand:idx:tuple', 'crossval:hand:idx:array',
            'crossval:hand:overlap', 'crossval:calc_nc:nonbool', 'session:crossval:no_ceil_set',
            'session:crossval:no_ceil_set:again-after-edit']
ASSUMPTIONS = [
    'all randomness of the routines comes from numpy.random (randint, shuffle; rand inside '
    'fit_optimize) — checked by the taps (every draw is recorded and replayed in the model) and by '
    'the same-seed rerun (bit-identical Result arrays)',
    'the data and the model RDMs carry the same pattern descriptor in the same order (the routines '
    'never check this); data RDMs have no missing values (missing values are property C13)',
    'fitters and noise-ceiling functions are deterministic functions of their arguments up to the '
    'generator state (fit_optimize); their internals are properties C08 / C07',
]
TRUSTED_EXTRA = [
    'numpy: np.unique, np.sort, np.mean, np.cov (sample covariance, ddof as passed), np.isnan / '
    'np.isfinite masks; contract of rsatoolbox.rdm.compare (property C03, modelled in '
    'Rsa.Core.Compare) and of the RDMs selection methods (properties C09 / C05 / C10)',
]


# ------------------------------------------------------------------ engine callbacks

def run_impl(case):
    if case.get('session'):
        return S.run_impl(case)
    o = L.observe(case)
    if 'exc' in o:
        return {'exc': o['exc'], 'msg': o.get('msg')}
    return o['result']


def model_requests(case):
    if case.get('session'):
        return S.model_requests(case)
    o = L.observe(case)
    req = L.model_request(case, o)
    return [req] if req is not None else []


def model_result(case, answers):
    if case.get('session'):
        return S.model_result(case, answers)
    if not answers:
        return {'exc': L.expected_exception(case) or 'unmodelled'}
    a = answers[0]
    if isinstance(a, dict) and 'model_error' in a:
        return a
    exp = L.expected_exception(case)
    if exp:
        return {'exc': exp}
    return L.model_canon(case, a)       # incl. the modelled rejection of a fold request


def compare(case, impl, model):
    if case.get('session'):
        return S.compare(case, impl, model)
    if isinstance(model, dict) and 'model_error' in model:
        return f'model error {model}'
    if 'exc' in impl or 'exc' in model:
        if impl.get('exc') != model.get('exc'):
            return f"library {impl.get('exc')} ({impl.get('msg')}) vs model {model.get('exc')}"
        return None
    return L.diff_results(case, impl, model, 'library', 'model')


def oracle(case):
    return L.oracle(case)


def features(case, impl):
    return L.features(case, impl)


def nontrivial_key(case, impl):
    if not isinstance(impl, dict) or 'exc' in impl:
        return None
    if case.get('session'):
        if not any('res' in s and 'evals' in s['res'] for s in impl['session']):
            return None
        return ['session', json.dumps(case['steps'], sort_keys=True)[:400],
                json.dumps(case['base']['vecs'])[:200]]
    f = L.features(case, impl)
    if 'ok_sample' not in f['branches'] and case['routine'] not in ('fixed',):
        return None
    return [case['routine'], case.get('bt'), case['seed'], case['method'],
            json.dumps(case['vecs'])[:200], json.dumps(case['models'])[:120],
            json.dumps({k: case.get(k) for k in ('N', 'kr', 'kp', 'n_cv', 'nr', 'np', 'boot_nc',
                                                  'use_correction', 'gen', 'theta', 'fitter', 'ceil', 'calc_nc',
                                                  'calc_nc_form',
                                                  'rdm_groups', 'pat_groups')}, sort_keys=True)]


def generate(rng, tier):
    return L.generate(rng, tier)


def search(rng, tier):
    return L.generate(rng, 'search')


def shrink(case, still_fails):
    return L.shrink(case, still_fails)
