"""C19 — searchlights hold exactly the voxels in radius; RDMs match direct computation.

Engine interface (see harness/run_check.py):
  THEOREMS, LEVEL, RULE, BRANCHES, generate, run_impl, model_requests, model_result,
  compare, oracle, features, nontrivial_key, search, shrink

Seven kinds of cases (`op`; the last three were added in round 3):
  neighbors  `_get_searchlight_neighbors(mask, center, radius)`      vs  `neighborsAlgo` (exact, order too)
  volume     `get_volume_searchlight(mask, radius, threshold)`       vs  `volumeSearchlight` (exact, order too)
  rdms       `get_searchlight_RDMs(data, centers, neighbors, events, method)`
                                                                      vs  `slRdms` (Rat for euclidean /
                                                                          mahalanobis, Float otherwise)
  eval       `evaluate_models_searchlight(sl_RDM, models, f, n_jobs=…)`
                                                                      vs  `collect` (slot per task) and, end to end,
                                                                          `evalSearchlight (parCollect order)`
  points     the split points the code hands to `np.split`, n = 1001..20000
                                                                      vs  `linspacePts`, `ptsOkB`, `splitIdx`
  pipeline   the three library calls chained on the library's own intermediate results
                                                                      vs  the term of `pipeline_per_center`
  (boundary volumes and alternate input forms are `volume` / `rdms` cases)
  round 6: eval / pipeline cases also run REAL evaluations (`ev`: models, theta, method, evaluation function)
           through `evaluate_models_searchlight`  vs  the direct per-centre call, across n_jobs, and — by a spy
           evaluation function — vs `callEval` at the regenerated call sites (`c19.evalkw`)
Numbers: radii are stored as the exact rational value of the float handed to the library,
thresholds as small fractions p/q (the library gets float(p/q)); data are small integers.
"""
import itertools
import math
import os
import sys
import warnings
from fractions import Fraction as F

import numpy as np

from lean import rat, unrat, fbits, unfbits, close

warnings.filterwarnings('ignore', category=RuntimeWarning)

from rsatoolbox.util import searchlight as SL  # noqa: E402

PROPERTY = 'C19'
LEVEL = 'proof'
P = 'Rsa.Props.C19.'
THEOREMS = [P + n for n in (
    'prefilter_sound', 'neighbors_exact', 'neighbors_nodup', 'distLt_iff_sqrt',
    'neighbors_exact_real', 'ravel_injective', 'ravel_range', 'centers_exact',
    'centers_exact_mul', 'centers_ascending', 'centers_neighbors_consistent',
    'chunks_partition', 'floor_points_admissible', 'table_rows', 'rdm_per_center',
    'rdm_columns_order_irrelevant', 'rdm_euclid_of_searchlight',
    'prefilter_leaves', 'radius_test_leaf', 'accept_leaf', 'chunk_limit_leaf', 'rdm_width_leaf',
    'euclid_is_C01_spec',
    'parallel_order_independent_partial', 'parallel_perm_partial',
    # round 3
    'radius_le_one_singleton', 'huge_radius_whole_volume', 'spec_length_ne_zero',
    'threshold_zero_accepts_all', 'threshold_above_one_rejects_all', 'threshold_one_iff_inside',
    'rdm_rows_eq_map', 'ptsOkB_sound', 'checked_points_partition',
    'tasks_one_per_center', 'eval_per_center', 'eval_per_center_any_schedule',
    'pipeline_per_center', 'chunks_cover_any_points', 'table_rows_any_points',
    'rdm_corr_of_searchlight', 'rdm_poisson_of_searchlight',
    # round 4
    'buffer_dtype_leaf', 'table_rows_stored_unchanged',
    # round 6
    'eval_forwarding_leaf', 'call_site_forwards_all', 'eval_per_center_kw',
    'eval_per_center_kw_any_schedule', 'eval_njobs_agree', 'pipeline_per_center_kw',
    # session 3: order structure of searchlights
    'neighbors_mono_radius', 'neighbors_length_mono', 'sqDist_symm', 'neighbors_symm',
    'nonpos_radius_empty', 'neighbors_length_le_size',
    'centers_antitone_threshold', 'centers_mono_mask', 'center_in_own_searchlight')]
RULE = ('one PRNG; ops: neighbors (shape 1..5 per axis, centre inside or up to 2 outside, radius from '
        '{-1,0,.5,1,1.41,1.42,1.5,1.7,1.73,2,2.24,2.3,2.5,3}), volume (shape <= 4x4x3 quick / 5x5x4 '
        'thorough, random mask contents as bool/int/float/non-binary values, thresholds '
        '{0,1/3,1/2,2/3,7/10,1}), rdms (centres/neighbour lists built by an independent brute-force '
        'searchlight, optionally shuffled/subsampled, integer data, 2-4 conditions with arbitrary integer '
        'labels, methods euclidean/mahalanobis/correlation/poisson/crossnobis/poisson_cv (default folds; unbalanced, single-fold designs and an unknown method as rejections); plus volumes with 1000, 1001 and >1001 '
        'centres for the chunked branch), eval (token task through evaluate_models_searchlight with '
        'n_jobs 1-4, thread and process backends, scrambled completion order, and eval_fixed compared '
        'with the per-centre direct call; the vector every task received is compared with the model\'s end-to-end '
        'result), boundary volumes (one voxel thick, radius <= 1, radius 10/15 = whole volume, thresholds 0 / 1 / '
        'exactly the in-mask fraction of some voxel), input forms of get_searchlight_RDMs (data as list / int / '
        'float32 / Fortran / strided, neighbours as lists / arrays / tuples, centres as list, string event labels), '
        'round 4: data dtype / layout (int8/16/32/64, float32, Fortran, strided, nested list, integer Fortran / strided) '
        'CROSSED with the chunked branch (1000, 1001, 1002-1099, 1100, all centres) x euclidean / correlation (all six '
        'methods thorough), searchlights of 7 or 19 voxels, some condition with 2-3 observations (non-integral means); '
        'every chunked result is also compared bit for bit with the library\'s own unchunked result on the first / last '
        '300 centres; pipelines with integer / Fortran data incl. one with > 1000 centres; '
        'round 6: every eval / pipeline case also runs REAL evaluations through evaluate_models_searchlight: '
        'eval_fixed (75 %) or a flexible evaluation that fits unspecified parameters (25 %), models drawn from '
        'ModelFixed / ModelWeighted / ModelSelect (1-3 models, >= 3 conditions), theta None or given per model list '
        '(non-default weights / selections; counted only when it changes some centre\'s value), method corr / cosine, '
        'the case\'s own n_jobs in {1, 2, 3, 4, 8, -1} and backend plus a sweep over n_jobs 1 / 2 / 3 / -1: every '
        'centre\'s result must equal the direct call eval_function(models, sl_RDM[i], method=method, theta=theta) '
        'bit for bit (and a plain-loop corr / cosine for eval_fixed), all n_jobs must agree bit for bit, and a spy '
        'evaluation function reports the keywords it really received per centre (vs the model\'s call sites); '
        'points (for EVERY n in 1001..20000 plus a few up to 10^6 the split points the code under check hands to '
        'np.split, read off by stopping the call there: admissible, equal to the model\'s IEEE linspace, chunks '
        'partition 0..n-1; chunk lengths for every 25th n quick / all thorough), pipeline (mask -> library centres '
        '-> RDMs -> evaluation list, incl. one volume with > 1000 centres). Non-trivial: a searchlight that is neither empty nor the whole '
        'volume / a volume where some but not all mask voxels are accepted / any rdms or eval case with '
        '>= 2 centres; distinct = distinct canonical input.')
BRANCHES = ['nb:clipped', 'nb:interior', 'nb:outside_center', 'nb:r_le_0', 'nb:boundary_radius',
            'vol:all', 'vol:some', 'vol:none', 'vol:thr_fraction', 'vol:nonbinary',
            'rdms:plain', 'rdms:chunked', 'rdms:n1000', 'rdms:n1001', 'rdms:shuffled',
            'rdms:euclidean', 'rdms:correlation', 'rdms:poisson', 'rdms:mahalanobis',
            'rdms:crossnobis', 'rdms:poisson_cv', 'rdms:unbalanced_rejected', 'rdms:single_fold_rejected',
            'rdms:unknown_method',
            'eval:jobs1', 'eval:threads', 'eval:processes',
            # round 3
            'nb:whole_volume', 'nb:singleton', 'nb:thin', 'nb:noncubic', 'nb:huge_radius',
            'vol:thr0', 'vol:thr1', 'vol:frac_eq_thr', 'vol:border_accepted', 'vol:thin',
            'vol:huge_radius', 'vol:radius_le_1',
            'rdms:form_list', 'rdms:form_fortran', 'rdms:form_int', 'rdms:form_f32',
            'rdms:labels_str', 'rdms:nb_arrays', 'rdms:nb_tuples', 'rdms:centers_list',
            'pts:range', 'pts:deviates_from_floor', 'pts:uneven_chunks',
            'eval:end_to_end', 'eval:out_of_order', 'pipe:some', 'pipe:chunked',
            # round 4: dtype / layout of the data crossed with the chunked branch
            'chunked:int', 'chunked:int16', 'chunked:int64', 'chunked:float32', 'chunked:fortran',
            'chunked:strided', 'chunked:list', 'chunked:int_euclidean', 'chunked:int_correlation',
            'chunked:float32_euclidean', 'chunked:float32_correlation',
            'rdms:n1000_int', 'rdms:n1001_int', 'rdms:n1000_float32', 'rdms:n1001_float32',
            'chunked:same_as_plain', 'chunked:same_as_plain_form', 'rdms:form_anyint',
            'pipe:int', 'pipe:chunked_int',
            # round 6: real evaluations, theta / method really forwarded, identical across n_jobs
            'eval:theta-given:n_jobs1', 'eval:theta-given:n_jobsN', 'eval:njobs-agree',
            'eval:theta-none', 'eval:weighted', 'eval:select', 'eval:fixed_models', 'eval:corr', 'eval:cosine',
            'eval:flex', 'eval:n_jobs_minus1', 'eval:theta_tuple', 'eval:kw_received', 'eval:theta-given:processes',
            'pipe:theta-given:n_jobs1', 'pipe:theta-given:n_jobsN']
ASSUMPTIONS = [
    'float64 `sqrt(k) < r` agrees with the exact test `0 < r and k < r^2` for the generated radii '
    '(never within 1e-3 of an irrational sqrt(k); integer radii hit perfect squares exactly)',
    'float64 `count/len >= float(p/q)` agrees with the exact comparison for the small fractions generated',
    'numpy float64 evaluation of the RDM formulas is within 1e-9 relative of the exact / Lean Float value',
]
TRUSTED_EXTRA = [
    'numpy: np.nonzero enumerates in C order; np.ravel_multi_index is C-order raveling; '
    'np.split(np.arange(n), pts) slices consecutively; np.linspace(0,n,101,dtype=int)[1:-1] = '
    'floor(i * (n / 100)) in IEEE doubles (model `linspacePts`, compared with the points of the code for every '
    'n in 1001..20000 each run; admissibility `ptsOkB` checked on all of them; `table_rows_any_points` needs '
    'no assumption on the points at all)',
    'joblib.Parallel returns results in task order for every backend and n_jobs (contract '
    '`parallel_full`; observed for n_jobs 1-4, 8, -1, None, threading and loky)',
    'the call sites of eval_function found in the source text (leaf kind `fwd`) are the calls that run '
    '(observed by a spy evaluation function that reports the keywords it received, every eval / pipeline case)',
]

RADII = [F(-1), F(0), F(1, 2), F(1), F(1.41), F(1.42), F(3, 2), F(1.7), F(1.73), F(2), F(2.24), F(2.3),
         F(5, 2), F(3), F(10), F(15)]
RADII_POS = [r for r in RADII if r > 0]
RADII_HUGE = [F(10), F(15)]     # whole volume; kept moderate: implementations that build a
#                                 template sphere of the radius get slow with 100 (seeded C19-5 / C19-6: 400 s)
CV_METHODS = ('crossnobis', 'poisson_cv')
METHODS = ['euclidean', 'correlation', 'poisson', 'mahalanobis', 'crossnobis', 'poisson_cv']
THRESHOLDS = [F(0), F(1, 3), F(1, 2), F(2, 3), F(7, 10), F(1)]
_OBSERVED_ORDER = {}
_POINTS_IMPL = {}


# ------------------------------------------------------------------ helpers

def _key(case):
    import json
    return json.dumps(case, sort_keys=True)


def _radius_arg(case):
    r = unrat(case['radius'])
    if case.get('radius_int') and r.denominator == 1:
        return int(r)
    return float(r)


def _spec_searchlight(shape, c, r):
    """independent transcription: every voxel of the volume whose Euclidean distance to the
    centre is strictly below the radius (C order); exact arithmetic"""
    out = []
    if r <= 0:
        return out
    rr = r * r
    for x in range(shape[0]):
        for y in range(shape[1]):
            for z in range(shape[2]):
                if (x - c[0]) ** 2 + (y - c[1]) ** 2 + (z - c[2]) ** 2 < rr:
                    out.append((x, y, z))
    return out


def _spec_searchlight_np(shape, c, r):
    """same as `_spec_searchlight`, integer numpy arithmetic, for large volumes"""
    if r <= 0:
        return np.zeros((0,), dtype=int)
    X, Y, Z = np.indices(shape)
    k = (X - c[0]) ** 2 + (Y - c[1]) ** 2 + (Z - c[2]) ** 2
    p, q = r.numerator, r.denominator
    return np.flatnonzero((k * (q * q) < p * p).ravel())


def _lin(shape, v):
    return (v[0] * shape[1] + v[1]) * shape[2] + v[2]


_VOL_INFO = {}


def _spec_volume(shape, flags, r, thr, fast=False, info=None):
    """accepted centres (ascending linear index) and their searchlights (linear, C order);
    `info` (a dict) receives boundary facts: a mask voxel whose in-mask fraction equals the
    threshold exactly, an accepted centre whose searchlight is clipped by the volume"""
    centers, nbs = [], []
    n = shape[0] * shape[1] * shape[2]
    fl = np.asarray(flags)
    for i in range(n):
        if not flags[i]:
            continue
        c = (i // (shape[1] * shape[2]), i // shape[2] % shape[1], i % shape[2])
        if fast:
            s = _spec_searchlight_np(shape, c, r)
            cnt, tot = int(fl[s].sum()), len(s)
            s = s.tolist()
        else:
            s = [_lin(shape, v) for v in _spec_searchlight(shape, c, r)]
            cnt, tot = sum(1 for j in s if flags[j]), len(s)
        if info is not None and tot > 0:
            if F(cnt, tot) == thr:
                info['frac_eq_thr'] = True
            if F(cnt, tot) >= thr and r > 0:
                reach = math.ceil(r) - 1 if r.denominator == 1 else math.floor(r)
                if any(ci - reach < 0 or ci + reach >= sh for ci, sh in zip(c, shape)):
                    info['border_accepted'] = True
        if tot > 0 and F(cnt, tot) >= thr:
            centers.append(i)
            nbs.append(s)
    return centers, nbs


def _mask_array(case):
    shape = tuple(case['shape'])
    kind = case.get('mask_kind', 'float')
    vals = [unrat(v) for v in case['mask']]
    if kind == 'bool':
        a = np.array([bool(v) for v in vals], dtype=bool)
    elif kind == 'int':
        a = np.array([int(v) for v in vals], dtype=int)
    elif kind == 'list':
        return np.array([float(v) for v in vals]).reshape(shape).tolist()
    else:
        a = np.array([float(v) for v in vals], dtype=float)
    return a.reshape(shape)


def _flags(case):
    return [1 if unrat(v) != 0 else 0 for v in case['mask']]


def _expand_rdms(case):
    """data matrix, centres, neighbour lists and events of an rdms / eval case"""
    import random
    shape = tuple(case['shape'])
    n = shape[0] * shape[1] * shape[2]
    flags = _flags(case)
    centers, nbs = _spec_volume(shape, flags, unrat(case['radius']), unrat(case['threshold']),
                                fast=n > 300)
    rr = random.Random(case['seed'])
    if case.get('shuffle'):
        order = list(range(len(centers)))
        rr.shuffle(order)
        centers = [centers[i] for i in order]
        nbs = [nbs[i] for i in order]
        for s in nbs:
            rr.shuffle(s)
    if case.get('take') is not None:
        centers, nbs = centers[:case['take']], nbs[:case['take']]
    events = list(case['events'])
    lo, hi = (0, 6) if case['method'] in ('poisson', 'poisson_cv') else (-4, 4)
    data = [[rr.randint(lo, hi) for _ in range(n)] for _ in events]
    return data, centers, nbs, events


def _label_str(e):
    """string form of an integer event label whose lexicographic order is the integer order"""
    return 'c%03d' % (e + 100)


def _data_form(dk, data):
    """the data matrix as the kind of object `dk` names (dtype / memory layout / nesting)"""
    if dk == 'list':
        return [[float(v) for v in row] for row in data]
    if dk == 'int':
        return np.array(data, dtype=np.int64)
    if dk in ('int16', 'int8', 'int32'):
        return np.array(data, dtype={'int16': np.int16, 'int8': np.int8, 'int32': np.int32}[dk])
    if dk == 'f32':
        return np.array(data, dtype=np.float32)
    if dk == 'fortran':
        return np.asfortranarray(np.array(data, dtype=float))
    if dk == 'fortran_int':
        return np.asfortranarray(np.array(data, dtype=np.int32))
    if dk in ('strided', 'strided_int'):
        big = np.zeros((len(data) * 2, len(data[0]) * 2), dtype=float if dk == 'strided' else np.int16)
        big[::2, ::2] = np.array(data)
        return big[::2, ::2]
    return np.array(data, dtype=float)


INT_FORMS = ('int', 'int16', 'int8', 'int32', 'fortran_int', 'strided_int')
DATA_FORMS = ['list', 'int', 'int16', 'f32', 'fortran', 'strided', 'float', 'int32', 'strided_int', 'fortran_int',
              'int8']


def _lib_args(case, data, centers, nbs, events):
    """the arguments in the form the case asks for (`form`): every public way of handing the
    same data matrix / centres / neighbour lists / events to `get_searchlight_RDMs`"""
    form = case.get('form') or {}
    d = _data_form(form.get('data', 'float'), data)
    nk = form.get('nb', 'list')
    if nk == 'array':
        nb = [np.array(s, dtype=int) for s in nbs]
    elif nk == 'tuple':
        nb = tuple(tuple(s) for s in nbs)
    else:
        nb = nbs
    c = list(centers) if form.get('centers') == 'list' else np.array(centers)
    ev = [_label_str(e) for e in events] if form.get('events') == 'str' else events
    ev = ev if form.get('events_list') else np.array(ev)
    return d, c, nb, ev


class _Abort(Exception):
    pass


class _NumpyProxy:
    """stands in for the `np` of util/searchlight.py while the split points are read off:
    everything is numpy's, except that `split` records its arguments and stops the call"""

    def __init__(self):
        self.seen = None

    def __getattr__(self, name):
        return getattr(np, name)

    def split(self, ary, pts, *a, **k):
        self.seen = (np.array(ary), np.array(pts))
        raise _Abort()


def _real_split(n):
    """the array and the split points that the *code under check* hands to `np.split` for `n`
    centres (no RDM is computed: the call is stopped at `np.split`); None if it does not chunk"""
    proxy = _NumpyProxy()
    old = SL.np
    SL.np = proxy
    try:
        SL.get_searchlight_RDMs(np.zeros((2, 1)), np.arange(n), None, np.array([0, 1]),
                                method='euclidean')
    except _Abort:
        pass
    except Exception:   # noqa: BLE001  (not chunked: the plain branch fails on neighbors=None)
        pass
    finally:
        SL.np = old
    return proxy.seen


def _run_points(case):
    out = {'ns': [], 'minus_one': [], 'pts': [], 'n_chunks': [], 'lens': [], 'partition': [], 'chunked': []}
    for n in case['ns']:
        seen = _real_split(n)
        out['ns'].append(n)
        if seen is None:
            for k in ('minus_one', 'pts', 'lens'):
                out[k].append(None)
            out['n_chunks'].append(0)
            out['partition'].append(True)
            out['chunked'].append(False)
            continue
        arr, pts = seen
        chunks = np.split(arr, pts)
        flat = np.concatenate(chunks) if chunks else np.zeros(0, dtype=int)
        part = bool(arr.shape == (n,) and np.array_equal(arr, np.arange(n))
                    and flat.shape == (n,) and np.array_equal(flat, np.arange(n)))
        ptl = [int(x) for x in pts]
        fl = [(i + 1) * n // 100 for i in range(99)]
        if len(ptl) == 99 and all(0 <= a - b <= 1 for a, b in zip(fl, ptl)):
            out['minus_one'].append([i for i, (a, b) in enumerate(zip(fl, ptl)) if a != b])
            out['pts'].append(None)
        else:
            out['minus_one'].append(None)
            out['pts'].append(ptl)
        out['n_chunks'].append(len(chunks))
        out['lens'].append([int(len(c)) for c in chunks] if n in case.get('full', ()) else None)
        out['partition'].append(part)
        out['chunked'].append(True)
    _POINTS_IMPL[_key(case)] = out
    return out


# ------------------------------------------------------------------ generation

def _rand_mask(rng, n, kind):
    dens = rng.choice([0.35, 0.6, 0.8, 0.9, 1.0])
    on = [1 if rng.random() < dens else 0 for _ in range(n)]
    if kind == 'nonbinary':
        style = rng.choice(['two', '255', 'neg', 'half', 'labels'])
        val = {'two': lambda: F(2), '255': lambda: F(255), 'neg': lambda: F(-1),
               'half': lambda: F(1, 2), 'labels': lambda: F(rng.randint(1, 4))}[style]
        return [rat(val() * b) for b in on]
    return on


def _gen_neighbors(rng, big=False):
    hi = 7 if big else 5
    shape = [rng.randint(1, hi) for _ in range(3)]
    if rng.random() < 0.12:
        center = [rng.randint(-2, s + 1) for s in shape]
    else:
        center = [rng.randint(0, s - 1) for s in shape]
    r = rng.choice(RADII)
    return {'op': 'neighbors', 'shape': shape, 'center': center, 'radius': rat(r),
            'radius_int': rng.random() < 0.5}


def _gen_volume(rng, big=False):
    shape = [rng.randint(1, 5 if big else 4), rng.randint(1, 5 if big else 4), rng.randint(1, 4 if big else 3)]
    n = shape[0] * shape[1] * shape[2]
    kind = rng.choice(['bool', 'int', 'float', 'float', 'list', 'nonbinary'])
    mask = _rand_mask(rng, n, kind)
    return {'op': 'volume', 'shape': shape, 'mask': mask,
            'mask_kind': 'float' if kind == 'nonbinary' else kind,
            'radius': rat(rng.choice(RADII if rng.random() < 0.15 else RADII_POS)),
            'radius_int': rng.random() < 0.5,
            'threshold': rat(rng.choice(THRESHOLDS))}


def _gen_events(rng, method):
    nc = rng.randint(2, 4)
    labels = rng.sample(range(-3, 13), nc)
    if method == 'correlation':
        reps = [rng.choice([1, 2, 4]) for _ in labels]
    elif method in CV_METHODS:
        # no cv descriptor can be passed through the searchlight API: folds come from the default
        # rule (k-th observation of a condition -> fold k), which needs a balanced design
        u = rng.random()
        k = 1 if u < 0.08 else rng.randint(2, 3)
        reps = [k for _ in labels]
        if 0.08 <= u < 0.2:
            reps[rng.randrange(nc)] += 1          # unbalanced: rejected
    else:
        reps = [rng.randint(1, 3) for _ in labels]
    ev = [l for l, k in zip(labels, reps) for _ in range(k)]
    rng.shuffle(ev)
    return ev


def _gen_rdms(rng, method=None):
    method = method or (rng.choice(METHODS) if rng.random() > 0.04 else 'bogus')
    while True:
        shape = [rng.randint(2, 4), rng.randint(1, 4), rng.randint(1, 3)]
        n = shape[0] * shape[1] * shape[2]
        mask = _rand_mask(rng, n, 'int')
        case = {'op': 'rdms', 'shape': shape, 'mask': mask,
                'radius': rat(rng.choice([F(1), F(3, 2), F(3, 2), F(2), F(1.7), F(5, 2)])),
                'threshold': rat(rng.choice([F(0), F(1, 2), F(2, 3)])),
                'events': _gen_events(rng, method), 'method': method,
                'seed': rng.randint(0, 10 ** 9), 'shuffle': rng.random() < 0.4, 'take': None}
        if rng.random() < 0.5:
            # the same inputs handed over in another public form
            case['form'] = {'data': rng.choice(DATA_FORMS),
                            'nb': rng.choice(['list', 'array', 'tuple']),
                            'centers': rng.choice(['array', 'list']),
                            'events': rng.choice(['int', 'str']),
                            'events_list': rng.random() < 0.5}
        if len(_expand_rdms(case)[1]) >= 1:
            return case


def _events_nonintegral(rng, method):
    """events in which some condition has 2 or 3 observations (condition means in halves / thirds)"""
    while True:
        ev = _gen_events(rng, method)
        if any(ev.count(c) in (2, 3) for c in set(ev)):
            return ev


def _gen_big(rng, take, method='euclidean', form=None):
    """a volume with more than 1000 accepted centres (radius small, threshold 0); with `form` the
    inputs are handed over in that public form (dtype / layout x chunked branch, round 4): tiny
    searchlights (7 or 19 voxels), condition means that are not integers"""
    shape = rng.choice([[11, 11, 11], [12, 10, 9], [10, 11, 10], [13, 9, 9], [26, 8, 5]])
    n = shape[0] * shape[1] * shape[2]
    mask = [1] * n
    for _ in range(rng.randint(0, 15)):
        mask[rng.randrange(n)] = 0
    case = {'op': 'rdms', 'shape': shape, 'mask': mask, 'radius': rat(rng.choice([F(3, 2), F(2)])),
            'threshold': 0, 'events': _gen_events(rng, method), 'method': method,
            'seed': rng.randint(0, 10 ** 9), 'shuffle': rng.random() < 0.5, 'take': take}
    if form is not None:
        case['radius'] = rat(rng.choice([F(6, 5), F(6, 5), F(3, 2)]))
        case['events'] = _events_nonintegral(rng, method)
        case['form'] = dict({'nb': rng.choice(['list', 'array']), 'centers': rng.choice(['array', 'list']),
                             'events': rng.choice(['int', 'int', 'str']), 'events_list': rng.random() < 0.5},
                            **form)
    return case


def _gen_chunked_forms(rng, tier):
    """round 4: every dtype / layout of the data matrix crossed with the chunked branch (> 1000
    centres, also exactly 1000 / 1001) and with the methods euclidean / correlation (all six thorough)"""
    quick = tier == 'quick'
    kinds = ['int16', 'int', 'f32', 'fortran', 'strided', 'list', 'int32', 'strided_int', 'fortran_int', 'int8']
    takes = [1001, None, rng.randint(1002, 1099), 1100, None]
    rng.shuffle(takes)
    for i, dk in enumerate(kinds):
        for j, m in enumerate(('euclidean', 'correlation')):
            if quick and i >= 6 and (i + j) % 2:
                continue                       # the rarer kinds: one method each in the quick tier
            yield _gen_big(rng, takes[(i + j) % len(takes)], m, form={'data': dk})
    # the limit itself, integer and single-precision data: 1000 (plain), 1001 (first chunked)
    for dk in ('int16', 'f32'):
        yield _gen_big(rng, 1000, rng.choice(['euclidean', 'correlation']), form={'data': dk})
        yield _gen_big(rng, 1001, rng.choice(['euclidean', 'correlation']), form={'data': dk})
    if not quick:
        for m in METHODS:
            for dk in ('int16', 'int', 'f32', 'fortran_int', 'strided_int', 'fortran'):
                yield _gen_big(rng, rng.choice([None, 1001, 1002, 1100]), m, form={'data': dk})


EV_NJOBS_SWEEP = [1, 2, 3, -1, None]      # None = joblib's default (one job)


def _theta_arg(ev):
    """theta as handed to the library: list / tuple / numpy array"""
    th = ev['theta']
    if th is None:
        return None
    form = ev.get('theta_form', 'list')
    if form == 'tuple':
        return tuple(tuple(t) if isinstance(t, list) else t for t in th)
    if form == 'array':
        return np.array(th, dtype=float)
    return [list(t) if isinstance(t, list) else t for t in th]


def _gen_ev(rng, want_theta=None, fn=None, kinds=None):
    """round 6: the real evaluation of an eval / pipeline case: which models (1-3 of ModelFixed /
    ModelWeighted / ModelSelect), theta (None, or per model: None for a fixed model, non-default
    weights for a weighted one, a non-default selection for a select model), method, evaluation function"""
    if kinds is None:
        kinds = [rng.choice(['fixed', 'weighted', 'select', 'weighted']) for _ in range(rng.randint(1, 3))]
        if all(k == 'fixed' for k in kinds) and rng.random() < 0.7:
            kinds[rng.randrange(len(kinds))] = rng.choice(['weighted', 'select'])
    given = (rng.random() < 0.7) if want_theta is None else want_theta
    if want_theta and all(k == 'fixed' for k in kinds):
        kinds[0] = 'weighted'      # a requested theta must be able to matter
    if not given:
        kinds = [k if k != 'select' else 'weighted' for k in kinds]   # ModelSelect has no usable default here
        theta = None
    else:
        theta = []
        for k in kinds:
            if k == 'fixed':
                theta.append(None)
            elif k == 'weighted':
                w = [rng.choice([-1.5, -0.5, 0.0, 0.25, 0.5, 2.0, 3.0]) for _ in range(3)]
                if len(set(w)) == 1:
                    w[0] = w[0] + 1.0           # not proportional to the default (1, 1, 1)
                theta.append(w)
            else:
                theta.append(rng.choice([1, 2]))  # default selection is 0
    # the container handed over: list (documented), tuple, or a 2-D numpy array (all models weighted)
    form = 'list'
    if theta is not None:
        form = rng.choice(['list', 'list', 'tuple', 'array' if all(k == 'weighted' for k in kinds) else 'tuple'])
    return {'kinds': kinds, 'theta': theta, 'theta_form': form, 'method': rng.choice(['corr', 'cosine']),
            'fn': fn or ('flex' if rng.random() < 0.25 else 'fixed'), 'seed': rng.randint(0, 10 ** 6)}


def _events3(rng):
    """>= 3 conditions: >= 3 dissimilarities per RDM, so that corr / cosine depend on the prediction"""
    while True:
        ev = _gen_events(rng, 'euclidean')
        if len(set(ev)) >= 3:
            return ev


def _gen_eval(rng, n_jobs, backend, want_theta=None, fn=None, max_centers=None):
    while True:
        base = _gen_rdms(rng, 'euclidean')
        base['events'] = _events3(rng)
        nc0 = len(_expand_rdms(base)[1])
        if nc0 >= 4 and (max_centers is None or nc0 <= max_centers):
            break
    base.pop('form', None)
    ncent = len(_expand_rdms(base)[1])
    sched = list(range(ncent))
    rng.shuffle(sched)
    delays = [rng.choice([0, 0, 1, 2, 3]) for _ in range(ncent)]
    if n_jobs != 1:
        delays[0] = 25      # the first task certainly finishes after the second: out of order
    return dict(base, op='eval', n_jobs=n_jobs, backend=backend,
                delays=delays, sched=sched,
                model_seed=rng.randint(0, 10 ** 6), ev=_gen_ev(rng, want_theta, fn))


def _gen_points(tier):
    """every number of centres from 1001 to 20000: the split points the code under check
    really hands to `np.split` (no RDM is computed); `full` = also the chunk lengths"""
    step = 1 if tier != 'quick' else 25
    for lo in range(1001, 20001, 1000):
        ns = list(range(lo, min(lo + 1000, 20001)))
        yield {'op': 'points', 'ns': ns, 'full': [n for n in ns if n % step == 0 or n in (1001, 20000)]}
    # far above: spot checks
    yield {'op': 'points', 'ns': [25000, 99999, 100000, 123457, 1000000], 'full': [25000, 123457]}


PIPE_KINDS = ('int16', 'int', 'fortran', 'strided_int', 'fortran_int')   # exact in the library (no float32)


def _gen_pipeline(rng, big=False, kind=None):
    """mask -> library's own centres / neighbours -> RDMs -> evaluation list; `kind` = dtype / layout
    of the data matrix (round 4; default float64 C order)"""
    if kind is None and not big and rng.random() < 0.3:
        kind = rng.choice(PIPE_KINDS)
    while True:
        if big:
            shape = rng.choice([[11, 11, 10], [12, 10, 9], [21, 8, 7]])
            n = shape[0] * shape[1] * shape[2]
            mask = [1] * n
            for _ in range(rng.randint(0, 25)):
                mask[rng.randrange(n)] = 0
            r, thr = rng.choice([F(1), F(3, 2)]), rng.choice([F(0), F(1, 2)])
        else:
            shape = [rng.randint(1, 4), rng.randint(1, 4), rng.randint(1, 3)]
            n = shape[0] * shape[1] * shape[2]
            mask = _rand_mask(rng, n, 'int')
            r, thr = rng.choice(RADII_POS), rng.choice(THRESHOLDS)
        case = {'op': 'pipeline', 'shape': shape, 'mask': mask, 'radius': rat(r), 'threshold': rat(thr),
                'events': _gen_events(rng, 'euclidean'), 'method': 'euclidean',
                'seed': rng.randint(0, 10 ** 9), 'shuffle': False, 'take': None,
                'n_jobs': rng.choice([1, 1, 2, 3])}
        if kind:
            case['data_kind'] = kind
            case['events'] = _events_nonintegral(rng, 'euclidean')
        if big or rng.random() < 0.6:
            # round 6: a real evaluation at the end of the pipeline (needs >= 3 conditions to mean anything)
            if len(set(case['events'])) < 3:
                while True:
                    ev = _events_nonintegral(rng, 'euclidean') if kind else _gen_events(rng, 'euclidean')
                    if len(set(ev)) >= 3:
                        case['events'] = ev
                        break
            case['ev'] = _gen_ev(rng, want_theta=True if big else None, fn='fixed')
        nc = len(_expand_rdms(case)[1])
        if (nc > 1000) if big else (nc >= 1):
            return case


def _gen_boundary(rng):
    """volumes one voxel thick, masks reaching the faces, radius <= 1 / whole-volume radius,
    thresholds 0 and 1, and masks built so that a fraction equals the threshold exactly"""
    kind = rng.choice(['thin', 'thin', 'huge', 'small_r', 'thr_eq', 'full_border'])
    if kind == 'thin':
        shape = [rng.randint(1, 6), rng.randint(1, 6), rng.randint(1, 6)]
        for ax in rng.sample(range(3), rng.choice([1, 2])):
            shape[ax] = 1
    else:
        shape = [rng.randint(2, 4), rng.randint(2, 4), rng.randint(1, 3)]
    n = shape[0] * shape[1] * shape[2]
    mask = [1] * n if kind == 'full_border' else _rand_mask(rng, n, 'int')
    r = {'huge': lambda: rng.choice(RADII_HUGE), 'small_r': lambda: rng.choice([F(1, 2), F(1), F(0.999), F(1.001)]),
         }.get(kind, lambda: rng.choice(RADII_POS))()
    thr = rng.choice([F(0), F(1)]) if kind in ('huge', 'small_r', 'full_border') else rng.choice(THRESHOLDS)
    if kind == 'thr_eq':
        # pick the threshold as the exact in-mask fraction of some mask voxel's searchlight
        flags = mask
        cands = []
        for i in range(n):
            if flags[i]:
                c = (i // (shape[1] * shape[2]), i // shape[2] % shape[1], i % shape[2])
                sl = [_lin(shape, v) for v in _spec_searchlight(shape, c, r)]
                if sl:
                    cands.append(F(sum(1 for j in sl if flags[j]), len(sl)))
        cands = [f for f in cands if 0 < f < 1]
        if cands:
            thr = rng.choice(cands)
    return {'op': 'volume', 'shape': shape, 'mask': mask, 'mask_kind': rng.choice(['bool', 'int', 'float']),
            'radius': rat(r), 'radius_int': rng.random() < 0.5, 'threshold': rat(thr)}


def _exhaustive_222():
    """every mask of the 2x2x2 volume, radii 1, 1.5, 2, every threshold"""
    for bits in itertools.product([0, 1], repeat=8):
        for r in (F(1), F(3, 2), F(2)):
            for thr in THRESHOLDS:
                yield {'op': 'volume', 'shape': [2, 2, 2], 'mask': list(bits), 'mask_kind': 'int',
                       'radius': rat(r), 'radius_int': False, 'threshold': rat(thr)}


def _exhaustive_neighbors():
    """every shape up to 3x3x3, every in-volume centre, every radius of the list"""
    for shape in itertools.product([1, 2, 3], repeat=3):
        for c in itertools.product(*[range(k) for k in shape]):
            for r in RADII:
                yield {'op': 'neighbors', 'shape': list(shape), 'center': list(c), 'radius': rat(r),
                       'radius_int': False}


def generate(rng, tier):
    quick = tier == 'quick'
    # one centre per voxel of a few volumes: all centres, all radii of interest
    for _ in range(2 if quick else 60):
        shape = [rng.randint(2, 4), rng.randint(2, 4), rng.randint(1, 3)]
        r = rng.choice(RADII_POS)
        for c in itertools.product(*[range(s) for s in shape]):
            yield {'op': 'neighbors', 'shape': shape, 'center': list(c), 'radius': rat(r),
                   'radius_int': False}
    for _ in range(1500 if quick else 30000):
        yield _gen_neighbors(rng, big=not quick)
    for _ in range(1200 if quick else 25000):
        yield _gen_volume(rng, big=not quick)
    for _ in range(300 if quick else 6000):
        yield _gen_boundary(rng)
    yield from _gen_points(tier)
    for _ in range(60 if quick else 1200):
        yield _gen_pipeline(rng)
    yield _gen_pipeline(rng, big=True)
    yield _gen_pipeline(rng, big=True, kind=rng.choice(['int16', 'int']))
    if not quick:
        yield from _exhaustive_222()
        yield from _exhaustive_neighbors()
    for _ in range(300 if quick else 6000):
        yield _gen_rdms(rng)
    # chunking: exactly at, just above, and well above the limit
    yield _gen_big(rng, 1000, 'euclidean')
    yield _gen_big(rng, 1001, 'euclidean')
    yield _gen_big(rng, rng.randint(1002, 1099), 'euclidean')   # same session, neighbouring n
    yield _gen_big(rng, None, 'correlation')
    yield _gen_big(rng, rng.choice([None, 1002, 1100]), 'poisson')
    yield _gen_big(rng, rng.choice([None, 1001]), 'mahalanobis')
    yield _gen_big(rng, rng.choice([None, 1001]), 'crossnobis')
    yield _gen_big(rng, None, 'poisson_cv')
    yield from _gen_chunked_forms(rng, tier)
    if not quick:
        for m in METHODS:
            yield _gen_big(rng, rng.choice([None, 1001, 1002, 1100]), m)
            yield _gen_big(rng, None, m)
    yield _gen_eval(rng, 1, 'threading')
    for nj in ((2, 3, 4, 2, 4) if quick else (2, 3, 4, 2, 3, 4, 8, 2, 3, 4)):
        yield _gen_eval(rng, nj, 'threading')
    yield _gen_eval(rng, 2, 'loky', want_theta=True, max_centers=16)
    if not quick:
        yield _gen_eval(rng, 4, 'loky')
    # round 6: theta None / given x eval_fixed / flexible x n_jobs 1 (the default) / 2 / 3 / -1
    for nj, th, fn in [(1, True, 'fixed'), (1, True, 'flex'), (1, False, 'fixed'), (1, True, None),
                       (2, True, 'fixed'), (3, True, None), (-1, True, 'fixed'), (-1, False, None),
                       (2, False, 'flex'), (1, True, None), (3, True, 'flex'), (1, None, None)] \
            * (1 if quick else 12):
        yield _gen_eval(rng, nj, 'threading', want_theta=th, fn=fn, max_centers=20)
    # keep a small case last (evidence samples show the last case)
    yield _gen_neighbors(rng)


def search(rng, tier):
    """small cases only, for the failing-input search"""
    while True:
        yield _gen_volume(rng)
        yield _gen_neighbors(rng)
        yield _gen_rdms(rng)
        yield _gen_boundary(rng)
        yield _gen_pipeline(rng)
        if rng.random() < 0.02:
            lo = rng.randint(1001, 19000)
            yield {'op': 'points', 'ns': list(range(lo, lo + 200)), 'full': [lo]}
        if rng.random() < 0.05:
            yield _gen_big(rng, rng.choice([None, 1001]), 'euclidean')
        if rng.random() < 0.08:
            yield _gen_big(rng, rng.choice([None, 1001, 1000]), rng.choice(['euclidean', 'correlation']),
                           form={'data': rng.choice(DATA_FORMS)})
        if rng.random() < 0.25:
            yield _gen_eval(rng, rng.choice([1, 1, 2, 3, -1]), 'threading', want_theta=rng.random() < 0.8,
                            max_centers=12)


# ------------------------------------------------------------------ real code

def _exc(exc):
    name = type(exc).__name__
    return {'exc': name if name in ('ValueError', 'TypeError', 'AssertionError', 'IndexError',
                                    'NotImplementedError') else 'other'}


def _ev_models(ev, npair):
    """the models of a real evaluation, deterministic in ev['seed']: (model objects, their RDM vectors)"""
    from rsatoolbox.model import ModelFixed, ModelWeighted, ModelSelect
    mrng = np.random.default_rng(ev['seed'])
    models, vecs = [], []
    for k, kind in enumerate(ev['kinds']):
        if kind == 'fixed':
            v = np.round(mrng.random(npair), 3)
            models.append(ModelFixed(f'f{k}', v))
        else:
            v = np.round(mrng.random((3, npair)), 3)
            models.append((ModelWeighted if kind == 'weighted' else ModelSelect)(f'{kind[0]}{k}', v))
        vecs.append(v.tolist())
    return models, vecs


def _ev_fn(ev):
    from rsatoolbox.inference import eval_fixed
    from engines.C19_tasks import flex_eval
    return eval_fixed if ev['fn'] == 'fixed' else flex_eval


def _evals(res):
    """evaluations of a rsatoolbox Result as a flat list (NaN -> None)"""
    return [None if math.isnan(v) else float(v) for v in np.asarray(res.evaluations, dtype=float).ravel()]


def _plain_eval(ev, vecs, vec, theta_k_list):
    """plain-loop corr / cosine between each model's prediction and the data vector (eval_fixed only)"""
    out = []
    for kind, mv, th in zip(ev['kinds'], vecs, theta_k_list):
        if kind == 'fixed':
            pred = list(mv)
        elif kind == 'weighted':
            w = [1.0, 1.0, 1.0] if th is None else th
            pred = [sum(w[r] * mv[r][j] for r in range(3)) for j in range(len(vec))]
        else:
            pred = list(mv[0 if th is None else th])
        a, b = list(pred), list(vec)
        if ev['method'] == 'corr':
            ma, mb = sum(a) / len(a), sum(b) / len(b)
            a, b = [x - ma for x in a], [y - mb for y in b]
        na, nb = math.sqrt(sum(x * x for x in a)), math.sqrt(sum(y * y for y in b))
        out.append(None if na == 0 or nb == 0 else sum(x * y for x, y in zip(a, b)) / (na * nb))
    return out


def _run_real_eval(sl, ev, nj, backend, sweep, idx=None):
    """round 6.  `evaluate_models_searchlight(sl, models, eval_function, method, theta, n_jobs)` with real
    models, against the direct per-centre call made here, outside the library's loop; the same call for every
    n_jobs of the sweep (threads); and a spy evaluation function that reports the keywords it received"""
    import joblib
    import json
    from engines.C19_tasks import spy_eval
    npair = sl.dissimilarities.shape[1]
    models, vecs = _ev_models(ev, npair)
    fn, method, theta = _ev_fn(ev), ev['method'], _theta_arg(ev)
    idx = list(range(sl.n_rdm)) if idx is None else idx
    out = {'n_centers': int(sl.n_rdm), 'checked': len(idx)}

    def lib(n_jobs, be):
        try:
            with joblib.parallel_backend(be):
                r = SL.evaluate_models_searchlight(sl, models, fn, method=method, theta=theta, n_jobs=n_jobs)
            return [_evals(x) for x in r]
        except Exception as exc:  # noqa: BLE001
            return _exc(exc)

    def direct(i, th):
        try:
            return _evals(fn(models, sl[i], method=method, theta=th))
        except Exception as exc:  # noqa: BLE001
            return _exc(exc)

    own = lib(nj, backend)
    want = {i: direct(i, theta) for i in idx}
    out['own_exc'] = own.get('exc') if isinstance(own, dict) else None
    bad = []
    if isinstance(own, dict):
        ok_exc = all(isinstance(w, dict) and w.get('exc') == own.get('exc') for w in want.values())
        if not ok_exc:
            bad = [[-1, own, _nonan(want[idx[0]])]]
    else:
        if len(own) != sl.n_rdm:
            bad.append([-1, f'{len(own)} results', f'{sl.n_rdm} centres'])
        for i in idx:
            if i >= len(own) or own[i] != want[i]:
                bad.append([i, own[i] if i < len(own) else None, want[i]])
    out['mismatch'] = len(bad)
    out['first'] = bad[0] if bad else None
    # does the given theta matter (some centre's value differs from the value with default parameters)?
    matters = False
    if theta is not None:
        dflt = [None if k != 'select' else 0 for k in ev['kinds']]
        matters = any(direct(i, dflt) != want[i] for i in idx[:6])
    out['theta_matters'] = matters
    # plain loops (eval_fixed only): an evaluation independent of rsatoolbox's compare / predict
    out['plain_bad'] = None
    if ev['fn'] == 'fixed' and not isinstance(own, dict):
        ths = ev['theta'] if ev['theta'] is not None else [None] * len(ev['kinds'])
        for i in idx:
            if i >= len(own):
                break
            pl = _plain_eval(ev, vecs, [float(v) for v in sl.dissimilarities[i]], ths)
            for g, w in zip(own[i], pl):
                # (a zero-norm vector is a degenerate comparison: skipped)
                if g is not None and w is not None and not close(g, w, 1e-9, 1e-9):
                    out['plain_bad'] = [i, own[i], pl]
                    break
            if out['plain_bad']:
                break
    # identical across n_jobs
    out['sweep'] = []
    out['njobs_differ'] = []
    if sweep:
        ref = None
        for n2 in EV_NJOBS_SWEEP:
            r = own if (n2 == nj and backend == 'threading') else lib(n2, 'threading')
            out['sweep'].append(n2)
            if ref is None:
                ref = r
            elif r != ref:
                k = next((i for i in range(min(len(r), len(ref))) if r[i] != ref[i]), -1) \
                    if not isinstance(r, dict) and not isinstance(ref, dict) else -1
                out['njobs_differ'].append([n2, k, _nonan(r[k]) if k >= 0 else str(r)[:80],
                                            _nonan(ref[k]) if k >= 0 else str(ref)[:80]])
        if not isinstance(own, dict) and not isinstance(ref, dict) and own != ref:
            out['njobs_differ'].append([nj, -1, 'own run', f'n_jobs={EV_NJOBS_SWEEP[0]} run'])
    # what the evaluation function really receives
    try:
        with joblib.parallel_backend(backend):
            spy = SL.evaluate_models_searchlight(sl, None, spy_eval, method=method, theta=theta, n_jobs=nj)
        out['kw'] = [[int(t[0]), t[1], t[2]] for t in spy]
    except Exception as exc:  # noqa: BLE001
        out['kw'] = _exc(exc)
    out['kw_given'] = [method, json.dumps(ev['theta'])]
    return out


def _run_eval(case):
    import joblib
    from rsatoolbox.inference import eval_fixed
    from rsatoolbox.model import ModelFixed
    from engines.C19_tasks import token_eval
    data, centers, nbs, events = _expand_rdms(case)
    sl = SL.get_searchlight_RDMs(np.array(data, dtype=float), np.array(centers), nbs,
                                 np.array(events), method='euclidean')
    theta = {int(c): d / 1000.0 for c, d in zip(centers, case['delays'])}
    nj, backend = case['n_jobs'], case['backend']
    repo_src = os.path.dirname(os.path.dirname(os.path.dirname(os.path.abspath(SL.__file__))))
    old = os.environ.get('PYTHONPATH')
    os.environ['PYTHONPATH'] = os.pathsep.join(
        [repo_src, os.path.dirname(os.path.dirname(os.path.abspath(__file__)))] + ([old] if old else []))
    try:
        with joblib.parallel_backend(backend):
            toks = SL.evaluate_models_searchlight(sl, None, token_eval, method='corr',
                                                  theta=theta, n_jobs=nj)
            mrng = np.random.default_rng(case['model_seed'])
            npair = sl.dissimilarities.shape[1]
            models = [ModelFixed('a', mrng.random(npair)), ModelFixed('b', mrng.random(npair))]
            res = SL.evaluate_models_searchlight(sl, models, eval_fixed, method='cosine', n_jobs=nj)
        real = _run_real_eval(sl, case['ev'], nj, backend, sweep=True) if case.get('ev') else None
    finally:
        if old is None:
            os.environ.pop('PYTHONPATH', None)
        else:
            os.environ['PYTHONPATH'] = old
    direct = [eval_fixed(models, sl[i], method='cosine').evaluations for i in range(sl.n_rdm)]
    mism = 0 if len(res) == len(direct) else abs(len(res) - len(direct))
    for a, b in zip(res, direct):
        if not np.allclose(a.evaluations, b, rtol=1e-12, atol=0, equal_nan=True):
            mism += 1
    order = sorted(range(len(toks)), key=lambda i: toks[i][2])   # task positions by completion time
    _OBSERVED_ORDER[_key(case)] = order
    vec_bad = sum(1 for i, t in enumerate(toks)
                  if i >= sl.n_rdm or not np.array_equal(np.array(t[1]), sl.dissimilarities[i], equal_nan=True))
    return {'tokens': [int(t[0]) for t in toks], 'vec_mismatch': vec_bad, 'eval_mismatch': mism,
            'vecs': [[float(x) for x in t[1]] for t in toks],
            'completion_in_order': order == sorted(order), 'real': real}


def _run_pipeline(case):
    """the three library calls chained on the library's own intermediate results"""
    import joblib
    from engines.C19_tasks import token_eval
    shape = tuple(case['shape'])
    events = list(case['events'])
    data = _pipeline_data(case)
    mask = np.array(_flags(case), dtype=int).reshape(shape)
    centers, nbs = SL.get_volume_searchlight(mask, radius=float(unrat(case['radius'])),
                                             threshold=float(unrat(case['threshold'])))
    if len(centers) == 0:
        return {'results': [], 'centers': [], 'real': None}
    sl = SL.get_searchlight_RDMs(_data_form(case.get('data_kind', 'float'), data), centers, nbs,
                                 np.array(events), method='euclidean')
    with joblib.parallel_backend('threading'):
        toks = SL.evaluate_models_searchlight(sl, None, token_eval, method='corr', theta=None,
                                              n_jobs=case['n_jobs'])
    real = None
    if case.get('ev'):
        k = int(sl.n_rdm)
        idx = None if k <= 60 else sorted(set(list(range(0, k, 37)) + [k - 1]))
        real = _run_real_eval(sl, case['ev'], case['n_jobs'], 'threading', sweep=k <= 60, idx=idx)
    return {'results': [[int(t[0]), [float(x) for x in t[1]]] for t in toks],
            'centers': [int(c) for c in np.asarray(centers).ravel()], 'real': real}


def _pipeline_data(case):
    import random
    shape = tuple(case['shape'])
    n = shape[0] * shape[1] * shape[2]
    rr = random.Random(case['seed'])
    return [[rr.randint(-4, 4) for _ in range(n)] for _ in case['events']]


PLAIN_BLOCK = 300


def _chunked_vs_plain(big, d, c, nb, ev, method):
    """number of rows of the chunked result that differ from the rows the library computes for the
    same centres when fewer than 1000 are requested (the first and the last PLAIN_BLOCK centres: the
    plain branch), plus the first such row"""
    n = len(big)
    bad = {}
    for lo in (0, n - PLAIN_BLOCK):
        part = SL.get_searchlight_RDMs(d, c[lo:lo + PLAIN_BLOCK], nb[lo:lo + PLAIN_BLOCK], ev,
                                       method=method).dissimilarities
        for i in range(PLAIN_BLOCK):
            x = np.asarray(big[lo + i], dtype=float)
            y = np.asarray(part[i], dtype=float)
            if not np.array_equal(x, y, equal_nan=True):
                bad.setdefault(lo + i, [lo + i, [float(v) for v in x], [float(v) for v in y]])
    first = bad[min(bad)] if bad else None
    return {'rows': len(bad), 'first': first}


def run_impl(case):
    import contextlib
    import io
    with contextlib.redirect_stdout(io.StringIO()):   # the library prints 'Found n searchlights'
        return _run_impl(case)


def _run_impl(case):
    op = case['op']
    try:
        if op == 'neighbors':
            shape = tuple(case['shape'])
            nb = SL._get_searchlight_neighbors(np.zeros(shape), tuple(case['center']), _radius_arg(case))
            nb = [list(map(int, a)) for a in nb]
            return [[nb[0][i], nb[1][i], nb[2][i]] for i in range(len(nb[0]))] if len(nb) == 3 else {'exc': 'shape'}
        if op == 'volume':
            c, nb = SL.get_volume_searchlight(_mask_array(case), radius=_radius_arg(case),
                                              threshold=float(unrat(case['threshold'])))
            return {'centers': [int(x) for x in np.asarray(c).ravel()],
                    'neighbors': [[int(x) for x in np.asarray(s).ravel()] for s in nb]}
        if op == 'rdms':
            data, centers, nbs, events = _expand_rdms(case)
            d, c, nb, ev = _lib_args(case, data, centers, nbs, events)
            out = SL.get_searchlight_RDMs(d, c, nb, ev, method=case['method'])
            res = {'rdm': [[None if math.isnan(v) else float(v) for v in row]
                           for row in out.dissimilarities.tolist()],
                   'voxel_index': [int(v) for v in out.rdm_descriptors['voxel_index']]}
            if len(centers) > 1000:
                # "whatever the number of centres (chunked or not)": the same library on the first and
                # the last 300 centres (plain branch) must give the very same rows, bit for bit
                res['plain_mismatch'] = _chunked_vs_plain(out.dissimilarities, d, c, nb, ev, case['method'])
            return res
        if op == 'eval':
            return _run_eval(case)
        if op == 'points':
            return _run_points(case)
        if op == 'pipeline':
            return _run_pipeline(case)
    except Exception as exc:  # noqa: BLE001  (library exceptions are part of the observable result)
        return _exc(exc)
    raise ValueError(f'unknown op {op}')


# ------------------------------------------------------------------ model

def model_requests(case):
    op = case['op']
    if op == 'neighbors':
        return [{'op': 'c19.neighbors', 'shape': case['shape'], 'center': case['center'],
                 'radius': case['radius']}]
    if op == 'volume':
        return [{'op': 'c19.volume', 'shape': case['shape'], 'mask': _flags(case),
                 'radius': case['radius'], 'threshold': case['threshold']}]
    if op == 'rdms':
        data, centers, nbs, events = _expand_rdms(case)
        exact = case['method'] in ('euclidean', 'mahalanobis', 'crossnobis')
        enc = (lambda v: v) if exact else fbits
        return [{'op': 'c19.rdms', 'method': case['method'],
                 'data': [[enc(v) for v in row] for row in data],
                 'centers': centers, 'neighbors': nbs, 'events': events,
                 'pts': None}]     # the model computes numpy's split points itself (`linspacePts`)
    if op == 'eval':
        data, centers, nbs, events = _expand_rdms(case)
        sched = _OBSERVED_ORDER.get(_key(case), case['sched'])
        if sorted(sched) != list(range(len(centers))):
            sched = case['sched']
        return [{'op': 'c19.collect', 'tokens': centers, 'sched': sched},
                {'op': 'c19.eval', 'data': data, 'centers': centers, 'neighbors': nbs, 'events': events,
                 'sched': sched}] + _kw_request(case)
    if op == 'points':
        impl = run_impl(case) if _key(case) not in _POINTS_IMPL else _POINTS_IMPL[_key(case)]
        reqs = []
        for i, n in enumerate(impl['ns']):
            reqs.append({'op': 'c19.points', 'n': n, 'minus_one': impl['minus_one'][i], 'pts': impl['pts'][i],
                         'full': n in case.get('full', ())})
        return reqs
    if op == 'pipeline':
        return [{'op': 'c19.pipeline', 'shape': case['shape'], 'mask': _flags(case), 'radius': case['radius'],
                 'threshold': case['threshold'], 'data': _pipeline_data(case), 'events': case['events']}] \
            + _kw_request(case)
    raise ValueError(op)


def _kw_request(case):
    """round 6: what the evaluation function receives at every call site of the source (model side)"""
    import json
    if not case.get('ev'):
        return []
    from engines.C19_tasks import DEFAULT
    return [{'op': 'c19.evalkw', 'method': case['ev']['method'], 'theta': json.dumps(case['ev']['theta']),
             'default_method': DEFAULT, 'default_theta': DEFAULT}]


def _kw_model(case, ans, centers):
    """the keywords the model says every centre's call receives; the model's dispatch of tasks to call
    sites is arbitrary, so call sites that forward different things are a model error (they contradict
    `eval_forwarding_leaf`)"""
    if isinstance(ans, dict) and 'model_error' in ans:
        return ans
    rec = ans['received']
    if ans['n_sites'] < 1 or not rec:
        return {'model_error': 'the model found no call site of eval_function (contradicts eval_forwarding_leaf)'}
    if any(r != rec[0] for r in rec):
        return {'model_error': f'call sites of eval_function forward different keywords: {rec} '
                               '(contradicts eval_forwarding_leaf)'}
    return [[int(c), rec[0][0], rec[0][1]] for c in centers]


def model_result(case, answers):
    a = answers[0] if answers else None
    op = case['op']
    if isinstance(a, dict) and 'model_error' in a:
        # designs / methods the model rejects, with the exception class the library documents
        err = str(a['model_error'])
        if op == 'rdms' and err == 'unbalanced':
            return {'exc': 'AssertionError'}
        if op == 'rdms' and err == 'single fold':
            return {'exc': 'ValueError'}
        if op == 'rdms' and case['method'] == 'bogus' and 'not modelled' in err:
            return {'exc': 'NotImplementedError'}
        return a
    if op == 'neighbors':
        if sorted(map(tuple, a['algo'])) != sorted(map(tuple, a['spec'])):
            return {'model_error': 'neighborsAlgo and neighborsSpec differ as sets (contradicts prefilter_sound)'}
        return a['algo']
    if op == 'volume':
        return {'centers': a['centers'], 'neighbors': a['neighbors']}
    if op == 'rdms':
        if case['method'] in ('euclidean', 'mahalanobis', 'crossnobis'):
            rows = [[float(unrat(v)) for v in row] for row in a['rdm']]
        else:
            rows = [[None if v is None else unfbits(v) for v in row] for row in a['rdm']]
        return {'rdm': rows, 'voxel_index': a['voxel_index']}
    if op == 'eval':
        b = answers[1]
        if isinstance(b, dict) and 'model_error' in b:
            return b
        slots = b['slots']
        if b['n_tasks'] != len(slots) or any(x is None for x in slots):
            return {'model_error': 'model left a slot empty although every task ran '
                                   '(contradicts eval_per_center_any_schedule)'}
        if [x[0] for x in slots] != a:
            return {'model_error': 'c19.eval and c19.collect disagree'}
        res = {'tokens': [x[0] for x in slots], 'vec_mismatch': 0, 'eval_mismatch': 0,
               'vecs': [[float(unrat(v)) for v in x[1]] for x in slots]}
        if case.get('ev'):
            kw = _kw_model(case, answers[2], res['tokens'])
            if isinstance(kw, dict):
                return kw
            res['kw'] = kw
        return res
    if op == 'points':
        for x in answers:
            if isinstance(x, dict) and 'model_error' in x:
                return x
        return {'ok': [x['ok'] for x in answers], 'float_model_equal': [x['float_model_equal'] for x in answers],
                'n_chunks': [x['n_chunks'] for x in answers], 'partition': [x['partition'] for x in answers],
                'lens': [x['lens'] for x in answers], 'chunked': [x['chunked'] for x in answers]}
    if op == 'pipeline':
        res = {'results': [[x[0], [float(unrat(v)) for v in x[1]]] for x in a]}
        if case.get('ev') and a:
            kw = _kw_model(case, answers[1], [x[0] for x in a])
            if isinstance(kw, dict):
                return kw
            res['kw'] = kw
        return res
    raise ValueError(op)


def _tol(case):
    """float32 input is computed in float32 by the library"""
    if (case.get('form') or {}).get('data') == 'f32':
        return (2e-4, 2e-5)
    return (1e-9, 1e-12)


def _rows_diff(a, b, what, rtol=1e-9, atol=1e-12):
    if len(a) != len(b):
        return f'{what}: {len(a)} rows != {len(b)}'
    for i, (ra, rb) in enumerate(zip(a, b)):
        if len(ra) != len(rb):
            return f'{what}[{i}]: width {len(ra)} != {len(rb)}'
        for j, (x, y) in enumerate(zip(ra, rb)):
            xn = x is None or (isinstance(x, float) and math.isnan(x))
            yn = y is None or (isinstance(y, float) and math.isnan(y))
            if xn or yn:
                if xn != yn:
                    return f'{what}[{i}][{j}]: {x!r} != {y!r}'
            elif not close(x, y, rtol, atol):
                return f'{what}[{i}][{j}]: {x!r} != {y!r}'
    return None


_RAW_ORDER = {}


def _nonan(x):
    if isinstance(x, list):
        return [_nonan(v) for v in x]
    return None if isinstance(x, float) and math.isnan(x) else x


def compare(case, impl, model):
    if case['op'] in ('neighbors', 'volume') and not (isinstance(impl, dict) and 'exc' in impl) \
            and not (isinstance(model, dict) and 'model_error' in model):
        _RAW_ORDER[_key(case)] = impl == model
    return _compare(case, impl, model)


def _real_diff(real, model_kw):
    """round 6: the real evaluations of an eval / pipeline case"""
    if not real:
        return None
    if real['mismatch']:
        return f'{real["mismatch"]} centre(s): the evaluation returned differs from the direct call ' \
               f'eval_function(models, sl_RDM[i], method, theta); first [centre#, got, direct]: {_nonan(real["first"])}'
    if real['plain_bad']:
        return f'evaluation differs from the plain-loop corr / cosine: {_nonan(real["plain_bad"])}'
    if real['njobs_differ']:
        return f'results differ across n_jobs: [n_jobs, centre#, got, with n_jobs=1] = {real["njobs_differ"][0]}'
    if model_kw is not None:
        if isinstance(real['kw'], dict):
            return f'the spy evaluation raised {real["kw"]}'
        if real['kw'] != model_kw:
            k = next((i for i, (a, b) in enumerate(zip(real['kw'], model_kw)) if a != b), -1)
            return 'keywords received by the evaluation function differ from the model: ' \
                   f'{real["kw"][k] if k >= 0 else len(real["kw"])} vs {model_kw[k] if k >= 0 else len(model_kw)}'
    return None


def _compare(case, impl, model):
    if isinstance(model, dict) and 'model_error' in model:
        return f'model error {model}'
    iexc = impl.get('exc') if isinstance(impl, dict) else None
    mexc = model.get('exc') if isinstance(model, dict) else None
    if iexc or mexc:
        if iexc == mexc:
            return None
        return f'impl {"raised " + iexc if iexc else "gives a result"}, model {"rejects with " + mexc if mexc else "gives a result"}'
    op = case['op']
    if op == 'neighbors':
        # a searchlight is a *set* of voxels: compare sorted rows (a duplicate changes the length)
        a, b = sorted(map(tuple, impl)), sorted(map(tuple, model))
        if a != b:
            return f'searchlight voxels differ: impl {a[:6]}… ({len(a)}) vs model {b[:6]}… ({len(b)})'
        return None
    if op == 'volume':
        # canonical form: centre -> sorted neighbour indices (the property fixes neither the order
        # of the centres nor the order inside a neighbour list); lengths catch duplicates
        if len(impl['centers']) != len(impl['neighbors']):
            return f'{len(impl["centers"])} centres but {len(impl["neighbors"])} neighbour lists'
        a = sorted((c, sorted(s)) for c, s in zip(impl['centers'], impl['neighbors']))
        b = sorted((c, sorted(s)) for c, s in zip(model['centers'], model['neighbors']))
        if [c for c, _ in a] != [c for c, _ in b]:
            return f'centers differ: impl {[c for c, _ in a][:10]} ({len(a)}) vs ' \
                   f'model {[c for c, _ in b][:10]} ({len(b)})'
        if a != b:
            k = next(x[0] for x, y in zip(a, b) if x != y)
            return f'neighbour list of centre {k} differs'
        return None
    if op == 'rdms':
        if impl['voxel_index'] != model['voxel_index']:
            return 'voxel_index descriptor differs from the centres'
        pm = impl.get('plain_mismatch')
        if pm and pm['rows']:
            return f'{pm["rows"]} rows of the chunked result differ from the rows computed for the same ' \
                   f'centres without chunking, first: {_nonan(pm["first"])}'
        return _rows_diff(impl['rdm'], model['rdm'], 'rdm', *_tol(case))
    if op == 'eval':
        if impl['tokens'] != model['tokens']:
            return f'results not one per centre in centre order: {impl["tokens"][:8]} vs {model["tokens"][:8]}'
        if impl['vec_mismatch']:
            return f'{impl["vec_mismatch"]} tasks received an RDM that is not the one of their centre'
        if impl['eval_mismatch']:
            return f'{impl["eval_mismatch"]} evaluation results differ from the per-centre direct call'
        # end to end: the vector each task received is the model's direct RDM of that centre
        d = _rows_diff(impl['vecs'], model['vecs'], 'task rdm')
        return d or _real_diff(impl.get('real'), model.get('kw'))
    if op == 'points':
        for i, n in enumerate(impl['ns']):
            if impl['chunked'][i] != model['chunked'][i]:
                return f'n={n}: code {"chunks" if impl["chunked"][i] else "does not chunk"}, model the opposite'
            if not impl['chunked'][i]:
                continue
            if not model['ok'][i]:
                return f'n={n}: the split points of the code are not admissible (PtsOk fails)'
            if not model['float_model_equal'][i]:
                return f'n={n}: split points of the code differ from the model\'s linspace'
            if impl['n_chunks'][i] != model['n_chunks'][i]:
                return f'n={n}: {impl["n_chunks"][i]} chunks vs model {model["n_chunks"][i]}'
            if not model['partition'][i] or not impl['partition'][i]:
                return f'n={n}: chunks do not partition the centres'
            if impl['lens'][i] is not None and impl['lens'][i] != model['lens'][i]:
                return f'n={n}: chunk lengths differ'
        return None
    if op == 'pipeline':
        a, b = impl['results'], model['results']
        if [x[0] for x in a] != impl['centers']:
            return 'pipeline: results are not one per centre in the order of the centres returned by ' \
                   f'get_volume_searchlight: {[x[0] for x in a][:10]} vs {impl["centers"][:10]}'
        # the property fixes no order of the centres themselves: compare centre -> vector
        a, b = sorted(a), sorted(b)
        if [x[0] for x in a] != [x[0] for x in b]:
            return f'pipeline: centres of the results differ: {[x[0] for x in a][:10]} ({len(a)}) vs ' \
                   f'{[x[0] for x in b][:10]} ({len(b)})'
        d = _rows_diff([x[1] for x in a], [x[1] for x in b], 'pipeline rdm')
        return d or _real_diff(impl.get('real'), model.get('kw'))
    raise ValueError(op)


# ------------------------------------------------------------------ oracle (property on the real code)

def _expected_rejection(events, method):
    """exception class with which the direct computation itself rejects the design / method"""
    if method == 'bogus':
        return 'NotImplementedError'
    if method in CV_METHODS:
        counts = [events.count(c) for c in sorted(set(events))]
        if len(set(counts)) != 1:
            return 'AssertionError'      # default folds need a balanced design
        if counts[0] < 2:
            return 'ValueError'          # one fold: no training data
    return None


def _direct_rdm_cv(cols, events, method):
    """plain-loop leave-one-fold-out RDM; fold of an observation = its occurrence number among
    the observations of its condition; mean over folds of (train_i - train_j).(test_i - test_j)/n
    (crossnobis, identity noise) or the Poisson analogue"""
    conds = sorted(set(events))
    seen, occ = {}, []
    for e in events:
        occ.append(seen.get(e, 0))
        seen[e] = occ[-1] + 1
    nfold = max(occ) + 1
    nch = len(cols[0])
    num = F if method == 'crossnobis' else float
    out = [num(0)] * (len(conds) * (len(conds) - 1) // 2)
    for f in range(nfold):
        tr, te = [], []
        for c in conds:
            rtr = [r for r, e, o in zip(cols, events, occ) if e == c and o != f]
            rte = [r for r, e, o in zip(cols, events, occ) if e == c and o == f]
            tr.append([sum(num(r[j]) for r in rtr) / len(rtr) for j in range(nch)])
            te.append([sum(num(r[j]) for r in rte) / len(rte) for j in range(nch)])
        if method == 'poisson_cv':
            tr = [[(x + 0.1) / 1.1 for x in m] for m in tr]
            te = [[math.log((x + 0.1) / 1.1) for x in m] for m in te]
        k = 0
        for i in range(len(conds)):
            for j in range(i + 1, len(conds)):
                out[k] += sum((tr[i][q] - tr[j][q]) * (te[i][q] - te[j][q]) for q in range(nch)) / nch
                k += 1
    return [v / nfold for v in out]


def _direct_rdm(cols, events, method):
    """plain-loop RDM of a data matrix (rows = observations) with conditions from `events`:
    condition means in ascending label order, all pairs i<j"""
    if method in CV_METHODS:
        return _direct_rdm_cv(cols, events, method)
    conds = sorted(set(events))
    exact = method in ('euclidean', 'mahalanobis')
    means = []
    for c in conds:
        rows = [r for r, e in zip(cols, events) if e == c]
        if exact:
            means.append([sum(F(r[j]) for r in rows) / len(rows) for j in range(len(cols[0]))])
        else:
            means.append([sum(float(r[j]) for r in rows) / len(rows) for j in range(len(cols[0]))])
    out = []
    for i in range(len(conds)):
        for j in range(i + 1, len(conds)):
            a, b = means[i], means[j]
            nch = len(a)
            if exact:
                out.append(sum((x - y) ** 2 for x, y in zip(a, b)) / nch)
            elif method == 'correlation':
                ma, mb = sum(a) / nch, sum(b) / nch
                ca, cb = [x - ma for x in a], [y - mb for y in b]
                na = math.sqrt(sum(x * x for x in ca))
                nb = math.sqrt(sum(y * y for y in cb))
                if na == 0 or nb == 0:
                    out.append(float('nan'))
                else:
                    out.append(1 - sum(x * y for x, y in zip(ca, cb)) / (na * nb))
            elif method == 'poisson':
                pa = [(x + 0.1) / 1.1 for x in a]
                pb = [(y + 0.1) / 1.1 for y in b]
                out.append(sum((x - y) * (math.log(x) - math.log(y)) for x, y in zip(pa, pb)) / nch)
            else:
                raise ValueError(method)
    return out


def oracle(case):
    op = case['op']
    impl = run_impl(case)
    base = {'op': op}
    if op == 'neighbors':
        want = _spec_searchlight(tuple(case['shape']), tuple(case['center']), unrat(case['radius']))
        if isinstance(impl, dict):
            return {'what': 'searchlight computation raised', 'observed': impl, 'expected': len(want),
                    'features': base}
        got = [tuple(v) for v in impl]
        if len(set(got)) != len(got) or set(got) != set(want):
            return {'what': 'searchlight is not exactly the in-volume voxels at distance < radius',
                    'observed': sorted(got)[:40], 'expected': want[:40],
                    'missing': sorted(set(want) - set(got))[:10], 'extra': sorted(set(got) - set(want))[:10],
                    'features': base}
        return None
    if op == 'volume':
        shape, flags = tuple(case['shape']), _flags(case)
        wc, wn = _spec_volume(shape, flags, unrat(case['radius']), unrat(case['threshold']))
        feats = dict(base, empty_result=not wc,
                     mask_binary=all(unrat(v) in (0, 1) for v in case['mask']))
        if 'exc' in impl:
            return {'what': 'get_volume_searchlight raises instead of returning the accepted centres'
                            + (' (none are accepted)' if not wc else ''),
                    'observed': impl, 'expected': {'centers': wc}, 'features': dict(feats, failure='raises')}
        gc, gn = impl['centers'], impl['neighbors']
        if len(gc) != len(set(gc)) or set(gc) != set(wc):
            return {'what': 'accepted centres are not exactly the mask voxels whose searchlight lies in the '
                            'mask by at least the threshold fraction',
                    'observed': gc, 'expected': wc, 'features': dict(feats, failure='centres')}
        feats = dict(feats, failure='neighbours')
        if len(gn) != len(gc):
            return {'what': 'number of neighbour lists differs from number of centres',
                    'observed': len(gn), 'expected': len(gc), 'features': feats}
        want = dict(zip(wc, wn))
        for c, s in zip(gc, gn):
            if len(set(s)) != len(s) or set(s) != set(want[c]):
                return {'what': 'neighbour list of a centre is not the searchlight of that centre',
                        'centre': c, 'observed': sorted(s), 'expected': want[c], 'features': feats}
        return None
    if op == 'rdms':
        data, centers, nbs, events = _expand_rdms(case)
        feats = dict(base, n_centers=len(centers), method=case['method'])
        rej = _expected_rejection(events, case['method'])
        if rej:
            if impl.get('exc') != rej:
                return {'what': 'a design/method the direct computation rejects is not rejected alike',
                        'observed': impl if 'exc' in impl else 'a result', 'expected': {'exc': rej},
                        'features': feats}
            return None
        if 'exc' in impl:
            return {'what': 'get_searchlight_RDMs raised', 'observed': impl, 'expected': 'RDMs',
                    'features': dict(feats, failure='raises',
                                     unequal_sizes=len({len(s) for s in nbs}) > 1)}
        if impl['voxel_index'] != centers:
            return {'what': 'voxel_index descriptor is not the list of centres', 'observed': impl['voxel_index'][:20],
                    'expected': centers[:20], 'features': feats}
        if len(impl['rdm']) != len(centers):
            return {'what': 'number of RDMs differs from number of centres', 'observed': len(impl['rdm']),
                    'expected': len(centers), 'features': feats}
        feats = dict(feats, data_form=(case.get('form') or {}).get('data', 'float'))
        pm = impl.get('plain_mismatch')
        if pm and pm['rows']:
            return {'what': 'the RDM reported for a centre depends on the number of centres: the chunked call '
                            '(> 1000 centres) and the unchunked call on the same centres give different rows',
                    'rows_differing': pm['rows'], 'centre_number': pm['first'][0],
                    'observed': _nonan(pm['first'][1]), 'expected': _nonan(pm['first'][2]), 'features': feats}
        for i, s in enumerate(nbs):
            cols = [[row[j] for j in s] for row in data]
            want = [float(v) for v in _direct_rdm(cols, events, case['method'])]
            d = _rows_diff([impl['rdm'][i]], [want], f'centre#{i}', *_tol(case))
            if d:
                return {'what': 'RDM of a centre is not the RDM computed directly from its searchlight columns',
                        'centre_number': i, 'observed': impl['rdm'][i], 'expected': want, 'detail': d,
                        'features': feats}
        return None
    if op == 'eval':
        _, centers, _, _ = _expand_rdms(case)
        feats = dict(base, n_jobs=case['n_jobs'], backend=case['backend'])
        if 'exc' in impl:
            return {'what': 'evaluate_models_searchlight raised', 'observed': impl, 'expected': 'list',
                    'features': feats}
        if impl['tokens'] != centers or impl['vec_mismatch'] or impl['eval_mismatch']:
            return {'what': 'evaluate_models_searchlight does not return one result per centre in centre order',
                    'observed': {k: v for k, v in impl.items() if k != 'vecs'}, 'expected': {'tokens': centers},
                    'features': feats}
        # end to end: what task i was given is the RDM computed directly from searchlight i's columns
        data, _, nbs, events = _expand_rdms(case)
        for i, sl in enumerate(nbs):
            want = [float(v) for v in _direct_rdm([[row[j] for j in sl] for row in data], events, 'euclidean')]
            d = _rows_diff([impl['vecs'][i]], [want], f'task#{i}')
            if d:
                return {'what': 'the RDM evaluated for a centre is not the RDM computed directly from its '
                                'searchlight columns', 'centre_number': i, 'observed': impl['vecs'][i],
                        'expected': want, 'detail': d, 'features': feats}
        return _real_oracle(case, impl.get('real'), feats)
    if op == 'points':
        # property: whatever the number of centres, every centre gets exactly one row, i.e. the
        # chunks the code builds cover 0..n-1 once each, in order
        for i, n in enumerate(impl.get('ns', [])):
            if impl['chunked'][i] and not impl['partition'][i]:
                return {'what': 'the chunks of get_searchlight_RDMs do not cover every centre exactly once',
                        'n_centers': n, 'observed': {'n_chunks': impl['n_chunks'][i]},
                        'expected': 'np.concatenate(chunks) == arange(n)', 'features': dict(base, n_centers=n)}
        if 'exc' in impl:
            return {'what': 'reading the split points raised', 'observed': impl, 'expected': 'points',
                    'features': base}
        return None
    if op == 'pipeline':
        shape, flags = tuple(case['shape']), _flags(case)
        feats = dict(base, n_jobs=case['n_jobs'])
        if 'exc' in impl:
            return {'what': 'the searchlight pipeline raised', 'observed': impl, 'expected': 'a result list',
                    'features': feats}
        nvox = shape[0] * shape[1] * shape[2]
        wc, wn = _spec_volume(shape, flags, unrat(case['radius']), unrat(case['threshold']), fast=nvox > 300)
        got = impl['results']
        if [x[0] for x in got] != impl['centers']:
            return {'what': 'the pipeline results are not in the order of the centres',
                    'observed': [x[0] for x in got][:30], 'expected': impl['centers'][:30], 'features': feats}
        if sorted(x[0] for x in got) != wc or len(got) != len(wc):
            return {'what': 'the pipeline does not return exactly one result per accepted centre',
                    'observed': [x[0] for x in got][:30], 'expected': wc[:30], 'features': feats}
        data = _pipeline_data(case)
        want_nb = dict(zip(wc, wn))
        check = range(len(got)) if len(got) <= 60 else list(range(0, len(got), 37)) + [len(got) - 1]
        for i in check:
            c, vec = got[i]
            want = [float(v) for v in _direct_rdm([[row[j] for j in want_nb[c]] for row in data],
                                                  list(case['events']), 'euclidean')]
            d = _rows_diff([vec], [want], f'result#{i}')
            if d:
                return {'what': 'a pipeline result is not the RDM computed directly from the data columns of '
                                'the searchlight of its centre', 'centre': c, 'observed': vec, 'expected': want,
                        'detail': d, 'features': feats}
        return _real_oracle(case, impl.get('real'), feats)
    raise ValueError(op)


def _real_oracle(case, real, feats):
    """round 6: the property on the real evaluations (direct calls made outside the library's loop)"""
    if not real:
        return None
    ev = case['ev']
    feats = dict(feats, theta_given=ev['theta'] is not None, eval_fn=ev['fn'], eval_method=ev['method'],
                 model_kinds='+'.join(ev['kinds']))
    args = {'models': ev['kinds'], 'method': ev['method'], 'theta': ev['theta'], 'eval_function': ev['fn'],
            'n_jobs': case['n_jobs']}
    if real['mismatch']:
        return {'what': 'the evaluation reported for a centre is not eval_function(models, sl_RDM[i], '
                        'method=method, theta=theta) computed directly', 'call': args,
                'centres_differing': real['mismatch'], 'centre_number': real['first'][0],
                'observed': _nonan(real['first'][1]), 'expected': _nonan(real['first'][2]), 'features': feats}
    if real['plain_bad']:
        return {'what': 'the evaluation reported for a centre is not the corr / cosine of the model prediction '
                        '(with the given theta) and the RDM of the centre', 'call': args,
                'centre_number': real['plain_bad'][0], 'observed': _nonan(real['plain_bad'][1]),
                'expected': _nonan(real['plain_bad'][2]), 'features': feats}
    if real['njobs_differ']:
        d = real['njobs_differ'][0]
        return {'what': 'the evaluation list depends on the number of parallel jobs', 'call': args,
                'n_jobs': d[0], 'centre_number': d[1], 'observed': d[2], 'expected': d[3], 'features': feats}
    want = real['kw_given']
    if isinstance(real['kw'], dict) or any(t[1:] != want for t in real['kw']):
        got = real['kw'] if isinstance(real['kw'], dict) else next(t for t in real['kw'] if t[1:] != want)
        return {'what': 'the evaluation function does not receive the method / theta handed to '
                        'evaluate_models_searchlight', 'call': args, 'observed': got, 'expected': want,
                'features': feats}
    return None


# ------------------------------------------------------------------ features / bookkeeping

def features(case, impl):
    op = case['op']
    f = {'op': op, 'branches': []}
    b = f['branches']
    if _key(case) in _RAW_ORDER:
        f['same_order_as_model'] = _RAW_ORDER[_key(case)]
    if op == 'neighbors':
        shape, c, r = case['shape'], case['center'], unrat(case['radius'])
        inside = all(0 <= ci < s for ci, s in zip(c, shape))
        f['radius'] = str(float(r))
        nvox = shape[0] * shape[1] * shape[2]
        if 1 in shape and nvox > 1:
            b.append('nb:thin')
        if len(set(shape)) == 3:
            b.append('nb:noncubic')
        if r >= 10:
            b.append('nb:huge_radius')
        if inside and isinstance(impl, list):
            if len(impl) == nvox and nvox > 1:
                b.append('nb:whole_volume')
            if 0 < r <= 1 and len(impl) == 1 and nvox > 1:
                b.append('nb:singleton')
        if r <= 0:
            b.append('nb:r_le_0')
        elif not inside:
            b.append('nb:outside_center')
        else:
            reach = math.ceil(r) - 1 if r.denominator == 1 else math.floor(r)
            clipped = any(ci - reach < 0 or ci + reach >= s for ci, s in zip(c, shape))
            b.append('nb:clipped' if clipped else 'nb:interior')
        if r > 0 and r.denominator == 1:
            b.append('nb:boundary_radius')
    elif op == 'volume':
        flags = _flags(case)
        f['mask_kind'] = case.get('mask_kind')
        f['threshold'] = case['threshold']
        f['mask_binary'] = all(unrat(v) in (0, 1) for v in case['mask'])
        if not f['mask_binary']:
            b.append('vol:nonbinary')
        info = {}
        wc, _ = _spec_volume(tuple(case['shape']), flags, unrat(case['radius']), unrat(case['threshold']),
                             info=info)
        thr_, r_ = unrat(case['threshold']), unrat(case['radius'])
        if sum(flags) and r_ > 0:
            if thr_ == 0:
                b.append('vol:thr0')
            if thr_ == 1:
                b.append('vol:thr1')
            if info.get('frac_eq_thr') and 0 < thr_ < 1:
                b.append('vol:frac_eq_thr')
            if info.get('border_accepted'):
                b.append('vol:border_accepted')
            if 1 in case['shape'] and len(flags) > 1:
                b.append('vol:thin')
            if r_ >= 10:
                b.append('vol:huge_radius')
            if r_ <= 1:
                b.append('vol:radius_le_1')
        f['empty_result'] = not wc
        nmask = sum(flags)
        b.append('vol:none' if not wc else 'vol:all' if len(wc) == nmask else 'vol:some')
        if wc and len(wc) < nmask and 0 < unrat(case['threshold']) < 1:
            b.append('vol:thr_fraction')
    elif op == 'rdms':
        n = len(_expand_rdms(case)[1])
        f['method'] = case['method']
        f['n_centers_class'] = '>1000' if n > 1000 else '<=1000'
        b.append('rdms:chunked' if n > 1000 else 'rdms:plain')
        if n in (1000, 1001):
            b.append(f'rdms:n{n}')
        if case.get('shuffle'):
            b.append('rdms:shuffled')
        b.append('rdms:' + case['method'])
        form = case.get('form') or {}
        f['form'] = '/'.join(f'{k}={form[k]}' for k in sorted(form)) or 'default'
        for k, tag in (('list', 'rdms:form_list'), ('fortran', 'rdms:form_fortran'), ('int', 'rdms:form_int'),
                       ('f32', 'rdms:form_f32')):
            if form.get('data') == k:
                b.append(tag)
        dk = form.get('data')
        if dk in INT_FORMS:
            b.append('rdms:form_anyint')
        if n >= 1000 and dk:
            # round 4: dtype / layout of the data x chunked branch (condition means not integral)
            ev = list(case['events'])
            nonint = any(ev.count(c_) in (2, 3) for c_ in set(ev))
            f['chunk_form'] = f'{dk}/{case["method"]}/{"n" + str(n) if n <= 1001 else ">1001"}'
            if n > 1000 and nonint:
                if dk in INT_FORMS:
                    b.append('chunked:int')
                    b.append('chunked:int_' + case['method'])
                b.append({'f32': 'chunked:float32', 'fortran': 'chunked:fortran', 'strided': 'chunked:strided',
                          'list': 'chunked:list', 'int': 'chunked:int64', 'strided_int': 'chunked:strided',
                          'fortran_int': 'chunked:fortran'}.get(dk, 'chunked:' + dk))
                if dk == 'f32':
                    b.append('chunked:float32_' + case['method'])
                if isinstance(impl, dict) and (impl.get('plain_mismatch') or {}).get('rows') == 0:
                    b.append('chunked:same_as_plain_form')
            if n in (1000, 1001) and nonint and (dk in INT_FORMS or dk == 'f32'):
                b.append(f'rdms:n{n}_' + ('int' if dk in INT_FORMS else 'float32'))
        if n > 1000 and isinstance(impl, dict) and (impl.get('plain_mismatch') or {}).get('rows') == 0:
            b.append('chunked:same_as_plain')
        if form.get('events') == 'str':
            b.append('rdms:labels_str')
        if form.get('nb') == 'array':
            b.append('rdms:nb_arrays')
        if form.get('nb') == 'tuple':
            b.append('rdms:nb_tuples')
        if form.get('centers') == 'list':
            b.append('rdms:centers_list')
        rej = _expected_rejection(list(case['events']), case['method'])
        f['rejected'] = rej
        if rej:
            b.append({'AssertionError': 'rdms:unbalanced_rejected', 'ValueError': 'rdms:single_fold_rejected',
                      'NotImplementedError': 'rdms:unknown_method'}[rej])
    elif op == 'eval':
        f['n_jobs'] = case['n_jobs']
        f['backend'] = case['backend']
        b.append('eval:jobs1' if case['n_jobs'] == 1 else
                 'eval:threads' if case['backend'] == 'threading' else 'eval:processes')
        if isinstance(impl, dict) and 'completion_in_order' in impl:
            f['completion_in_order'] = impl['completion_in_order']
            if not impl['completion_in_order']:
                b.append('eval:out_of_order')
        if isinstance(impl, dict) and 'vecs' in impl:
            b.append('eval:end_to_end')
        _real_features(case, impl, f, b, 'eval')
    elif op == 'points':
        b.append('pts:range')
        if isinstance(impl, dict) and 'minus_one' in impl:
            if any(m for m in impl['minus_one']):
                b.append('pts:deviates_from_floor')
            if any(l is not None and len(set(l)) > 1 for l in impl['lens']):
                b.append('pts:uneven_chunks')
    elif op == 'pipeline':
        f['n_jobs'] = case['n_jobs']
        if isinstance(impl, dict) and 'results' in impl:
            k = len(impl['results'])
            f['n_centers_class'] = '>1000' if k > 1000 else '<=1000'
            f['data_kind'] = case.get('data_kind', 'float')
            if case.get('data_kind') in INT_FORMS:
                b.append('pipe:chunked_int' if k > 1000 else 'pipe:int')
            if k > 1000:
                b.append('pipe:chunked')
            elif 0 < k < sum(_flags(case)):
                b.append('pipe:some')
        _real_features(case, impl, f, b, 'pipe')
    return f


def _real_features(case, impl, f, b, pre):
    """round 6: tags of the real evaluation; a `theta-given` tag counts only when the given theta changes
    the value of some centre (else a dropped theta could not show) and the run succeeded"""
    real = impl.get('real') if isinstance(impl, dict) else None
    ev = case.get('ev')
    if not real or not ev:
        return
    ok = not real['mismatch'] and real['own_exc'] is None
    f['ev'] = f'{ev["fn"]}/{ev["method"]}/{"theta:" + ev.get("theta_form", "list") if ev["theta"] is not None else "none"}/n_jobs={case["n_jobs"]}'
    f['ev_models'] = '+'.join(sorted(set(ev['kinds'])))
    if not ok:
        return
    nj = case['n_jobs']
    if real['theta_matters']:
        b.append(f'{pre}:theta-given:n_jobs1' if nj == 1 else f'{pre}:theta-given:n_jobsN')
        if pre == 'eval' and case.get('backend') == 'loky':
            b.append('eval:theta-given:processes')
        if pre == 'eval' and len(real['sweep']) >= 3 and not real['njobs_differ']:
            b.append('eval:njobs-agree')
    if pre != 'eval':
        return
    if ev['theta'] is None:
        b.append('eval:theta-none')
    for kind, tag in (('weighted', 'eval:weighted'), ('select', 'eval:select'), ('fixed', 'eval:fixed_models')):
        if kind in ev['kinds']:
            b.append(tag)
    b.append('eval:' + ev['method'])
    if ev['fn'] == 'flex':
        b.append('eval:flex')
    if ev['theta'] is not None and ev.get('theta_form') in ('tuple', 'array'):
        b.append('eval:theta_' + ev['theta_form'])
    if nj == -1:
        b.append('eval:n_jobs_minus1')
    if isinstance(real['kw'], list) and real['kw'] and all(t[1:] == real['kw_given'] for t in real['kw']):
        b.append('eval:kw_received')


def nontrivial_key(case, impl):
    op = case['op']
    if op == 'neighbors':
        if not isinstance(impl, list):
            return None
        n = case['shape'][0] * case['shape'][1] * case['shape'][2]
        if len(impl) in (0, n):
            return None
        return [op, case['shape'], case['center'], case['radius']]
    if op == 'volume':
        if not isinstance(impl, dict) or 'centers' not in impl:
            return None
        if len(impl['centers']) in (0, sum(_flags(case))):
            return None
        return [op, case['shape'], _flags(case), case['radius'], case['threshold']]
    if op == 'points':
        return [op, case['ns'][0], case['ns'][-1]] if isinstance(impl, dict) and 'ns' in impl else None
    if op == 'pipeline':
        if not isinstance(impl, dict) or len(impl.get('results', [])) < 2:
            return None
        return [op, case['shape'], case['mask'], case['radius'], case['threshold'], case['events'], case['seed'],
                case.get('data_kind')]
    if op in ('rdms', 'eval'):
        if not isinstance(impl, dict) or 'exc' in impl:
            return None
        if op == 'rdms' and (len(impl['rdm']) < 2 or all(v is None for row in impl['rdm'] for v in row)):
            return None
        return [op, case['shape'], case['mask'], case['radius'], case['threshold'], case['events'],
                case['method'], case['seed'], case.get('take'), case.get('n_jobs'), case.get('backend'),
                sorted((case.get('form') or {}).items()), repr(case.get('ev'))]
    return None


def shrink(case, still_fails):
    """smaller volume / simpler mask while the oracle still fails"""
    op = case['op']
    if op not in ('volume', 'neighbors'):
        if op == 'rdms' and case.get('take') is None:
            for t in (1, 2, 5, 20, 1001):
                c2 = dict(case, take=t)
                if len(_expand_rdms(c2)[1]) >= 1 and still_fails(c2):
                    return c2
        return case
    cur = case
    changed = True
    while changed:
        changed = False
        for ax in range(3):
            if cur['shape'][ax] <= 1:
                continue
            shape = list(cur['shape'])
            shape[ax] -= 1
            c2 = dict(cur, shape=shape)
            if op == 'neighbors' and 0 <= cur['center'][ax] < cur['shape'][ax] \
                    and not cur['center'][ax] < shape[ax]:
                continue        # keep an in-volume centre inside the volume
            if op == 'volume':
                a = np.array(cur['mask'], dtype=object).reshape(cur['shape'])
                c2['mask'] = np.delete(a, -1, axis=ax).ravel().tolist()
            if still_fails(c2):
                cur, changed = c2, True
        if op == 'volume':
            for i, v in enumerate(cur['mask']):
                if unrat(v) not in (0, 1):
                    continue
                for nv in ((0,) if unrat(v) == 1 else ()):
                    m2 = list(cur['mask'])
                    m2[i] = nv
                    c2 = dict(cur, mask=m2)
                    if still_fails(c2):
                        cur, changed = c2, True
    return cur
