"""C19 — searchlights hold exactly the voxels in radius; RDMs match direct computation.

Engine interface (see harness/run_check.py):
  THEOREMS, LEVEL, RULE, BRANCHES, generate, run_impl, model_requests, model_result,
  compare, oracle, features, nontrivial_key, search, shrink

Four kinds of cases (`op`):
  neighbors  `_get_searchlight_neighbors(mask, center, radius)`      vs  `neighborsAlgo` (exact, order too)
  volume     `get_volume_searchlight(mask, radius, threshold)`       vs  `volumeSearchlight` (exact, order too)
  rdms       `get_searchlight_RDMs(data, centers, neighbors, events, method)`
                                                                      vs  `slRdms` (Rat for euclidean /
                                                                          mahalanobis, Float otherwise)
  eval       `evaluate_models_searchlight(sl_RDM, models, f, n_jobs=…)`
                                                                      vs  `collect` (slot per task)
Numbers: radii are stored as the exact rational value of the float handed to the library,
thresholds as small fractions p/q (the library gets float(p/q)); data are small integers.
"""
import itertools
import math
import os
import sys
import warnings
from fractions import Fraction as F

import numpy as np

from lean import rat, unrat, fbits, unfbits, close

warnings.filterwarnings('ignore', category=RuntimeWarning)

from rsatoolbox.util import searchlight as SL  # noqa: E402

PROPERTY = 'C19'
LEVEL = 'proof'
P = 'Rsa.Props.C19.'
THEOREMS = [P + n for n in (
    'prefilter_sound', 'neighbors_exact', 'neighbors_nodup', 'distLt_iff_sqrt',
    'neighbors_exact_real', 'ravel_injective', 'ravel_range', 'centers_exact',
    'centers_exact_mul', 'centers_ascending', 'centers_neighbors_consistent',
    'chunks_partition', 'floor_points_admissible', 'table_rows', 'rdm_per_center',
    'rdm_columns_order_irrelevant', 'rdm_euclid_of_searchlight',
    'prefilter_leaves', 'radius_test_leaf', 'accept_leaf', 'chunk_limit_leaf', 'rdm_width_leaf',
    'euclid_is_C01_spec',
    'parallel_order_independent_partial', 'parallel_perm_partial')]
RULE = ('one PRNG; ops: neighbors (shape 1..5 per axis, centre inside or up to 2 outside, radius from '
        '{-1,0,.5,1,1.41,1.42,1.5,1.7,1.73,2,2.24,2.3,2.5,3}), volume (shape <= 4x4x3 quick / 5x5x4 '
        'thorough, random mask contents as bool/int/float/non-binary values, thresholds '
        '{0,1/3,1/2,2/3,7/10,1}), rdms (centres/neighbour lists built by an independent brute-force '
        'searchlight, optionally shuffled/subsampled, integer data, 2-4 conditions with arbitrary integer '
        'labels, methods euclidean/mahalanobis/correlation/poisson/crossnobis/poisson_cv (default folds; unbalanced, single-fold designs and an unknown method as rejections); plus volumes with 1000, 1001 and >1001 '
        'centres for the chunked branch), eval (token task through evaluate_models_searchlight with '
        'n_jobs 1-4, thread and process backends, scrambled completion order, and eval_fixed compared '
        'with the per-centre direct call). Non-trivial: a searchlight that is neither empty nor the whole '
        'volume / a volume where some but not all mask voxels are accepted / any rdms or eval case with '
        '>= 2 centres; distinct = distinct canonical input.')
BRANCHES = ['nb:clipped', 'nb:interior', 'nb:outside_center', 'nb:r_le_0', 'nb:boundary_radius',
            'vol:all', 'vol:some', 'vol:none', 'vol:thr_fraction', 'vol:nonbinary',
            'rdms:plain', 'rdms:chunked', 'rdms:n1000', 'rdms:n1001', 'rdms:shuffled',
            'rdms:euclidean', 'rdms:correlation', 'rdms:poisson', 'rdms:mahalanobis',
            'rdms:crossnobis', 'rdms:poisson_cv', 'rdms:unbalanced_rejected', 'rdms:single_fold_rejected',
            'rdms:unknown_method',
            'eval:jobs1', 'eval:threads', 'eval:processes']
ASSUMPTIONS = [
    'float64 `sqrt(k) < r` agrees with the exact test `0 < r and k < r^2` for the generated radii '
    '(never within 1e-3 of an irrational sqrt(k); integer radii hit perfect squares exactly)',
    'float64 `count/len >= float(p/q)` agrees with the exact comparison for the small fractions generated',
    'numpy float64 evaluation of the RDM formulas is within 1e-9 relative of the exact / Lean Float value',
]
TRUSTED_EXTRA = [
    'numpy: np.nonzero enumerates in C order; np.ravel_multi_index is C-order raveling; '
    'np.split(np.arange(n), pts) slices consecutively; np.linspace(0,n,101,dtype=int)[1:-1] is '
    'non-decreasing and <= n (checked on every chunked case)',
    'joblib.Parallel returns results in task order for every backend and n_jobs (contract '
    '`parallel_full`; observed for n_jobs 1-4, threading and loky)',
]

RADII = [F(-1), F(0), F(1, 2), F(1), F(1.41), F(1.42), F(3, 2), F(1.7), F(1.73), F(2), F(2.24), F(2.3),
         F(5, 2), F(3)]
RADII_POS = [r for r in RADII if r > 0]
CV_METHODS = ('crossnobis', 'poisson_cv')
METHODS = ['euclidean', 'correlation', 'poisson', 'mahalanobis', 'crossnobis', 'poisson_cv']
THRESHOLDS = [F(0), F(1, 3), F(1, 2), F(2, 3), F(7, 10), F(1)]
_OBSERVED_ORDER = {}


# ------------------------------------------------------------------ helpers

def _key(case):
    import json
    return json.dumps(case, sort_keys=True)


def _radius_arg(case):
    r = unrat(case['radius'])
    if case.get('radius_int') and r.denominator == 1:
        return int(r)
    return float(r)


def _spec_searchlight(shape, c, r):
    """independent transcription: every voxel of the volume whose Euclidean distance to the
    centre is strictly below the radius (C order); exact arithmetic"""
    out = []
    if r <= 0:
        return out
    rr = r * r
    for x in range(shape[0]):
        for y in range(shape[1]):
            for z in range(shape[2]):
                if (x - c[0]) ** 2 + (y - c[1]) ** 2 + (z - c[2]) ** 2 < rr:
                    out.append((x, y, z))
    return out


def _spec_searchlight_np(shape, c, r):
    """same as `_spec_searchlight`, integer numpy arithmetic, for large volumes"""
    if r <= 0:
        return np.zeros((0,), dtype=int)
    X, Y, Z = np.indices(shape)
    k = (X - c[0]) ** 2 + (Y - c[1]) ** 2 + (Z - c[2]) ** 2
    p, q = r.numerator, r.denominator
    return np.flatnonzero((k * (q * q) < p * p).ravel())


def _lin(shape, v):
    return (v[0] * shape[1] + v[1]) * shape[2] + v[2]


def _spec_volume(shape, flags, r, thr, fast=False):
    """accepted centres (ascending linear index) and their searchlights (linear, C order)"""
    centers, nbs = [], []
    n = shape[0] * shape[1] * shape[2]
    fl = np.asarray(flags)
    for i in range(n):
        if not flags[i]:
            continue
        c = (i // (shape[1] * shape[2]), i // shape[2] % shape[1], i % shape[2])
        if fast:
            s = _spec_searchlight_np(shape, c, r)
            cnt, tot = int(fl[s].sum()), len(s)
            s = s.tolist()
        else:
            s = [_lin(shape, v) for v in _spec_searchlight(shape, c, r)]
            cnt, tot = sum(1 for j in s if flags[j]), len(s)
        if tot > 0 and F(cnt, tot) >= thr:
            centers.append(i)
            nbs.append(s)
    return centers, nbs


def _mask_array(case):
    shape = tuple(case['shape'])
    kind = case.get('mask_kind', 'float')
    vals = [unrat(v) for v in case['mask']]
    if kind == 'bool':
        a = np.array([bool(v) for v in vals], dtype=bool)
    elif kind == 'int':
        a = np.array([int(v) for v in vals], dtype=int)
    elif kind == 'list':
        return np.array([float(v) for v in vals]).reshape(shape).tolist()
    else:
        a = np.array([float(v) for v in vals], dtype=float)
    return a.reshape(shape)


def _flags(case):
    return [1 if unrat(v) != 0 else 0 for v in case['mask']]


def _expand_rdms(case):
    """data matrix, centres, neighbour lists and events of an rdms / eval case"""
    import random
    shape = tuple(case['shape'])
    n = shape[0] * shape[1] * shape[2]
    flags = _flags(case)
    centers, nbs = _spec_volume(shape, flags, unrat(case['radius']), unrat(case['threshold']),
                                fast=n > 300)
    rr = random.Random(case['seed'])
    if case.get('shuffle'):
        order = list(range(len(centers)))
        rr.shuffle(order)
        centers = [centers[i] for i in order]
        nbs = [nbs[i] for i in order]
        for s in nbs:
            rr.shuffle(s)
    if case.get('take') is not None:
        centers, nbs = centers[:case['take']], nbs[:case['take']]
    events = list(case['events'])
    lo, hi = (0, 6) if case['method'] in ('poisson', 'poisson_cv') else (-4, 4)
    data = [[rr.randint(lo, hi) for _ in range(n)] for _ in events]
    return data, centers, nbs, events


def _pts(n):
    pts = [int(p) for p in np.linspace(0, n, 101, dtype=int)[1:-1]]
    assert all(a <= b for a, b in zip(pts, pts[1:])) and all(0 <= p <= n for p in pts), \
        'numpy linspace contract (non-decreasing split points within [0, n]) violated'
    return pts


# ------------------------------------------------------------------ generation

def _rand_mask(rng, n, kind):
    dens = rng.choice([0.35, 0.6, 0.8, 0.9, 1.0])
    on = [1 if rng.random() < dens else 0 for _ in range(n)]
    if kind == 'nonbinary':
        style = rng.choice(['two', '255', 'neg', 'half', 'labels'])
        val = {'two': lambda: F(2), '255': lambda: F(255), 'neg': lambda: F(-1),
               'half': lambda: F(1, 2), 'labels': lambda: F(rng.randint(1, 4))}[style]
        return [rat(val() * b) for b in on]
    return on


def _gen_neighbors(rng, big=False):
    hi = 7 if big else 5
    shape = [rng.randint(1, hi) for _ in range(3)]
    if rng.random() < 0.12:
        center = [rng.randint(-2, s + 1) for s in shape]
    else:
        center = [rng.randint(0, s - 1) for s in shape]
    r = rng.choice(RADII)
    return {'op': 'neighbors', 'shape': shape, 'center': center, 'radius': rat(r),
            'radius_int': rng.random() < 0.5}


def _gen_volume(rng, big=False):
    shape = [rng.randint(1, 5 if big else 4), rng.randint(1, 5 if big else 4), rng.randint(1, 4 if big else 3)]
    n = shape[0] * shape[1] * shape[2]
    kind = rng.choice(['bool', 'int', 'float', 'float', 'list', 'nonbinary'])
    mask = _rand_mask(rng, n, kind)
    return {'op': 'volume', 'shape': shape, 'mask': mask,
            'mask_kind': 'float' if kind == 'nonbinary' else kind,
            'radius': rat(rng.choice(RADII if rng.random() < 0.15 else RADII_POS)),
            'radius_int': rng.random() < 0.5,
            'threshold': rat(rng.choice(THRESHOLDS))}


def _gen_events(rng, method):
    nc = rng.randint(2, 4)
    labels = rng.sample(range(-3, 13), nc)
    if method == 'correlation':
        reps = [rng.choice([1, 2, 4]) for _ in labels]
    elif method in CV_METHODS:
        # no cv descriptor can be passed through the searchlight API: folds come from the default
        # rule (k-th observation of a condition -> fold k), which needs a balanced design
        u = rng.random()
        k = 1 if u < 0.08 else rng.randint(2, 3)
        reps = [k for _ in labels]
        if 0.08 <= u < 0.2:
            reps[rng.randrange(nc)] += 1          # unbalanced: rejected
    else:
        reps = [rng.randint(1, 3) for _ in labels]
    ev = [l for l, k in zip(labels, reps) for _ in range(k)]
    rng.shuffle(ev)
    return ev


def _gen_rdms(rng, method=None):
    method = method or (rng.choice(METHODS) if rng.random() > 0.04 else 'bogus')
    while True:
        shape = [rng.randint(2, 4), rng.randint(1, 4), rng.randint(1, 3)]
        n = shape[0] * shape[1] * shape[2]
        mask = _rand_mask(rng, n, 'int')
        case = {'op': 'rdms', 'shape': shape, 'mask': mask,
                'radius': rat(rng.choice([F(1), F(3, 2), F(3, 2), F(2), F(1.7), F(5, 2)])),
                'threshold': rat(rng.choice([F(0), F(1, 2), F(2, 3)])),
                'events': _gen_events(rng, method), 'method': method,
                'seed': rng.randint(0, 10 ** 9), 'shuffle': rng.random() < 0.4, 'take': None}
        if len(_expand_rdms(case)[1]) >= 1:
            return case


def _gen_big(rng, take, method='euclidean'):
    """a volume with more than 1000 accepted centres (radius small, threshold 0)"""
    shape = rng.choice([[11, 11, 11], [12, 10, 9], [10, 11, 10], [13, 9, 9], [26, 8, 5]])
    n = shape[0] * shape[1] * shape[2]
    mask = [1] * n
    for _ in range(rng.randint(0, 15)):
        mask[rng.randrange(n)] = 0
    return {'op': 'rdms', 'shape': shape, 'mask': mask, 'radius': rat(rng.choice([F(3, 2), F(2)])),
            'threshold': 0, 'events': _gen_events(rng, method), 'method': method,
            'seed': rng.randint(0, 10 ** 9), 'shuffle': rng.random() < 0.5, 'take': take}


def _gen_eval(rng, n_jobs, backend):
    base = _gen_rdms(rng, 'euclidean')
    while len(_expand_rdms(base)[1]) < 4:
        base = _gen_rdms(rng, 'euclidean')
    ncent = len(_expand_rdms(base)[1])
    sched = list(range(ncent))
    rng.shuffle(sched)
    return dict(base, op='eval', n_jobs=n_jobs, backend=backend,
                delays=[rng.choice([0, 0, 1, 2, 3]) for _ in range(ncent)], sched=sched,
                model_seed=rng.randint(0, 10 ** 6))


def _exhaustive_222():
    """every mask of the 2x2x2 volume, radii 1, 1.5, 2, every threshold"""
    for bits in itertools.product([0, 1], repeat=8):
        for r in (F(1), F(3, 2), F(2)):
            for thr in THRESHOLDS:
                yield {'op': 'volume', 'shape': [2, 2, 2], 'mask': list(bits), 'mask_kind': 'int',
                       'radius': rat(r), 'radius_int': False, 'threshold': rat(thr)}


def _exhaustive_neighbors():
    """every shape up to 3x3x3, every in-volume centre, every radius of the list"""
    for shape in itertools.product([1, 2, 3], repeat=3):
        for c in itertools.product(*[range(k) for k in shape]):
            for r in RADII:
                yield {'op': 'neighbors', 'shape': list(shape), 'center': list(c), 'radius': rat(r),
                       'radius_int': False}


def generate(rng, tier):
    quick = tier == 'quick'
    # one centre per voxel of a few volumes: all centres, all radii of interest
    for _ in range(2 if quick else 60):
        shape = [rng.randint(2, 4), rng.randint(2, 4), rng.randint(1, 3)]
        r = rng.choice(RADII_POS)
        for c in itertools.product(*[range(s) for s in shape]):
            yield {'op': 'neighbors', 'shape': shape, 'center': list(c), 'radius': rat(r),
                   'radius_int': False}
    for _ in range(1500 if quick else 30000):
        yield _gen_neighbors(rng, big=not quick)
    for _ in range(1200 if quick else 25000):
        yield _gen_volume(rng, big=not quick)
    if not quick:
        yield from _exhaustive_222()
        yield from _exhaustive_neighbors()
    for _ in range(300 if quick else 6000):
        yield _gen_rdms(rng)
    # chunking: exactly at, just above, and well above the limit
    yield _gen_big(rng, 1000, 'euclidean')
    yield _gen_big(rng, 1001, 'euclidean')
    yield _gen_big(rng, None, 'correlation')
    yield _gen_big(rng, rng.choice([None, 1002, 1100]), 'poisson')
    yield _gen_big(rng, rng.choice([None, 1001]), 'mahalanobis')
    yield _gen_big(rng, rng.choice([None, 1001]), 'crossnobis')
    yield _gen_big(rng, None, 'poisson_cv')
    if not quick:
        for m in METHODS:
            yield _gen_big(rng, rng.choice([None, 1001, 1002, 1100]), m)
            yield _gen_big(rng, None, m)
    yield _gen_eval(rng, 1, 'threading')
    for nj in ((2, 3, 4, 2, 4) if quick else (2, 3, 4, 2, 3, 4, 8, 2, 3, 4)):
        yield _gen_eval(rng, nj, 'threading')
    yield _gen_eval(rng, 2, 'loky')
    if not quick:
        yield _gen_eval(rng, 4, 'loky')
    # keep a small case last (evidence samples show the last case)
    yield _gen_neighbors(rng)


def search(rng, tier):
    """small cases only, for the failing-input search"""
    while True:
        yield _gen_volume(rng)
        yield _gen_neighbors(rng)
        yield _gen_rdms(rng)
        if rng.random() < 0.05:
            yield _gen_big(rng, rng.choice([None, 1001]), 'euclidean')
        if rng.random() < 0.1:
            yield _gen_eval(rng, rng.choice([1, 2, 3]), 'threading')


# ------------------------------------------------------------------ real code

def _exc(exc):
    name = type(exc).__name__
    return {'exc': name if name in ('ValueError', 'TypeError', 'AssertionError', 'IndexError',
                                    'NotImplementedError') else 'other'}


def _run_eval(case):
    import joblib
    from rsatoolbox.inference import eval_fixed
    from rsatoolbox.model import ModelFixed
    from engines.C19_tasks import token_eval
    data, centers, nbs, events = _expand_rdms(case)
    sl = SL.get_searchlight_RDMs(np.array(data, dtype=float), np.array(centers), nbs,
                                 np.array(events), method='euclidean')
    theta = {int(c): d / 1000.0 for c, d in zip(centers, case['delays'])}
    nj, backend = case['n_jobs'], case['backend']
    repo_src = os.path.dirname(os.path.dirname(os.path.dirname(os.path.abspath(SL.__file__))))
    old = os.environ.get('PYTHONPATH')
    os.environ['PYTHONPATH'] = os.pathsep.join(
        [repo_src, os.path.dirname(os.path.dirname(os.path.abspath(__file__)))] + ([old] if old else []))
    try:
        with joblib.parallel_backend(backend):
            toks = SL.evaluate_models_searchlight(sl, None, token_eval, method='corr',
                                                  theta=theta, n_jobs=nj)
            mrng = np.random.default_rng(case['model_seed'])
            npair = sl.dissimilarities.shape[1]
            models = [ModelFixed('a', mrng.random(npair)), ModelFixed('b', mrng.random(npair))]
            res = SL.evaluate_models_searchlight(sl, models, eval_fixed, method='cosine', n_jobs=nj)
    finally:
        if old is None:
            os.environ.pop('PYTHONPATH', None)
        else:
            os.environ['PYTHONPATH'] = old
    direct = [eval_fixed(models, sl[i], method='cosine').evaluations for i in range(sl.n_rdm)]
    mism = 0 if len(res) == len(direct) else abs(len(res) - len(direct))
    for a, b in zip(res, direct):
        if not np.allclose(a.evaluations, b, rtol=1e-12, atol=0, equal_nan=True):
            mism += 1
    order = sorted(range(len(toks)), key=lambda i: toks[i][2])   # task positions by completion time
    _OBSERVED_ORDER[_key(case)] = order
    vec_bad = sum(1 for i, t in enumerate(toks)
                  if i >= sl.n_rdm or not np.array_equal(np.array(t[1]), sl.dissimilarities[i], equal_nan=True))
    return {'tokens': [int(t[0]) for t in toks], 'vec_mismatch': vec_bad, 'eval_mismatch': mism,
            'completion_in_order': order == sorted(order)}


def run_impl(case):
    import contextlib
    import io
    with contextlib.redirect_stdout(io.StringIO()):   # the library prints 'Found n searchlights'
        return _run_impl(case)


def _run_impl(case):
    op = case['op']
    try:
        if op == 'neighbors':
            shape = tuple(case['shape'])
            nb = SL._get_searchlight_neighbors(np.zeros(shape), tuple(case['center']), _radius_arg(case))
            nb = [list(map(int, a)) for a in nb]
            return [[nb[0][i], nb[1][i], nb[2][i]] for i in range(len(nb[0]))] if len(nb) == 3 else {'exc': 'shape'}
        if op == 'volume':
            c, nb = SL.get_volume_searchlight(_mask_array(case), radius=_radius_arg(case),
                                              threshold=float(unrat(case['threshold'])))
            return {'centers': [int(x) for x in np.asarray(c).ravel()],
                    'neighbors': [[int(x) for x in np.asarray(s).ravel()] for s in nb]}
        if op == 'rdms':
            data, centers, nbs, events = _expand_rdms(case)
            out = SL.get_searchlight_RDMs(np.array(data, dtype=float), np.array(centers), nbs,
                                          np.array(events), method=case['method'])
            return {'rdm': [[None if math.isnan(v) else float(v) for v in row]
                            for row in out.dissimilarities.tolist()],
                    'voxel_index': [int(v) for v in out.rdm_descriptors['voxel_index']]}
        if op == 'eval':
            return _run_eval(case)
    except Exception as exc:  # noqa: BLE001  (library exceptions are part of the observable result)
        return _exc(exc)
    raise ValueError(f'unknown op {op}')


# ------------------------------------------------------------------ model

def model_requests(case):
    op = case['op']
    if op == 'neighbors':
        return [{'op': 'c19.neighbors', 'shape': case['shape'], 'center': case['center'],
                 'radius': case['radius']}]
    if op == 'volume':
        return [{'op': 'c19.volume', 'shape': case['shape'], 'mask': _flags(case),
                 'radius': case['radius'], 'threshold': case['threshold']}]
    if op == 'rdms':
        data, centers, nbs, events = _expand_rdms(case)
        exact = case['method'] in ('euclidean', 'mahalanobis', 'crossnobis')
        enc = (lambda v: v) if exact else fbits
        return [{'op': 'c19.rdms', 'method': case['method'],
                 'data': [[enc(v) for v in row] for row in data],
                 'centers': centers, 'neighbors': nbs, 'events': events,
                 'pts': _pts(len(centers)) if len(centers) > 1000 else []}]
    if op == 'eval':
        _, centers, _, _ = _expand_rdms(case)
        sched = _OBSERVED_ORDER.get(_key(case), case['sched'])
        if sorted(sched) != list(range(len(centers))):
            sched = case['sched']
        return [{'op': 'c19.collect', 'tokens': centers, 'sched': sched}]
    raise ValueError(op)


def model_result(case, answers):
    a = answers[0]
    op = case['op']
    if isinstance(a, dict) and 'model_error' in a:
        # designs / methods the model rejects, with the exception class the library documents
        err = str(a['model_error'])
        if op == 'rdms' and err == 'unbalanced':
            return {'exc': 'AssertionError'}
        if op == 'rdms' and err == 'single fold':
            return {'exc': 'ValueError'}
        if op == 'rdms' and case['method'] == 'bogus' and 'not modelled' in err:
            return {'exc': 'NotImplementedError'}
        return a
    if op == 'neighbors':
        if sorted(map(tuple, a['algo'])) != sorted(map(tuple, a['spec'])):
            return {'model_error': 'neighborsAlgo and neighborsSpec differ as sets (contradicts prefilter_sound)'}
        return a['algo']
    if op == 'volume':
        return {'centers': a['centers'], 'neighbors': a['neighbors']}
    if op == 'rdms':
        if case['method'] in ('euclidean', 'mahalanobis', 'crossnobis'):
            rows = [[float(unrat(v)) for v in row] for row in a['rdm']]
        else:
            rows = [[None if v is None else unfbits(v) for v in row] for row in a['rdm']]
        return {'rdm': rows, 'voxel_index': a['voxel_index']}
    if op == 'eval':
        return {'tokens': a, 'vec_mismatch': 0, 'eval_mismatch': 0}
    raise ValueError(op)


def _rows_diff(a, b, what):
    if len(a) != len(b):
        return f'{what}: {len(a)} rows != {len(b)}'
    for i, (ra, rb) in enumerate(zip(a, b)):
        if len(ra) != len(rb):
            return f'{what}[{i}]: width {len(ra)} != {len(rb)}'
        for j, (x, y) in enumerate(zip(ra, rb)):
            xn = x is None or (isinstance(x, float) and math.isnan(x))
            yn = y is None or (isinstance(y, float) and math.isnan(y))
            if xn or yn:
                if xn != yn:
                    return f'{what}[{i}][{j}]: {x!r} != {y!r}'
            elif not close(x, y, 1e-9, 1e-12):
                return f'{what}[{i}][{j}]: {x!r} != {y!r}'
    return None


_RAW_ORDER = {}


def compare(case, impl, model):
    if case['op'] in ('neighbors', 'volume') and not (isinstance(impl, dict) and 'exc' in impl) \
            and not (isinstance(model, dict) and 'model_error' in model):
        _RAW_ORDER[_key(case)] = impl == model
    return _compare(case, impl, model)


def _compare(case, impl, model):
    if isinstance(model, dict) and 'model_error' in model:
        return f'model error {model}'
    iexc = impl.get('exc') if isinstance(impl, dict) else None
    mexc = model.get('exc') if isinstance(model, dict) else None
    if iexc or mexc:
        if iexc == mexc:
            return None
        return f'impl {"raised " + iexc if iexc else "gives a result"}, model {"rejects with " + mexc if mexc else "gives a result"}'
    op = case['op']
    if op == 'neighbors':
        # a searchlight is a *set* of voxels: compare sorted rows (a duplicate changes the length)
        a, b = sorted(map(tuple, impl)), sorted(map(tuple, model))
        if a != b:
            return f'searchlight voxels differ: impl {a[:6]}… ({len(a)}) vs model {b[:6]}… ({len(b)})'
        return None
    if op == 'volume':
        # canonical form: centre -> sorted neighbour indices (the property fixes neither the order
        # of the centres nor the order inside a neighbour list); lengths catch duplicates
        if len(impl['centers']) != len(impl['neighbors']):
            return f'{len(impl["centers"])} centres but {len(impl["neighbors"])} neighbour lists'
        a = sorted((c, sorted(s)) for c, s in zip(impl['centers'], impl['neighbors']))
        b = sorted((c, sorted(s)) for c, s in zip(model['centers'], model['neighbors']))
        if [c for c, _ in a] != [c for c, _ in b]:
            return f'centers differ: impl {[c for c, _ in a][:10]} ({len(a)}) vs ' \
                   f'model {[c for c, _ in b][:10]} ({len(b)})'
        if a != b:
            k = next(x[0] for x, y in zip(a, b) if x != y)
            return f'neighbour list of centre {k} differs'
        return None
    if op == 'rdms':
        if impl['voxel_index'] != model['voxel_index']:
            return 'voxel_index descriptor differs from the centres'
        return _rows_diff(impl['rdm'], model['rdm'], 'rdm')
    if op == 'eval':
        if impl['tokens'] != model['tokens']:
            return f'results not one per centre in centre order: {impl["tokens"][:8]} vs {model["tokens"][:8]}'
        if impl['vec_mismatch']:
            return f'{impl["vec_mismatch"]} tasks received an RDM that is not the one of their centre'
        if impl['eval_mismatch']:
            return f'{impl["eval_mismatch"]} evaluation results differ from the per-centre direct call'
        return None
    raise ValueError(op)


# ------------------------------------------------------------------ oracle (property on the real code)

def _expected_rejection(events, method):
    """exception class with which the direct computation itself rejects the design / method"""
    if method == 'bogus':
        return 'NotImplementedError'
    if method in CV_METHODS:
        counts = [events.count(c) for c in sorted(set(events))]
        if len(set(counts)) != 1:
            return 'AssertionError'      # default folds need a balanced design
        if counts[0] < 2:
            return 'ValueError'          # one fold: no training data
    return None


def _direct_rdm_cv(cols, events, method):
    """plain-loop leave-one-fold-out RDM; fold of an observation = its occurrence number among
    the observations of its condition; mean over folds of (train_i - train_j).(test_i - test_j)/n
    (crossnobis, identity noise) or the Poisson analogue"""
    conds = sorted(set(events))
    seen, occ = {}, []
    for e in events:
        occ.append(seen.get(e, 0))
        seen[e] = occ[-1] + 1
    nfold = max(occ) + 1
    nch = len(cols[0])
    num = F if method == 'crossnobis' else float
    out = [num(0)] * (len(conds) * (len(conds) - 1) // 2)
    for f in range(nfold):
        tr, te = [], []
        for c in conds:
            rtr = [r for r, e, o in zip(cols, events, occ) if e == c and o != f]
            rte = [r for r, e, o in zip(cols, events, occ) if e == c and o == f]
            tr.append([sum(num(r[j]) for r in rtr) / len(rtr) for j in range(nch)])
            te.append([sum(num(r[j]) for r in rte) / len(rte) for j in range(nch)])
        if method == 'poisson_cv':
            tr = [[(x + 0.1) / 1.1 for x in m] for m in tr]
            te = [[math.log((x + 0.1) / 1.1) for x in m] for m in te]
        k = 0
        for i in range(len(conds)):
            for j in range(i + 1, len(conds)):
                out[k] += sum((tr[i][q] - tr[j][q]) * (te[i][q] - te[j][q]) for q in range(nch)) / nch
                k += 1
    return [v / nfold for v in out]


def _direct_rdm(cols, events, method):
    """plain-loop RDM of a data matrix (rows = observations) with conditions from `events`:
    condition means in ascending label order, all pairs i<j"""
    if method in CV_METHODS:
        return _direct_rdm_cv(cols, events, method)
    conds = sorted(set(events))
    exact = method in ('euclidean', 'mahalanobis')
    means = []
    for c in conds:
        rows = [r for r, e in zip(cols, events) if e == c]
        if exact:
            means.append([sum(F(r[j]) for r in rows) / len(rows) for j in range(len(cols[0]))])
        else:
            means.append([sum(float(r[j]) for r in rows) / len(rows) for j in range(len(cols[0]))])
    out = []
    for i in range(len(conds)):
        for j in range(i + 1, len(conds)):
            a, b = means[i], means[j]
            nch = len(a)
            if exact:
                out.append(sum((x - y) ** 2 for x, y in zip(a, b)) / nch)
            elif method == 'correlation':
                ma, mb = sum(a) / nch, sum(b) / nch
                ca, cb = [x - ma for x in a], [y - mb for y in b]
                na = math.sqrt(sum(x * x for x in ca))
                nb = math.sqrt(sum(y * y for y in cb))
                if na == 0 or nb == 0:
                    out.append(float('nan'))
                else:
                    out.append(1 - sum(x * y for x, y in zip(ca, cb)) / (na * nb))
            elif method == 'poisson':
                pa = [(x + 0.1) / 1.1 for x in a]
                pb = [(y + 0.1) / 1.1 for y in b]
                out.append(sum((x - y) * (math.log(x) - math.log(y)) for x, y in zip(pa, pb)) / nch)
            else:
                raise ValueError(method)
    return out


def oracle(case):
    op = case['op']
    impl = run_impl(case)
    base = {'op': op}
    if op == 'neighbors':
        want = _spec_searchlight(tuple(case['shape']), tuple(case['center']), unrat(case['radius']))
        if isinstance(impl, dict):
            return {'what': 'searchlight computation raised', 'observed': impl, 'expected': len(want),
                    'features': base}
        got = [tuple(v) for v in impl]
        if len(set(got)) != len(got) or set(got) != set(want):
            return {'what': 'searchlight is not exactly the in-volume voxels at distance < radius',
                    'observed': sorted(got)[:40], 'expected': want[:40],
                    'missing': sorted(set(want) - set(got))[:10], 'extra': sorted(set(got) - set(want))[:10],
                    'features': base}
        return None
    if op == 'volume':
        shape, flags = tuple(case['shape']), _flags(case)
        wc, wn = _spec_volume(shape, flags, unrat(case['radius']), unrat(case['threshold']))
        feats = dict(base, empty_result=not wc,
                     mask_binary=all(unrat(v) in (0, 1) for v in case['mask']))
        if 'exc' in impl:
            return {'what': 'get_volume_searchlight raises instead of returning the accepted centres'
                            + (' (none are accepted)' if not wc else ''),
                    'observed': impl, 'expected': {'centers': wc}, 'features': dict(feats, failure='raises')}
        gc, gn = impl['centers'], impl['neighbors']
        if len(gc) != len(set(gc)) or set(gc) != set(wc):
            return {'what': 'accepted centres are not exactly the mask voxels whose searchlight lies in the '
                            'mask by at least the threshold fraction',
                    'observed': gc, 'expected': wc, 'features': dict(feats, failure='centres')}
        feats = dict(feats, failure='neighbours')
        if len(gn) != len(gc):
            return {'what': 'number of neighbour lists differs from number of centres',
                    'observed': len(gn), 'expected': len(gc), 'features': feats}
        want = dict(zip(wc, wn))
        for c, s in zip(gc, gn):
            if len(set(s)) != len(s) or set(s) != set(want[c]):
                return {'what': 'neighbour list of a centre is not the searchlight of that centre',
                        'centre': c, 'observed': sorted(s), 'expected': want[c], 'features': feats}
        return None
    if op == 'rdms':
        data, centers, nbs, events = _expand_rdms(case)
        feats = dict(base, n_centers=len(centers), method=case['method'])
        rej = _expected_rejection(events, case['method'])
        if rej:
            if impl.get('exc') != rej:
                return {'what': 'a design/method the direct computation rejects is not rejected alike',
                        'observed': impl if 'exc' in impl else 'a result', 'expected': {'exc': rej},
                        'features': feats}
            return None
        if 'exc' in impl:
            return {'what': 'get_searchlight_RDMs raised', 'observed': impl, 'expected': 'RDMs',
                    'features': dict(feats, failure='raises',
                                     unequal_sizes=len({len(s) for s in nbs}) > 1)}
        if impl['voxel_index'] != centers:
            return {'what': 'voxel_index descriptor is not the list of centres', 'observed': impl['voxel_index'][:20],
                    'expected': centers[:20], 'features': feats}
        if len(impl['rdm']) != len(centers):
            return {'what': 'number of RDMs differs from number of centres', 'observed': len(impl['rdm']),
                    'expected': len(centers), 'features': feats}
        for i, s in enumerate(nbs):
            cols = [[row[j] for j in s] for row in data]
            want = [float(v) for v in _direct_rdm(cols, events, case['method'])]
            d = _rows_diff([impl['rdm'][i]], [want], f'centre#{i}')
            if d:
                return {'what': 'RDM of a centre is not the RDM computed directly from its searchlight columns',
                        'centre_number': i, 'observed': impl['rdm'][i], 'expected': want, 'detail': d,
                        'features': feats}
        return None
    if op == 'eval':
        _, centers, _, _ = _expand_rdms(case)
        feats = dict(base, n_jobs=case['n_jobs'], backend=case['backend'])
        if 'exc' in impl:
            return {'what': 'evaluate_models_searchlight raised', 'observed': impl, 'expected': 'list',
                    'features': feats}
        if impl['tokens'] != centers or impl['vec_mismatch'] or impl['eval_mismatch']:
            return {'what': 'evaluate_models_searchlight does not return one result per centre in centre order',
                    'observed': impl, 'expected': {'tokens': centers}, 'features': feats}
        return None
    raise ValueError(op)


# ------------------------------------------------------------------ features / bookkeeping

def features(case, impl):
    op = case['op']
    f = {'op': op, 'branches': []}
    b = f['branches']
    if _key(case) in _RAW_ORDER:
        f['same_order_as_model'] = _RAW_ORDER[_key(case)]
    if op == 'neighbors':
        shape, c, r = case['shape'], case['center'], unrat(case['radius'])
        inside = all(0 <= ci < s for ci, s in zip(c, shape))
        f['radius'] = str(float(r))
        if r <= 0:
            b.append('nb:r_le_0')
        elif not inside:
            b.append('nb:outside_center')
        else:
            reach = math.ceil(r) - 1 if r.denominator == 1 else math.floor(r)
            clipped = any(ci - reach < 0 or ci + reach >= s for ci, s in zip(c, shape))
            b.append('nb:clipped' if clipped else 'nb:interior')
        if r > 0 and r.denominator == 1:
            b.append('nb:boundary_radius')
    elif op == 'volume':
        flags = _flags(case)
        f['mask_kind'] = case.get('mask_kind')
        f['threshold'] = case['threshold']
        f['mask_binary'] = all(unrat(v) in (0, 1) for v in case['mask'])
        if not f['mask_binary']:
            b.append('vol:nonbinary')
        wc, _ = _spec_volume(tuple(case['shape']), flags, unrat(case['radius']), unrat(case['threshold']))
        f['empty_result'] = not wc
        nmask = sum(flags)
        b.append('vol:none' if not wc else 'vol:all' if len(wc) == nmask else 'vol:some')
        if wc and len(wc) < nmask and 0 < unrat(case['threshold']) < 1:
            b.append('vol:thr_fraction')
    elif op == 'rdms':
        n = len(_expand_rdms(case)[1])
        f['method'] = case['method']
        f['n_centers_class'] = '>1000' if n > 1000 else '<=1000'
        b.append('rdms:chunked' if n > 1000 else 'rdms:plain')
        if n in (1000, 1001):
            b.append(f'rdms:n{n}')
        if case.get('shuffle'):
            b.append('rdms:shuffled')
        b.append('rdms:' + case['method'])
        rej = _expected_rejection(list(case['events']), case['method'])
        f['rejected'] = rej
        if rej:
            b.append({'AssertionError': 'rdms:unbalanced_rejected', 'ValueError': 'rdms:single_fold_rejected',
                      'NotImplementedError': 'rdms:unknown_method'}[rej])
    elif op == 'eval':
        f['n_jobs'] = case['n_jobs']
        f['backend'] = case['backend']
        b.append('eval:jobs1' if case['n_jobs'] == 1 else
                 'eval:threads' if case['backend'] == 'threading' else 'eval:processes')
        if isinstance(impl, dict) and 'completion_in_order' in impl:
            f['completion_in_order'] = impl['completion_in_order']
    return f


def nontrivial_key(case, impl):
    op = case['op']
    if op == 'neighbors':
        if not isinstance(impl, list):
            return None
        n = case['shape'][0] * case['shape'][1] * case['shape'][2]
        if len(impl) in (0, n):
            return None
        return [op, case['shape'], case['center'], case['radius']]
    if op == 'volume':
        if not isinstance(impl, dict) or 'centers' not in impl:
            return None
        if len(impl['centers']) in (0, sum(_flags(case))):
            return None
        return [op, case['shape'], _flags(case), case['radius'], case['threshold']]
    if op in ('rdms', 'eval'):
        if not isinstance(impl, dict) or 'exc' in impl:
            return None
        if op == 'rdms' and (len(impl['rdm']) < 2 or all(v is None for row in impl['rdm'] for v in row)):
            return None
        return [op, case['shape'], case['mask'], case['radius'], case['threshold'], case['events'],
                case['method'], case['seed'], case.get('take'), case.get('n_jobs'), case.get('backend')]
    return None


def shrink(case, still_fails):
    """smaller volume / simpler mask while the oracle still fails"""
    op = case['op']
    if op not in ('volume', 'neighbors'):
        if op == 'rdms' and case.get('take') is None:
            for t in (1, 2, 5, 20):
                c2 = dict(case, take=t)
                if len(_expand_rdms(c2)[1]) >= 1 and still_fails(c2):
                    return c2
        return case
    cur = case
    changed = True
    while changed:
        changed = False
        for ax in range(3):
            if cur['shape'][ax] <= 1:
                continue
            shape = list(cur['shape'])
            shape[ax] -= 1
            c2 = dict(cur, shape=shape)
            if op == 'neighbors' and 0 <= cur['center'][ax] < cur['shape'][ax] \
                    and not cur['center'][ax] < shape[ax]:
                continue        # keep an in-volume centre inside the volume
            if op == 'volume':
                a = np.array(cur['mask'], dtype=object).reshape(cur['shape'])
                c2['mask'] = np.delete(a, -1, axis=ax).ravel().tolist()
            if still_fails(c2):
                cur, changed = c2, True
        if op == 'volume':
            for i, v in enumerate(cur['mask']):
                if unrat(v) not in (0, 1):
                    continue
                for nv in ((0,) if unrat(v) == 1 else ()):
                    m2 = list(cur['mask'])
                    m2[i] = nv
                    c2 = dict(cur, mask=m2)
                    if still_fails(c2):
                        cur, changed = c2, True
    return cur
