"""C12 — value-returning operations neither modify nor alias their inputs.

The deciding tie for this property is an observation of the *real* Python heap:

  for every public callable of rsatoolbox.{rdm,data,model,inference,util} found by
  introspection (engines/C12_heap.discover) for which an argument factory exists
  (engines/C12_args; the rest is listed as uncovered in the evidence):
    1. fingerprint all arguments, call, fingerprint again            (arguments unchanged)
    2. abstract arguments (= source side) and result (= result side) into the heap model of
       lean/Rsa/Core/Heap.lean: objects, dictionary objects, array *elements* by address
    3. run a history of documented in-place operations (array write, reorder, sort_by,
       append, dataset sort_by) on components of either side, on the real objects and —
       the same history, on the abstracted heap — in the compiled Lean model

  model result  = what the property demands and what the proved model predicts:
                  no argument mutated, `sepB` holds on the observed heap (hypothesis of
                  Rsa.Props.C12.frame), and the content trace of the Lean run
  impl result   = what the real code did: mutated arguments, and the content of every
                  component after every step
  The traces must agree exactly (this validates "exactly the writes the code performs").
  The oracle is independent of the model: it only fingerprints the *other* side around
  every in-place operation.
"""
import contextlib
import io
import random

import numpy as np

from engines import C12_heap as H
from engines import C12_args as A
from engines import C12_writes as W

PROPERTY = 'C12'
LEVEL = 'proof'
P = 'Rsa.Props.C12.'
THEOREMS = [P + n for n in (
    'exec_frame', 'step_frame', 'step_preserves_sep', 'frame', 'frame_history',
    'fresh_producer_sep', 'fresh_producer_safe', 'copy_is_fresh',
    'shared_dict_counterexample', 'rebind_makes_shared_dict_harmless', 'transform_inplace_counterexample',
    'concat_reorders_argument', 'shared_write_interferes')]
RULE = ('one case = (public callable found by introspection, argument seed, history of documented '
        'in-place operations on components of the result and of the arguments); arguments are built '
        'from the repo\'s own types by seeded factories (list- and array-valued descriptors, signed '
        'dissimilarities, unsorted unique condition labels); a case is non-trivial when the call '
        'returned and at least one in-place operation was applied to a component of either side; '
        'the pseudo-case @write-sets compares the mutators\' write sets read from the source text '
        'with the Lean compile; distinct = distinct (callable, argument seed, history)')
DISC = 'rebind'            # write discipline of reorder / sort_by / append on the current tree
WRITES = '@write-sets'     # pseudo-case: write sets of the mutators, source text vs Lean `compile`
BRANCHES = ['arg:nan:none', 'arg:nan:common', 'arg:nan:per-rdm',
            'arg:weights:2d', 'arg:weights:1d', 'arg:weights:name-2d', 'arg:weights:name-1d', 'arg:weights:none',
            'arg:sigma_k:none', 'arg:sigma_k:matrix', 'arg:sigma_k:vector',
            'arg:noise:array', 'arg:theta:array', 'arg:pattern_idx:array',
            'tie:write-sets', 'call:returned', 'call:raised', 'side:result-op', 'side:source-op',
            'op:fill', 'op:reorder', 'op:sort_by', 'op:append', 'op:ds_sort_by',
            'result:rdms', 'result:dataset', 'result:array', 'result:scalar-or-other']
ASSUMPTIONS = [
    'the object graph walker (engines/C12_heap.components) sees every mutable numpy array, '
    'descriptor dictionary and RDMs/Dataset instance reachable from arguments and results',
    'memory addresses of array elements identify storage (numpy views); objects are kept alive '
    'during a case so that ids and addresses are not reused']
TRUSTED_EXTRA = ['CPython object identity and numpy view semantics as observed through id(), '
                 '__array_interface__ and strides']

_CALLABLES = None
_OBS = {}      # case key -> observation (shared between run_impl and model_requests)


def callables():
    global _CALLABLES
    if _CALLABLES is None:
        _CALLABLES = H.discover()
    return _CALLABLES


def producers():
    """callables that are checked; the documented in-place operations are the alphabet instead"""
    out = []
    for q in sorted(callables()):
        if q in H.MUTATORS or q in H.INPLACE_BY_CONTRACT:
            continue
        out.append(q)
    return out


def coverage_report():
    cov, unc = [], {}
    for q in producers():
        try:
            A.build_call(q, 0)
            cov.append(q)
        except A.Uncovered as e:
            unc[q] = str(e)
    for q, why in H.INPLACE_BY_CONTRACT.items():
        unc[q] = 'excluded: ' + why
    return cov, unc


def _key(case):
    return (case['fn'], case['seed'], repr(case.get('hist')), case.get('hseed'))


# ------------------------------------------------------------------ one observation

def _call(case):
    """build fresh arguments and call; returns dict with source / result objects"""
    q = case['fn']
    kind, fn, owner = callables()[q]
    self_obj, args, kwargs = A.build_call(q, case['seed'])
    _call.tags = list(A.build_call.last_tags)
    source = {'self': self_obj, 'args': args, 'kwargs': kwargs}
    before = H.fingerprint(source)
    exc = None
    result = None
    try:
        with contextlib.redirect_stdout(io.StringIO()):
            result = A.invoke(kind, fn, owner, q, self_obj, args, kwargs)
    except Exception as e:  # noqa: BLE001  library exceptions are part of the result
        exc = type(e).__name__
    after = H.fingerprint(source)
    mutated = None if before == after else (H.fp_diff(before, after) or 'changed')
    _call.all_diffs = [] if before == after else H.fp_diffs(before, after)
    return source, result, exc, mutated


def _plan_history(case, sides, rng, cells=None):
    """history = list of [side, component index, op description]; array writes first (they must
       hit the arrays that exist right after the call), then the other operations shuffled"""
    if case.get('hist') is not None:
        return [list(s) for s in case['hist']]
    fills, rest, pfills, prest = [], [], [], []
    for sname in ('result', 'source'):
        roots, comps = sides[sname]
        other = H.reach_side(cells, sides['source' if sname == 'result' else 'result'][0]) if cells else set()
        for ci, (path, kind, o) in enumerate(comps):
            sh = H.shared_fields(cells, roots[ci], other) if cells else set()
            for op in H.applicable_ops(kind, o, rng):
                # operations whose footprint is visible from the other side go first
                hot = '<object>' in sh or \
                    (op['op'] == 'fill' and op['field'] in sh) or \
                    (op['op'] in ('reorder', 'sort_by') and 'pattern_descriptors' in sh) or \
                    (op['op'] == 'append' and 'rdm_descriptors' in sh)
                if op['op'] == 'fill':
                    (pfills if hot else fills).append([sname, ci, op])
                else:
                    (prest if hot else rest).append([sname, ci, op])
    for l in (fills, rest, pfills, prest):
        rng.shuffle(l)
    fills = pfills + fills
    rest = prest + rest
    limit = case.get('max_steps', 24)
    if len(fills) > limit // 2:
        fills = fills[:max(limit // 2, len(pfills))]
    if case.get('shuffle_all'):
        both = fills + rest
        rng.shuffle(both)
        return both[:limit]
    return (fills + rest)[:limit]


def observe(case):
    """run one case on the real code; everything the engine needs"""
    H.quiet()
    source, result, exc, mutated = _call(case)
    obs = {'exc': exc, 'tags': list(_call.tags), 'mutated': mutated, 'mutated_all': list(_call.all_diffs), 'steps': [], 'interference': [], 'kinds': [],
           'heap': None, 'trace': None, 'hist': [], 'sharing': []}
    if exc is not None:
        return obs
    ab = H.Abstraction()
    sides = {'source': ab.side(source), 'result': ab.side(result)}
    obs['kinds'] = sorted({k for _, k, _ in sides['result'][1] if k != 'bag'} |
                          ({'array'} if any(k == 'array' for _, k, _ in sides['result'][1][-1][2]) else set()))
    if ab.too_big:
        obs['too_big'] = True
    obs['sharing'] = _sharing(ab.cells, sides)
    rng = random.Random(case.get('hseed', case['seed']) * 7919 + 13)
    hist = _plan_history(case, sides, rng, ab.cells)

    def dump_all():
        out = []
        for sname in ('source', 'result'):
            for (path, kind, o) in sides[sname][1]:
                out.append(H.dump_component(kind, o))
        return out

    heap = ab.heap_json()
    heap['src'] = sides['source'][0]
    heap['res'] = sides['result'][0]
    trace = [dump_all()]
    done = []
    fps = {'source': H.fingerprint(source), 'result': H.fingerprint(result)}
    for sname, ci, op in hist:
        roots, comps = sides[sname]
        if ci >= len(comps):
            continue
        path, kind, o = comps[ci]
        other = 'source' if sname == 'result' else 'result'
        try:
            full = H.apply_op(kind, o, op)
        except Exception as e:  # noqa: BLE001  an in-place op rejected by the library: skip the step
            obs['steps'].append({'side': sname, 'op': op['op'], 'skipped': type(e).__name__})
            continue
        if full.get('readonly'):
            continue
        new_other = H.fingerprint(source if other == 'source' else result)
        if new_other != fps[other]:
            obs['interference'].append({
                'step': len(done), 'on': sname, 'component': path or '<top>', 'op': op['op'],
                'changed': other, 'where': H.fp_diff(fps[other], new_other) or 'changed'})
        fps[other] = new_other
        fps[sname] = H.fingerprint(source if sname == 'source' else result)
        done.append({'root': roots[ci], 'side': sname, 'ci': ci, **full})
        trace.append(dump_all())
    obs['hist'] = done
    obs['heap'] = heap
    obs['trace'] = trace
    return obs


def _sharing(cells, sides):
    """which writable attributes of either side are readable from the other (classification
       only; the verdicts come from the Lean `sepB` and from the fingerprints)"""
    out = set()
    for sname in ('source', 'result'):
        roots, comps = sides[sname]
        other = H.reach_side(cells, sides['source' if sname == 'result' else 'result'][0])
        for ci, (path, kind, o) in enumerate(comps):
            for f in H.shared_fields(cells, roots[ci], other):
                if f == '<object>':
                    out.add('object')
                elif kind == 'rdms' and f in ('pattern_descriptors', 'rdm_descriptors'):
                    out.add('dict')
                elif '[' not in f and f in ('dissimilarities', 'measurements') or \
                        (kind == 'bag' and f.startswith('a')):
                    out.add('array')
    return sorted(out)


def mutation_cause(diffs):
    """the only argument change with its own class: the library-managed `index` entry written
       into a descriptor dictionary the *caller* passed (RDMs.__init__) — and only if that is
       *everything* that changed; any other change of an argument is a plain mutation"""
    import re
    pat = re.compile(r"\['(rdm|pattern)_descriptors'\]\['index'\] added$")
    if diffs and all(pat.search(str(d)) for d in diffs):
        return 'writes-caller-descriptor-dict'
    return 'mutates-argument'


def sharing_cause(sharing):
    """strongest sharing class that a documented in-place operation can reach.  Since reorder /
       sort_by / append bind new dictionaries (write discipline `rebind`), a shared descriptor
       dictionary ('dict') is not written by any of them and is only reported as information"""
    if 'object' in sharing:
        return 'same-object'
    if 'array' in sharing:
        return 'shared-array'
    return 'none'


def _obs(case):
    k = _key(case)
    if k not in _OBS:
        if len(_OBS) > 20000:
            _OBS.clear()
        _OBS[k] = observe(case)
    return _OBS[k]


# ------------------------------------------------------------------ engine interface

def generate(rng, tier):
    cov, unc = coverage_report()
    note = 'callables found by introspection but not exercised (no factory / excluded): ' + \
        '; '.join(f'{q.replace("rsatoolbox.", "")} [{why}]' for q, why in sorted(unc.items()))
    if not any(a.startswith('callables found by introspection') for a in ASSUMPTIONS):
        ASSUMPTIONS.append(note)
        ASSUMPTIONS.append(f'{len(cov)} public callables exercised; documented in-place operations '
                           f'(history alphabet, not producers): ' + ', '.join(sorted(H.MUTATORS)))
    yield {'fn': WRITES, 'seed': 0}
    n_sets = 6 if tier == 'quick' else 24
    for q in cov:
        base = rng.randrange(1, 10 ** 6)
        for k in range(n_sets):
            # consecutive seeds: the factories rotate their discrete choices with the seed
            yield {'fn': q, 'seed': base + k, 'hseed': rng.randrange(10 ** 6)}
    if tier == 'thorough':
        # short histories in a *random* order (no "writes first" discipline)
        for q in cov:
            for _ in range(4):
                yield {'fn': q, 'seed': rng.randrange(1, 10 ** 6), 'hseed': rng.randrange(10 ** 6),
                       'max_steps': 3, 'shuffle_all': True}


def run_impl(case):
    if case['fn'] == WRITES:
        return {'writes': W.source_write_sets()}
    o = _obs(case)
    if o['exc'] is not None:
        return {'exc': o['exc'], 'mutated': o['mutated']}
    return {'mutated': o['mutated'], 'trace': o['trace'], 'n_steps': len(o['hist'])}


def model_requests(case):
    if case['fn'] == WRITES:
        return [{'op': 'c12.writes', 'disc': DISC}]
    o = _obs(case)
    if o['exc'] is not None or o['heap'] is None:
        return []
    h = o['heap']
    return [{'op': 'c12.run', 'disc': DISC, 'cells': h['cells'], 'next': h['next'], 'src': h['src'], 'res': h['res'],
             'hist': [{k: v for k, v in s.items() if k not in ('side', 'ci')} for s in o['hist']]}]


def model_result(case, answers):
    if case['fn'] == WRITES:
        a = answers[0]
        if isinstance(a, dict) and 'model_error' in a:
            return a
        m = {k: sorted(set(v)) for k, v in a.items() if k != 'fill'}
        m['tds_sort_by'] = m['ds_sort_by']
        return {'writes': m}
    if not answers:
        return {'mutated': None}
    a = answers[0]
    if isinstance(a, dict) and 'model_error' in a:
        return a
    return {'mutated': None, 'sep': a['sep'], 'shared': a['shared'],
            'trace': [[H.canon_dump(d) for d in t] for t in a['trace']]}


def compare(case, impl, model):
    if 'model_error' in model:
        return f'model error {model["model_error"]}'
    if case['fn'] == WRITES:
        for k in sorted(model['writes']):
            if impl['writes'].get(k) != model['writes'][k]:
                return (f'in-place operation {k}: the source text writes {impl["writes"].get(k)}, '
                        f'the Lean model (compile) writes {model["writes"][k]}')
        return None
    if impl.get('mutated'):
        return f'{case["fn"]} changed its argument: {impl["mutated"]}'
    if 'exc' in impl:
        return None
    if not model['sep']:
        return (f'{case["fn"]}: result and arguments share cells that a documented in-place operation '
                f'writes: {_shared_names(case, model["shared"])}')
    if impl['trace'] != model['trace']:
        for k, (a, b) in enumerate(zip(impl['trace'], model['trace'])):
            if a != b:
                return f'{case["fn"]}: heap model and real objects differ after step {k} ({_first(a, b)})'
        return f'{case["fn"]}: trace lengths differ'
    return None


def _first(a, b):
    for i, (x, y) in enumerate(zip(a, b)):
        if x != y:
            for fx, fy in zip(x, y):
                if fx != fy:
                    return f'component {i} attribute {fx[0]}: real {str(fx[2:])[:120]} model {str(fy[2:])[:120]}'
            return f'component {i}: attribute lists differ'
    return 'lengths differ'


def _shared_names(case, shared):
    o = _obs(case)
    names = []
    loc2name = {}
    if o.get('heap'):
        pass
    for side, root, field in shared:
        names.append(f'{side}:{field}')
    return sorted(set(names))




def oracle(case):
    """direct transcription of the property on the real code: (1) the call leaves every argument
       bit-identical (library-managed `index` of RDMs excluded), (2) no in-place operation of the
       history on one side changes anything readable from the other side"""
    if case['fn'] == WRITES:
        return None     # a changed write set is not itself a violation; run_check then searches
    o = observe(case)
    if not o['mutated'] and not o['interference'] and \
            (case.get('hist') is not None or case.get('max_steps') or case.get('shuffle_all')):
        # the property quantifies over every later history: a replayed / shrunk history that
        # shows nothing does not clear this call — try the full planned history as well
        o = observe({k: v for k, v in case.items() if k not in ('hist', 'max_steps', 'shuffle_all')})
    fn = case['fn']
    if o['mutated']:
        return {'what': f'{fn} modifies its argument', 'observed': o['mutated'],
                'expected': 'arguments bit-identical after the call',
                'features': {'fn': fn, 'kind': 'mutates-argument', 'cause': mutation_cause(o.get('mutated_all') or [o['mutated']])}}
    if o['interference']:
        # an in-place operation other than an array write that is visible on the other side
        # although the two sides are different objects means a *dictionary was written in place*:
        # impossible for the current write discipline (rebind), so it is reported first
        def cause_of(i):
            if 'object' in o.get('sharing', []):
                return 'same-object'
            if i['op'] == 'fill':
                return 'shared-array'
            return 'shared-descriptor-dict'
        ranked = sorted(o['interference'], key=lambda i: (cause_of(i) != 'shared-descriptor-dict', i['step']))
        i = ranked[0]
        return {'what': f'{fn}: result and argument are not independent ({i["op"]})',
                'observed': i, 'expected': f'{i["changed"]} unchanged by an in-place operation on the {i["on"]}',
                'features': {'fn': fn, 'kind': 'interference', 'op': i['op'], 'on': i['on'],
                             'cause': cause_of(i), 'sharing': '+'.join(o.get('sharing', []))}}
    return None


def features(case, impl):
    if case['fn'] == WRITES:
        return {'fn': WRITES, 'package': 'source-text', 'branches': ['tie:write-sets']}
    o = _obs(case)
    br = ['call:raised' if o['exc'] else 'call:returned'] + ['arg:' + t for t in o.get('tags', [])]
    for s in o['hist']:
        br.append('op:' + s['op'])
        br.append('side:result-op' if s['side'] == 'result' else 'side:source-op')
    if not o['exc']:
        ks = o['kinds']
        for k in ks:
            br.append('result:' + k)
        if not ks:
            br.append('result:scalar-or-other')
    return {'fn': case['fn'], 'package': case['fn'].split('.')[1], 'exc': o['exc'],
            'n_steps': len(o['hist']), 'sharing': '+'.join(o['sharing']) or 'none',
            'branches': sorted(set(br))}


def nontrivial_key(case, impl):
    if case['fn'] == WRITES:
        return [WRITES]
    o = _obs(case)
    if o['exc'] is not None or not o['hist']:
        return None
    return [case['fn'], case['seed'], [(s['side'], s['ci'], s['op']) for s in o['hist']]]


def shrink(case, still_fails):
    """minimal history: a single step (or none, for argument mutation)"""
    if case['fn'] == WRITES:
        return case
    o = observe(case)
    base = {k: v for k, v in case.items() if k not in ('hist', 'max_steps')}
    if o['mutated']:
        c = dict(base, hist=[])
        return c if still_fails(c) else case
    obj = 'object' in o.get('sharing', [])
    # same ranking as the oracle: a dictionary written in place is the most telling step
    for i in sorted(o['interference'], key=lambda i: (obj or i['op'] == 'fill', i['step'])):
        s = o['hist'][i['step']]
        op = {k: v for k, v in s.items() if k not in ('root', 'side', 'ci', 'vals', 'rows', 'desc')}
        c = dict(base, hist=[[s['side'], s['ci'], op]])
        if still_fails(c):
            return c
    return case
