"""C12 — value-returning operations neither modify nor alias their inputs.

The deciding tie for this property is an observation of the *real* Python heap:

  for every public callable of rsatoolbox.{rdm,data,model,inference,util} found by
  introspection (engines/C12_heap.discover) for which an argument factory exists
  (engines/C12_args; the rest is listed as uncovered in the evidence):
    1. fingerprint all arguments, call, fingerprint again            (arguments unchanged)
    2. abstract arguments (= source side) and result (= result side) into the heap model of
       lean/Rsa/Core/Heap.lean: objects, dictionary objects, array *elements* by address
    3. run a history of documented in-place operations (array write, reorder, sort_by,
       append, dataset sort_by) on components of either side, on the real objects and —
       the same history, on the abstracted heap — in the compiled Lean model

  model result  = what the property demands and what the proved model predicts:
                  no argument mutated, `sepB` holds on the observed heap (hypothesis of
                  Rsa.Props.C12.frame), and the content trace of the Lean run
  impl result   = what the real code did: mutated arguments, and the content of every
                  component after every step
  The traces must agree exactly (this validates "exactly the writes the code performs").
  The oracle is independent of the model: it only fingerprints the *other* side around
  every in-place operation.
"""
import contextlib
import io
import random

import numpy as np

from engines import C12_heap as H
from engines import C12_args as A
from engines import C12_writes as W
from engines import C12_share as S
from engines import C12_ctors as K

PROPERTY = 'C12'
LEVEL = 'proof'
P = 'Rsa.Props.C12.'
THEOREMS = [P + n for n in (
    'exec_frame', 'step_frame', 'step_preserves_sep', 'frame', 'frame_history',
    'fresh_producer_sep', 'fresh_producer_safe', 'copy_is_fresh',
    'shared_dict_counterexample', 'rebind_makes_shared_dict_harmless', 'transform_inplace_counterexample',
    'concat_reorders_argument', 'shared_write_interferes',
    'fresh_producer_sep_side', 'ctor_fresh', 'ctor_safe', 'produce_content_fresh', 'ctor_content',
    'label_array_alias_counterexample', 'identity_fast_path_counterexample', 'identity_fast_path_fresh_iff',
    'container_writeback_counterexample', 'container_writeback_fresh_iff')]
RULE = ('one case = (public callable found by introspection, argument seed, history of documented '
        'in-place operations on components of the result and of the arguments); arguments are built '
        'from the repo\'s own types by seeded factories (list- and ndarray-valued pattern / rdm / obs / '
        'channel descriptors of int, float and str dtype that are ascending without repeats, unsorted or '
        'with repeats, rotating with the seed, and — for callables with a grouping-descriptor or `random` '
        'option, found from the signature — each class selected as the grouping descriptor; signed '
        'dissimilarities; and, as extra cases for every callable whose arguments hold numbers, each degenerate-'
        'but-legitimate value class that reaches one of them — measurements with zero row means / zero column '
        'means / unit row norms / all-zero rows / constant rows, handed to the estimators without an averaging '
        'step; RDM vectors with zero mean / sorted / unit norm / unit RMS / non-negative / already ranked; weights '
        'summing to 1, identity precision and sigma_k, unit theta — exact in float64, one degenerate property '
        'per class; and, for every callable with a `noise` parameter, the noise given per cross-validation '
        'fold as list / tuple / dict keyed by fold / 3-d stack / nested list of NOT exactly symmetric float64 '
        'matrices — np.linalg.inv output plus a 1-ulp asymmetry —, of exactly symmetric ones, and of the '
        'library\'s own estimator outputs, with method crossnobis; the identity of every entry of the caller\'s '
        'containers is part of the argument fingerprint); pair sessions apply two producers to one object, chain sessions apply an '
        'evaluation function to the data object before the call; a case is non-trivial when the call '
        'returned and at least one in-place operation was applied to a component of either side; '
        'the pseudo-case @write-sets compares the mutators\' write sets read from the source text '
        'with the Lean compile; distinct = distinct (callable, argument seed, history)')
DISC = 'rebind'            # write discipline of reorder / sort_by / append on the current tree
WRITES = '@write-sets'     # pseudo-case: write sets of the mutators, source text vs Lean `compile`
CTOR_SPECS = '@ctor-specs'  # pseudo-case: attribute provenance of the RDMs constructors, source text vs Lean `ctorFields`
PSEUDO = (WRITES, CTOR_SPECS)
BRANCHES = ['arg:container:0', 'arg:container:1', 'arg:container:2', 'arg:container:many', 'arg:container:bare',
            'arg:form:list', 'arg:form:tuple', 'arg:form:varargs', 'session:pair',
            'arg:stack:1', 'arg:stack:2', 'arg:stack:many', 'arg:remove_mean:true', 'arg:remove_mean:false', 'arg:descriptor:none',
            'arg:nan:none', 'arg:nan:common', 'arg:nan:per-rdm',
            'arg:weights:2d', 'arg:weights:1d', 'arg:weights:name-2d', 'arg:weights:name-1d', 'arg:weights:none',
            'arg:sigma_k:none', 'arg:sigma_k:matrix', 'arg:sigma_k:vector',
            'arg:noise:array', 'arg:theta:array', 'arg:pattern_idx:array',
            # round 4: ndarray-valued descriptors of every order class and dtype, in rotation with lists
            'arg:desc:pattern:array:asc:int', 'arg:desc:pattern:array:asc:float', 'arg:desc:pattern:array:asc:str',
            'arg:desc:pattern:array:unsorted:int', 'arg:desc:pattern:array:unsorted:float',
            'arg:desc:pattern:array:unsorted:str', 'arg:desc:pattern:array:rep:int', 'arg:desc:pattern:array:rep:float',
            'arg:desc:rdm:array:asc:int', 'arg:desc:rdm:array:asc:float', 'arg:desc:rdm:array:asc:str',
            'arg:desc:rdm:array:unsorted:int', 'arg:desc:rdm:array:unsorted:float',
            'arg:desc:rdm:array:rep:int', 'arg:desc:rdm:array:rep:float',
            'arg:desc:obs:array:asc:int', 'arg:desc:obs:array:asc:float', 'arg:desc:obs:array:unsorted:int',
            'arg:desc:obs:array:unsorted:float', 'arg:desc:obs:array:rep:str', 'arg:desc:obs:array:rep:float',
            'arg:desc:channel:array:asc:int', 'arg:desc:channel:array:asc:float', 'arg:desc:channel:array:asc:str',
            'arg:desc:channel:array:unsorted:int', 'arg:desc:channel:array:unsorted:float',
            'arg:desc:channel:array:rep:str', 'arg:desc:channel:array:rep:float',
            'arg:desc:pattern:list:asc:int', 'arg:desc:rdm:list:asc:int', 'arg:desc:obs:list:asc:int',
            'arg:desc:channel:list:asc:int', 'arg:desc:index:array', 'arg:desc:index:list',
            # ... and *selected* as the grouping descriptor of a callable that has such an option
            'arg:sel:pattern:array:asc:int', 'arg:sel:pattern:array:asc:float', 'arg:sel:pattern:array:asc:str',
            'arg:sel:pattern:array:unsorted:int', 'arg:sel:pattern:array:unsorted:float',
            'arg:sel:pattern:array:rep:int', 'arg:sel:pattern:array:rep:float',
            'arg:sel:pattern:list:asc:int', 'arg:sel:pattern:default', 'arg:sel:pattern:array:asc+shuffle',
            'arg:sel:rdm:array:asc:int', 'arg:sel:rdm:array:asc:float', 'arg:sel:rdm:array:asc:str',
            'arg:sel:rdm:array:unsorted:int', 'arg:sel:rdm:array:unsorted:float',
            'arg:sel:rdm:array:rep:int', 'arg:sel:rdm:array:rep:float', 'arg:sel:rdm:list:asc:int', 'arg:sel:rdm:default',
            'arg:random:true', 'arg:random:false', 'arg:random:default', 'session:chain', 'session:repeat',
            'arg:value:array', 'arg:label-arg:array:asc:int', 'arg:label-arg:array:rep:str',
            # round 6: degenerate-but-legitimate value classes (a normalisation step is the identity)
            'arg:values:zero-row-mean', 'arg:values:zero-col-mean', 'arg:values:unit-row-norm', 'arg:values:zero-row',
            'arg:values:const-row', 'arg:values:zero-row-mean+as-is', 'arg:values:zero-col-mean+as-is',
            'arg:values:unit-row-norm+as-is', 'arg:values:zero-row+as-is', 'arg:values:const-row+as-is',
            'arg:values:as-is:none', 'arg:values:as-is:unique',
            'arg:values:rdm:zero-mean', 'arg:values:rdm:sorted', 'arg:values:rdm:unit-norm', 'arg:values:rdm:unit-rms',
            'arg:values:rdm:nonneg', 'arg:values:rdm:already-ranked',
            'arg:values:weights-sum-1', 'arg:values:prec-identity', 'arg:values:sigma-identity',
            'arg:values:theta-unit', 'arg:values:weight-max-1', 'arg:values:method-matched', 'session:again',
            'arg:noise:list-asym', 'arg:noise:tuple-asym', 'arg:noise:dict-asym', 'arg:noise:dict-fold-asym',
            'arg:noise:3d-asym', 'arg:noise:list-sym', 'arg:noise:est-list', 'arg:noise:est-3d',
            'arg:noise:nested-list-asym', 'arg:noise:per-fold:returned', 'arg:noise:per-fold:raised',
            'tie:write-sets', 'tie:ctor-specs', 'tie:ctor:getitem', 'tie:ctor:subset', 'tie:ctor:subsample',
            'tie:ctor:subset_pattern', 'tie:ctor:subsample_pattern', 'tie:ctor:copy', 'tie:ctor:concat',
            'call:returned', 'call:raised', 'side:result-op', 'side:source-op',
            'op:fill', 'op:reorder', 'op:sort_by', 'op:append', 'op:ds_sort_by',
            'result:rdms', 'result:dataset', 'result:array', 'result:scalar-or-other']
ASSUMPTIONS = [
    'the object graph walker (engines/C12_heap.components) sees every mutable numpy array, '
    'descriptor dictionary and RDMs/Dataset instance reachable from arguments and results',
    'memory addresses of array elements identify storage (numpy views); objects are kept alive '
    'during a case so that ids and addresses are not reused']
TRUSTED_EXTRA = ['CPython object identity and numpy view semantics as observed through id(), '
                 '__array_interface__ and strides']

_CALLABLES = None
_OBS = {}      # case key -> observation (shared between run_impl and model_requests)


def callables():
    global _CALLABLES
    if _CALLABLES is None:
        _CALLABLES = H.discover()
    return _CALLABLES


# helpers whose documented contract is to update one designated argument (the *receiver*): they
# are exercised like every other callable, but the receiver is taken out of the source side —
# every other argument must stay unchanged and independent of the result
RECEIVER = {
    'rsatoolbox.util.descriptor_utils.append_descriptor': 'args[0]',
    'rsatoolbox.util.descriptor_utils.dict_to_list': 'args[0]',
    'rsatoolbox.util.file_io.remove_file': 'args[0]',
    'rsatoolbox.util.vis_utils.Weighted_MDS.fit': 'self',
    'rsatoolbox.util.vis_utils.Weighted_MDS.fit_transform': 'self',
}
assert set(RECEIVER) == set(H.INPLACE_BY_CONTRACT)


def producers():
    """callables that are checked; the documented in-place operations are the alphabet instead"""
    return [q for q in sorted(callables()) if q not in H.MUTATORS]


def _without_receiver(q, source):
    r = RECEIVER.get(q)
    if r == 'self':
        return dict(source, self=None)
    if r == 'args[0]':
        return dict(source, args=[None] + list(source['args'][1:]))
    return source


VC_SEEDS = {'quick': 1, 'thorough': 4}
PAIR_CLASSES = ['rsatoolbox.rdm.rdms.RDMs.', 'rsatoolbox.data.dataset.Dataset.',
                'rsatoolbox.data.dataset.TemporalDataset.']


def pair_families(cov):
    """per class: the value-returning methods that have no known finding of their own (accessors
       returning internal storage are recorded already; pairing them would only repeat that)"""
    dirty = {k.split('|')[0] for k in known_keys()}
    fams = []
    for pre in PAIR_CLASSES:
        fam = [q for q in cov if q.startswith(pre) and '.' not in q[len(pre):] and q not in dirty
               and callables()[q][0] == 'method' and not q.endswith('.save')]
        if len(fam) >= 2:
            fams.append(fam)
    return fams


USED = {}      # callable -> value-class hooks its recipe goes through (m / d / dpos / aux)


def value_classes(q):
    """the degenerate value classes that reach an argument of q (C12_args: table of classes)"""
    u = USED.get(q, set())
    out = []
    for vc in A.VCLASSES:
        if vc == A.AUX_VC:
            ok = 'aux' in u
        else:
            ok = (vc in A.M_CLASS and 'm' in u) or (vc in A.D_CLASS and 'd' in u) or \
                (vc in A.D_CLASS and 'dpos' in u and A.D_CLASS[vc] not in ('zero-mean', 'nonneg'))
        if ok:
            out.append(vc)
    return out


def coverage_report():
    cov, unc = [], {}
    for q in producers():
        try:
            USED[q] = set()
            for s0 in (0, 1, 2):        # the hooks a recipe goes through may depend on its rotating options
                A.build_call(q, s0)
                USED[q] |= A.build_call.last_used
            cov.append(q)
        except A.Uncovered as e:
            unc[q] = str(e)
    return cov, unc


def _key(case):
    return (case['fn'], case.get('with'), case.get('pre'), case['seed'], repr(case.get('hist')), case.get('hseed'),
            case.get('max_steps'), case.get('shuffle_all'), case.get('vc'), case.get('again'), case.get('nz'))


def label(case):
    """name of the case's producer (pair cases: both producers)"""
    return case['fn'] + ('&' + case['with'].rsplit('.', 1)[1] if case.get('with') else '')


# ------------------------------------------------------------------ one observation

def _call(case):
    """build fresh arguments and call; returns dict with source / result objects"""
    q = case['fn']
    kind, fn, owner = callables()[q]
    self_obj, args, kwargs = A.build_call(q, case['seed'], case.get('vc'), case.get('nz'))
    _call.tags = list(A.build_call.last_tags)
    full = {'self': self_obj, 'args': args, 'kwargs': kwargs}
    source = _without_receiver(q, full)
    q2 = case.get('with')
    if q2:
        # pair session: a second producer is applied to the *same* receiver object; its result
        # joins the source side, so result 1 is checked against the receiver *and* result 2
        kind2, fn2, owner2 = callables()[q2]
        _, args2, kwargs2 = A.build_call(q2, case['seed'], case.get('vc'))
        source = dict(source, args=list(args) + [None, list(args2), dict(kwargs2)])
    again = bool(case.get('again')) and not q2
    if again:
        # the same callable once more on the *very same* argument objects (a stateful fast path — a
        # module-level memo keyed by identity, "this array is known to be normalised" — only shows
        # from the second call on); result 2 joins the source side like the sibling of a pair session
        source = dict(source, args=list(source['args']) + [None])
    exc = None
    result = None
    # the library draws from numpy's global generator (shuffles, bootstrap samples): the draw
    # sequence is part of the case, so that a replay reproduces the very same call
    np.random.seed((case['seed'] * 1000003 + 17) % (2 ** 32))
    q0 = case.get('pre')
    if q0:
        # chain session: another value-returning operation has been applied to the *same* data
        # object before (it may leave the object in a normalised state — `index` as an ndarray,
        # cached attributes); what it returned is dropped, the object is then the argument of fn
        _pre_call(q0, case['seed'], full, case.get('vc'))
    before = H.fingerprint(source)
    # identity of the entries of the caller's containers (`container[i] is original_i`): a helper
    # that stores normalised copies back into the user's list / dict replaces entries even where the
    # values stay bit-identical
    # (of `source`: the designated receiver of an in-place-by-contract helper is not an argument here)
    ident = H.entry_identities({'args': list(source['args']), 'kwargs': source['kwargs']})
    try:
        with contextlib.redirect_stdout(io.StringIO()):
            result = A.invoke(kind, fn, owner, q, self_obj, args, kwargs)
            if q2:
                source['args'][len(args)] = A.invoke(kind2, fn2, owner2, q2, self_obj, args2, kwargs2)
            if again:
                source['args'][len(args)] = A.invoke(kind, fn, owner, q, self_obj, args, kwargs)
    except Exception as e:  # noqa: BLE001  library exceptions are part of the result
        exc = type(e).__name__
    if (q2 or again) and exc is None:
        sib = source['args'][len(args)]
        source['args'][len(args)] = None
        after = H.fingerprint(source)
        source['args'][len(args)] = sib
    else:
        after = H.fingerprint(source)
    mutated = None if before == after else (H.fp_diff(before, after) or 'changed')
    _call.all_diffs = [] if before == after else H.fp_diffs(before, after)
    idd = H.identity_diffs(ident)
    if idd:
        mutated = mutated or idd[0]
        _call.all_diffs = list(_call.all_diffs) + [d for d in idd if d not in _call.all_diffs]
    return source, result, exc, mutated


def _top_rdms(full):
    """the RDMs / dataset objects passed at top level (self, positional, keyword), in that order"""
    tops = [full.get('self')] + list(full.get('args', [])) + list(full.get('kwargs', {}).values())
    return [x for x in tops if H.kind_of(x)]


def _pre_call(q0, seed, full, vc=0):
    """apply q0 (built from the same seed, so models and options fit) with its first RDMs / dataset
       argument replaced by the first one of `full`; exceptions of q0 are irrelevant here"""
    target = _top_rdms(full)
    if not target:
        return
    kind0, fn0, owner0 = callables()[q0]
    self0, args0, kwargs0 = A.build_call(q0, seed, vc)
    want = H.kind_of(target[0])
    done = False
    if H.kind_of(self0) == want:
        self0, done = target[0], True
    for i, a in enumerate(args0):
        if not done and H.kind_of(a) == want:
            args0[i], done = target[0], True
    for k, a in list(kwargs0.items()):
        if not done and H.kind_of(a) == want:
            kwargs0[k], done = target[0], True
    if not done:
        return
    try:
        with contextlib.redirect_stdout(io.StringIO()):
            A.invoke(kind0, fn0, owner0, q0, self0, args0, kwargs0)
    except Exception:  # noqa: BLE001
        pass


def chain_families(cov):
    """(targets, preludes) of the chain sessions, by introspection: every exercised function of
       rsatoolbox.inference that receives an RDMs object at top level; preludes are those among
       them that evaluate models on data (`models` first parameter)"""
    targets, pres = [], []
    for q in cov:
        if not q.startswith('rsatoolbox.inference.') or callables()[q][0] != 'function':
            continue
        try:
            self_obj, args, kwargs = A.build_call(q, 1)
        except Exception:  # noqa: BLE001
            continue
        if not _top_rdms({'self': self_obj, 'args': args, 'kwargs': kwargs}):
            continue
        targets.append(q)
        if A.params_of(q)[:1] == ['models']:
            pres.append(q)
    return targets, pres


def _plan_history(case, sides, rng, cells=None):
    """history = list of [side, component index, op description]; array writes first (they must
       hit the arrays that exist right after the call), then the other operations shuffled"""
    if case.get('hist') is not None:
        return [list(s) for s in case['hist']]
    fills, rest, pfills, prest = [], [], [], []
    for sname in ('result', 'source'):
        roots, comps = sides[sname]
        other = H.reach_side(cells, sides['source' if sname == 'result' else 'result'][0]) if cells else set()
        for ci, (path, kind, o) in enumerate(comps):
            sh = H.shared_fields(cells, roots[ci], other) if cells else set()
            for op in H.applicable_ops(kind, o, rng):
                # operations whose footprint is visible from the other side go first
                hot = '<object>' in sh or \
                    (op['op'] == 'fill' and op['field'] in sh) or \
                    (op['op'] in ('reorder', 'sort_by') and 'pattern_descriptors' in sh) or \
                    (op['op'] == 'append' and 'rdm_descriptors' in sh)
                if op['op'] == 'fill':
                    (pfills if hot else fills).append([sname, ci, op])
                else:
                    (prest if hot else rest).append([sname, ci, op])
    for l in (fills, rest, pfills, prest):
        rng.shuffle(l)
    fills = pfills + fills
    rest = prest + rest
    limit = case.get('max_steps', 24)
    if len(fills) > limit // 2:
        fills = fills[:max(limit // 2, len(pfills))]
    if case.get('shuffle_all'):
        both = fills + rest
        rng.shuffle(both)
        return both[:limit]
    return (fills + rest)[:limit]


def observe(case):
    """run one case on the real code; everything the engine needs"""
    H.quiet()
    source, result, exc, mutated = _call(case)
    obs = {'exc': exc, 'tags': list(_call.tags), 'mutated': mutated, 'mutated_all': list(_call.all_diffs), 'steps': [], 'interference': [], 'kinds': [],
           'heap': None, 'trace': None, 'hist': [], 'sharing': [], 'share': []}
    if exc is not None:
        return obs
    ab = H.Abstraction()
    sides = {'source': ab.side(source), 'result': ab.side(result)}
    obs['kinds'] = sorted({k for _, k, _ in sides['result'][1] if k != 'bag'} |
                          ({'array'} if any(k == 'array' for _, k, _ in sides['result'][1][-1][2]) else set()))
    if ab.too_big:
        obs['too_big'] = True
    obs['sharing'] = _sharing(ab.cells, sides)
    obs['share'] = static_sharing(source, result)
    rng = random.Random(case.get('hseed', case['seed']) * 7919 + 13)
    hist = _plan_history(case, sides, rng, ab.cells)

    def dump_all():
        out = []
        for sname in ('source', 'result'):
            for (path, kind, o) in sides[sname][1]:
                out.append(H.dump_component(kind, o))
        return out

    heap = ab.heap_json()
    heap['src'] = sides['source'][0]
    heap['res'] = sides['result'][0]
    if not case.get('with') and not case.get('again'):
        req = K.request(case['fn'], source, result, sides, heap)
        if req is not None:
            # the constructor as a heap program: content predicted from the source heap, sharing derived
            obs['ctor'] = {'req': req, 'real': H.dump_component('rdms', result),
                           'share': [r[:3] for r in obs['share']]}
    trace = [dump_all()]
    done = []
    fps = {'source': H.fingerprint(source), 'result': H.fingerprint(result)}
    for sname, ci, op in hist:
        roots, comps = sides[sname]
        if ci >= len(comps):
            continue
        path, kind, o = comps[ci]
        other = 'source' if sname == 'result' else 'result'
        try:
            full = H.apply_op(kind, o, op)
        except Exception as e:  # noqa: BLE001  an in-place op rejected by the library: skip the step
            obs['steps'].append({'side': sname, 'op': op['op'], 'skipped': type(e).__name__})
            continue
        if full.get('readonly'):
            continue
        new_other = H.fingerprint(source if other == 'source' else result)
        if new_other != fps[other]:
            obs['interference'].append({
                'step': len(done), 'on': sname, 'component': path or '<top>', 'op': op['op'],
                'changed': other, 'where': H.fp_diff(fps[other], new_other) or 'changed'})
        fps[other] = new_other
        fps[sname] = H.fingerprint(source if sname == 'source' else result)
        done.append({'root': roots[ci], 'side': sname, 'ci': ci, **full})
        trace.append(dump_all())
    obs['hist'] = done
    obs['heap'] = heap
    obs['trace'] = trace
    return obs


def _sharing(cells, sides):
    """which writable attributes of either side are readable from the other (classification
       only; the verdicts come from the Lean `sepB` and from the fingerprints)"""
    out = set()
    for sname in ('source', 'result'):
        roots, comps = sides[sname]
        other = H.reach_side(cells, sides['source' if sname == 'result' else 'result'][0])
        for ci, (path, kind, o) in enumerate(comps):
            for f in H.shared_fields(cells, roots[ci], other):
                if f == '<object>':
                    out.add('object')
                elif kind == 'rdms' and f in ('pattern_descriptors', 'rdm_descriptors'):
                    out.add('dict')
                elif '[' not in f and f in ('dissimilarities', 'measurements') or \
                        (kind == 'bag' and f.startswith('a')):
                    out.add('array')
    return sorted(out)


def static_sharing(source, result):
    """[[argument path, result path, cause, writable]] — the static sharing graph of the call
       (C12_share); `writable`: numpy accepts a write through at least one of the two sides"""
    out = []
    for ap, rp, cause in S.sharing(source, result):
        wr = True
        if cause in S.OBSERVABLE:
            wr = False
            for root, pth in ((result, rp), (source, ap)):
                for node in S._find(root, pth):
                    a = node if isinstance(node, np.ndarray) and node.dtype != object else S._first_array(node)
                    if a is not None and a.flags.writeable:
                        wr = True
        out.append([ap, rp, cause, wr])
    return out


def mutation_cause(diffs):
    """the only argument change with its own class: the library-managed `index` entry written
       into a descriptor dictionary the *caller* passed (RDMs.__init__) — and only if that is
       *everything* that changed; any other change of an argument is a plain mutation"""
    import re
    pat = re.compile(r"\['(rdm|pattern)_descriptors'\]\['index'\] added$")
    if diffs and all(pat.search(str(d)) for d in diffs):
        return 'writes-caller-descriptor-dict'
    return 'mutates-argument'


def sharing_cause(sharing):
    """strongest sharing class that a documented in-place operation can reach.  Since reorder /
       sort_by / append bind new dictionaries (write discipline `rebind`), a shared descriptor
       dictionary ('dict') is not written by any of them and is only reported as information"""
    if 'object' in sharing:
        return 'same-object'
    if 'array' in sharing:
        return 'shared-array'
    return 'none'


def _obs(case):
    k = _key(case)
    if k not in _OBS:
        if len(_OBS) > 20000:
            _OBS.clear()
        _OBS[k] = observe(case)
    return _OBS[k]


# ------------------------------------------------------------------ engine interface

def generate(rng, tier):
    cov, unc = coverage_report()
    note = 'callables found by introspection but not exercised (no factory / excluded): ' + \
        '; '.join(f'{q.replace("rsatoolbox.", "")} [{why}]' for q, why in sorted(unc.items()))
    if not any(a.startswith('callables found by introspection') for a in ASSUMPTIONS):
        ASSUMPTIONS.append(note)
        ASSUMPTIONS.append(f'{len(cov)} public callables exercised; documented in-place operations '
                           f'(history alphabet, not producers): ' + ', '.join(sorted(H.MUTATORS)))
    yield {'fn': WRITES, 'seed': 0}
    yield {'fn': CTOR_SPECS, 'seed': 0}
    n_sets = 6 if tier == 'quick' else 24
    for q in cov:
        base = rng.randrange(1, 10 ** 6)
        # callables with a grouping-descriptor / `random` option: 12 consecutive seeds = every
        # (list | ndarray) x (int | float | str) x (ascending selected, random=True | default /
        # unsorted / repeats selected, random=False / absent) combination once
        for k in range(max(n_sets, 12) if A.has_desc_options(q) else n_sets):
            # consecutive seeds: the factories rotate their discrete choices with the seed
            yield {'fn': q, 'seed': base + k, 'hseed': rng.randrange(10 ** 6)}
    # degenerate-but-legitimate value classes (round 6): every callable whose arguments hold numbers
    # gets every class that reaches one of them — data on which a normalisation step of the
    # library is exactly the identity, so that a "nothing to do: hand the argument on" fast path is
    # taken; two consecutive seeds (list / ndarray descriptors, both "as it is" descriptor options)
    dirty = {k.split('|')[0] for k in known_keys()}
    for q in cov:
        for vc in value_classes(q):
            base = rng.randrange(1, 10 ** 6)
            # estimators with a `descriptor` option: both "as it is" forms (none / all values distinct)
            both = vc in A.M_CLASS and 'm' in USED[q] and 'descriptor' in A.params_of(q)
            for k in range(max(VC_SEEDS[tier], 2 if both else 1)):
                c = {'fn': q, 'seed': base + k, 'hseed': rng.randrange(10 ** 6), 'vc': vc, 'max_steps': 6}
                if q not in dirty:
                    # no known finding of its own: called twice on the same objects (stateful fast paths)
                    c['again'] = True
                yield c
    # pair sessions: two different producers applied to the same object; result 1 is checked
    # against the object *and* against result 2 (siblings), in both directions
    for fam in pair_families(cov):
        n = len(fam)
        for i, q1 in enumerate(fam):
            partners = range(i + 1, n) if tier == 'thorough' else \
                sorted({(i + 1 + rng.randrange(n - 1)) % n for _ in range(2)} - {i})
            for j in partners:
                base = rng.randrange(1, 10 ** 6)
                for k in range(2 if tier == 'quick' else 6):
                    yield {'fn': q1, 'with': fam[j], 'seed': base + k, 'hseed': rng.randrange(10 ** 6)}
            # the same producer twice with equal arguments (a memoised result would be handed out twice)
            base = rng.randrange(1, 10 ** 6)
            for k in range(1 if tier == 'quick' else 6):
                yield {'fn': q1, 'with': q1, 'seed': base + k, 'hseed': rng.randrange(10 ** 6)}
    # chain sessions: fn is applied to a data object that an evaluation function has seen before
    targets, pres = chain_families(cov)
    for i, q in enumerate(targets):
        chosen = pres if tier == 'thorough' else \
            [pres[(i + j + rng.randrange(len(pres))) % len(pres)] for j in range(2)] if pres else []
        for q0 in dict.fromkeys(chosen):
            base = rng.randrange(1, 10 ** 6)
            for k in range(2 if tier == 'quick' else 6):
                yield {'fn': q, 'pre': q0, 'seed': base + k, 'hseed': rng.randrange(10 ** 6)}
    if tier == 'thorough':
        # short histories in a *random* order (no "writes first" discipline)
        for q in cov:
            for _ in range(4):
                yield {'fn': q, 'seed': rng.randrange(1, 10 ** 6), 'hseed': rng.randrange(10 ** 6),
                       'max_steps': 3, 'shuffle_all': True}
    # per-fold noise containers (round 7; last, so that the streams above are what they were): every
    # callable with a `noise` parameter (signature) x every container form of NOT exactly symmetric
    # precision matrices, read per fold (method crossnobis); a helper that writes normalised entries
    # back into the caller's list / dict / 3-d stack shows in the bit-level + identity fingerprint
    for q in A.noise_callables(cov):
        base = rng.randrange(1, 10 ** 6)
        for i, nz in enumerate(A.NOISE_FORMS):
            for k in range(1 if tier == 'quick' else 4):
                c = {'fn': q, 'seed': base + i + k, 'hseed': rng.randrange(10 ** 6), 'nz': nz, 'max_steps': 6}
                if k % 2:
                    c['again'] = True
                yield c


def run_impl(case):
    if case['fn'] == WRITES:
        return {'writes': W.source_write_sets()}
    if case['fn'] == CTOR_SPECS:
        return {'specs': K.source_specs()}
    o = _obs(case)
    if o['exc'] is not None:
        return {'exc': o['exc'], 'mutated': o['mutated']}
    out = {'mutated': o['mutated'], 'trace': o['trace'], 'n_steps': len(o['hist']),
           'share': [r[:3] for r in o['share'] if r[2] in S.OBSERVABLE and r[3]]}
    if o.get('ctor'):
        out['ctor_real'] = o['ctor']['real']
        out['ctor_share'] = o['ctor']['share']
    return out


def model_requests(case):
    if case['fn'] == WRITES:
        return [{'op': 'c12.writes', 'disc': DISC}]
    if case['fn'] == CTOR_SPECS:
        return [{'op': 'c12.ctor_specs'}]
    o = _obs(case)
    if o['exc'] is not None or o['heap'] is None:
        return []
    h = o['heap']
    reqs = [{'op': 'c12.run', 'disc': DISC, 'cells': h['cells'], 'next': h['next'], 'src': h['src'], 'res': h['res'],
             'hist': [{k: v for k, v in s.items() if k not in ('side', 'ci')} for s in o['hist']]}]
    if o.get('ctor'):
        reqs.append(o['ctor']['req'])
    return reqs


def model_result(case, answers):
    if case['fn'] == WRITES:
        a = answers[0]
        if isinstance(a, dict) and 'model_error' in a:
            return a
        m = {k: sorted(set(v)) for k, v in a.items() if k != 'fill'}
        m['tds_sort_by'] = m['ds_sort_by']
        return {'writes': m}
    if case['fn'] == CTOR_SPECS:
        a = answers[0]
        return a if isinstance(a, dict) and 'model_error' in a else {'specs': a}
    if not answers:
        return {'mutated': None, 'share': []}
    a = answers[0]
    if isinstance(a, dict) and 'model_error' in a:
        return a
    # `share`: what `Producer.fresh` (theorem fresh_producer_sep) demands — no node of the result
    # is, or overlaps, a node of the arguments
    out = {'mutated': None, 'sep': a['sep'], 'shared': a['shared'], 'share': [],
           'trace': [[H.canon_dump(d) for d in t] for t in a['trace']]}
    if len(answers) > 1:
        if isinstance(answers[1], dict) and 'model_error' in answers[1]:
            return answers[1]
        out['ctor'] = answers[1]
    return out


def compare(case, impl, model):
    if 'model_error' in model:
        return f'model error {model["model_error"]}'
    if case['fn'] == WRITES:
        for k in sorted(model['writes']):
            if impl['writes'].get(k) != model['writes'][k]:
                return (f'in-place operation {k}: the source text writes {impl["writes"].get(k)}, '
                        f'the Lean model (compile) writes {model["writes"][k]}')
        return None
    if case['fn'] == CTOR_SPECS:
        return K.compare_specs(impl['specs'], model['specs'])
    fn = label(case)
    if impl.get('mutated'):
        return f'{fn} changed its argument: {impl["mutated"]}'
    if 'exc' in impl:
        return None
    if impl.get('share') != model.get('share'):
        return (f'{fn}: the result is / overlaps storage of an argument (argument path, result path, '
                f'cause): {impl["share"][:4]}')
    if not model['sep']:
        return (f'{fn}: result and arguments share cells that a documented in-place operation '
                f'writes: {_shared_names(case, model["shared"])}')
    if 'ctor' in model:
        d = K.compare(case['fn'], model['ctor'], impl['ctor_real'], impl['ctor_share'])
        if d:
            return d
    if impl['trace'] != model['trace']:
        for k, (a, b) in enumerate(zip(impl['trace'], model['trace'])):
            if a != b:
                return f'{fn}: heap model and real objects differ after step {k} ({_first(a, b)})'
        return f'{fn}: trace lengths differ'
    return None


def _first(a, b):
    for i, (x, y) in enumerate(zip(a, b)):
        if x != y:
            for fx, fy in zip(x, y):
                if fx != fy:
                    return f'component {i} attribute {fx[0]}: real {str(fx[2:])[:120]} model {str(fy[2:])[:120]}'
            return f'component {i}: attribute lists differ'
    return 'lengths differ'


def _shared_names(case, shared):
    o = _obs(case)
    names = []
    loc2name = {}
    if o.get('heap'):
        pass
    for side, root, field in shared:
        names.append(f'{side}:{field}')
    return sorted(set(names))




_KNOWN_KEYS = None


def known_keys():
    """share keys of the known-finding records (ROOT/known_findings.jsonl).  Used only to *order*
       the oracle's report — a record that no known finding names comes first, so that a new
       sharing path in a callable that already has a known finding is what run_check gets to
       judge; the verdict known / fails stays with run_check"""
    global _KNOWN_KEYS
    if _KNOWN_KEYS is None:
        import json
        import os
        _KNOWN_KEYS = set()
        path = os.path.join(os.path.dirname(os.path.abspath(__file__)), '..', '..', 'known_findings.jsonl')
        if os.path.exists(path):
            for l in open(path):
                l = l.strip()
                if l and not l.startswith('#'):
                    r = json.loads(l)
                    if r.get('property') == PROPERTY and r.get('kind') == 'known':
                        k = r.get('match', {}).get('share_key', [])
                        _KNOWN_KEYS.update(k if isinstance(k, list) else [k])
    return _KNOWN_KEYS


def mutation_records(fn, diffs):
    """one record per changed path of the arguments: [path, '-', cause]; the argument position is
       kept, positions inside containers are normalised to [*] (as in C12_share)"""
    import re
    pat = re.compile(r"\['(rdm|pattern)_descriptors'\]\['index'\] added$")
    out = []
    for d in diffs:
        d = str(d)
        cause = 'writes-caller-descriptor-dict' if pat.search(d) else 'mutates-argument'
        pth = d.split(' array content')[0]
        m = re.match(r"(\['args'\]\[\d+\])(.*)$", pth)
        head, tail = (m.group(1), m.group(2)) if m else ('', pth)
        pth = head + re.sub(r'\[\d+\]', '[*]', tail)
        # same spelling as the static sharing graph: self.x / args[0].x / kw['name'].x
        pth = re.sub(r"^\['self'\]", 'self', pth)
        pth = re.sub(r"^\['args'\]\[(\d+)\]", r'args[\1]', pth)
        pth = re.sub(r"^\['kwargs'\]\[('[^']*')\]", r'kw[\1]', pth)
        rec = [pth, '-', cause]
        if rec not in out:
            out.append(rec)
    return out


def _unknown_first(fn, recs):
    kk = known_keys()
    return sorted(recs, key=lambda r: S.key(fn, r) in kk)


def oracle(case):
    """direct transcription of the property on the real code:
       (1) the call leaves every argument bit-identical (library-managed `index` of RDMs excluded);
       (2) for every node of the result that is, or overlaps the memory of, a node of an argument
           (found recursively through lists / tuples / dicts / Result / model objects): an array
           write through one side must not be visible through the other;
       (3) no documented in-place operation of the history on one side changes anything readable
           from the other side.
       The reported violation carries `share_key` = callable | argument path | result path | cause."""
    if case['fn'] in PSEUDO:
        return None     # a changed write set / constructor spec is not itself a violation; run_check then searches
    o = _obs(case)      # calls are deterministic (numpy's generator is seeded per case): one observation per case
    fn = label(case)
    ctx = f' (after {case["pre"].rsplit(".", 1)[1]} was applied to the same object)' if case.get('pre') else ''
    if o['mutated']:
        recs = _unknown_first(fn, mutation_records(fn, o.get('mutated_all') or [o['mutated']]))
        r = recs[0]
        return {'what': f'{fn} modifies its argument{ctx}', 'observed': r[0],
                'expected': 'arguments bit-identical after the call',
                'features': {'fn': fn, 'kind': 'mutates-argument', 'cause': r[2], 'share_key': S.key(fn, r),
                             'all_changed': [x[0] for x in recs][:8]}}
    recs = _unknown_first(fn, [r[:3] for r in o['share'] if r[2] in S.OBSERVABLE])
    for r in recs[:6]:
        H.quiet()
        source, result, exc, _ = _call(case)     # fresh objects: confirm destroys them
        if exc is not None:
            break
        seen = S.confirm(source, result, r, H.fingerprint)
        if seen:
            return {'what': f'{fn}: result and argument are not independent ({r[2]})',
                    'observed': seen, 'expected': 'an array write through one side is not visible through the other',
                    'features': {'fn': fn, 'kind': 'interference', 'op': 'fill', 'on': seen['on'], 'cause': r[2],
                                 'share_key': S.key(fn, r),
                                 'all_shared': ['|'.join(x) for x in recs][:12]}}
    if not o['interference'] and \
            (case.get('hist') is not None or case.get('max_steps') or case.get('shuffle_all')):
        # the property quantifies over every later history: a replayed / shrunk history that
        # shows nothing does not clear this call — try the full planned history as well
        o = observe({k: v for k, v in case.items() if k not in ('hist', 'max_steps', 'shuffle_all')})
    if o['interference']:
        # an in-place operation other than an array write that is visible on the other side
        # although the two sides are different objects means a *dictionary / list was written in
        # place*: impossible for the current write discipline (rebind), so it is reported first
        def cause_of(i):
            if 'object' in o.get('sharing', []):
                return 'same-object'
            if i['op'] == 'fill':
                return 'shared-array'
            return 'shared-descriptor-dict'
        ranked = sorted(o['interference'], key=lambda i: (cause_of(i) != 'shared-descriptor-dict', i['step']))
        i = ranked[0]
        comp, where = i['component'], str(i['where']).split(' array content')[0].replace(' changed', '')
        rec = [where, comp, cause_of(i)] if i['on'] == 'result' else [comp, where, cause_of(i)]
        return {'what': f'{fn}: result and argument are not independent ({i["op"]})',
                'observed': i, 'expected': f'{i["changed"]} unchanged by an in-place operation on the {i["on"]}',
                'features': {'fn': fn, 'kind': 'interference', 'op': i['op'], 'on': i['on'],
                             'cause': cause_of(i), 'sharing': '+'.join(o.get('sharing', [])),
                             'share_key': S.key(fn, rec)}}
    return None


def features(case, impl):
    if case['fn'] in PSEUDO:
        return {'fn': case['fn'], 'package': 'source-text',
                'branches': ['tie:write-sets' if case['fn'] == WRITES else 'tie:ctor-specs']}
    o = _obs(case)
    br = ['call:raised' if o['exc'] else 'call:returned'] + ['arg:' + t for t in o.get('tags', [])]
    for s in o['hist']:
        br.append('op:' + s['op'])
        br.append('side:result-op' if s['side'] == 'result' else 'side:source-op')
    if not o['exc']:
        ks = o['kinds']
        for k in ks:
            br.append('result:' + k)
        if not ks:
            br.append('result:scalar-or-other')
    if case.get('with'):
        br.append('session:repeat' if case['with'] == case['fn'] else 'session:pair')
    if case.get('pre'):
        br.append('session:chain')
    if case.get('again'):
        br.append('session:again')
    if case.get('nz'):
        br.append('arg:noise:per-fold:' + ('raised' if o['exc'] else 'returned'))
    if o.get('ctor'):
        br.append('tie:ctor:' + o['ctor']['req']['ctor'])
    for r in o['share']:
        br.append('share:' + r[2])
    return {'fn': label(case), 'package': case['fn'].split('.')[1], 'exc': o['exc'],
            'n_steps': len(o['hist']), 'sharing': '+'.join(o['sharing']) or 'none',
            'share': '+'.join(sorted({r[2] for r in o['share']})) or 'none',
            'branches': sorted(set(br))}


def nontrivial_key(case, impl):
    if case['fn'] in PSEUDO:
        return [case['fn']]
    o = _obs(case)
    if o['exc'] is not None or not o['hist']:
        return None
    return [label(case), case.get('pre'), case['seed'], [(s['side'], s['ci'], s['op']) for s in o['hist']]]


def shrink(case, still_fails):
    """minimal history: a single step (or none, for argument mutation)"""
    if case['fn'] in PSEUDO:
        return case
    o = observe(case)
    base = {k: v for k, v in case.items() if k not in ('hist', 'max_steps')}
    c = dict(base, hist=[])
    if still_fails(c):
        return c          # argument mutation, identity or overlapping storage: no history needed
    obj = 'object' in o.get('sharing', [])
    # same ranking as the oracle: a dictionary written in place is the most telling step
    for i in sorted(o['interference'], key=lambda i: (obj or i['op'] == 'fill', i['step'])):
        s = o['hist'][i['step']]
        op = {k: v for k, v in s.items() if k not in ('root', 'side', 'ci', 'vals', 'rows', 'desc')}
        c = dict(base, hist=[[s['side'], s['ci'], op]])
        if still_fails(c):
            return c
    return case
