"""C16 — saving and loading returns an equal object for every type and file format.

A case is a *session*: a few objects (RDMs / Dataset / TemporalDataset / one of the five
model classes / Result), each built by the real constructors (and evaluators) from an explicit
spec and then sent through a random history of C10/C11 operations, followed by a list of
`save` / `load` operations on paths and open handles.  The real code runs the session on real
files; the Lean model (`Rsa.Core.Store`, driver op `c16.session`) runs it on the attribute
dictionaries of the same objects; outcomes are compared operation by operation in canonical
form (sorted keys, element-wise values, container kind and dtype erased).
"""
import copy
import math

import numpy as np

from engines import C16_lib as L

PROPERTY = 'C16'
LEVEL = 'proof'
P = 'Rsa.Props.C16.'
THEOREMS = [P + n for n in (
    'codec_roundtrip', 'ascii_rejects', 'decode_encode', 'decode_encode_ascii',
    'encode_ok_iff_storable',
    'rdms_fromDict_toDict', 'dataset_fromDict_toDict', 'model_fromDict_toDict',
    'result_fromDict_toDict',
    'roundtrip', 'roundtrip_hdf5', 'roundtrip_pkl', 'result_tests_equal',
    'model_predictions_equal', 'roundtrip_after_history',
    'index_lookup_order_free', 'index_lookup_numeric',
    'save_pure', 'no_overwrite_guard', 'overwrite_exact', 'fresh_save_exact',
    'pinned_reload_changes_variance',
    # round 3: the code as written (generated decision structures) is the specification
    'write_dispatch_table', 'list_fallback_table', 'encodeC_eq_encode', 'saveC_eq_save',
    'save_defaults', 'autodetect_table', 'autodetect_agrees',
    # lists that are no arrays; second saves into a used handle
    'list_stays_list', 'dict_to_list_spec', 'second_save_refused', 'save_twice_keeps_first',
    'pkl_append_keeps_first',
    # objects after arbitrary histories over the operation alphabets of C10 / C11
    'roundtrip_after_c10_history', 'roundtrip_after_c11_history',
    # round 4 / 4b: a path handed over as pathlib.Path / os.PathLike / bytes (covered by the guard like a str)
    'no_overwrite_guard_pathlike', 'existing_path_never_replaced', 'pkl_path_exact',
    'autodetect_str_only',
    # round 6: falsy-but-valid field values; the field accesses of *_from_dict as coded
    'from_dict_fields_table', 'fromDictC_eq_fromDict', 'falsy_fields_roundtrip',
    # round 7: strings are compared character for character
    'strings_exact')]
RULE = ('one PRNG; a case = 1-3 objects of the five kinds (RDMs, Dataset / DatasetBase / TemporalDataset, 5 model '
        'classes, Result from constructor or 5 evaluators; sizes 1-13, values incl. NaN/inf/-0; descriptor values: '
        'str / unicode / empty / long str, int / float / bool / None, numpy scalars and small dtypes, list / tuple / '
        '0-d to 2-d arrays / empty arrays / string arrays / object arrays, lists that are no arrays (ragged, mixed '
        'with None) in every descriptor position, dicts nested two deep, absent measure; falsy-but-valid values in '
        'every field of every kind: dof 0 (eval_fixed on one RDM; hand-built with / without variances), noise '
        'ceiling 0.0, zero evaluations / variances / data, n_rdm / n_pattern None or 0, empty-string names / '
        'methods / measures, descriptor values 0 / 0.0 / -0.0 / False / "" / [] / () / {} / array(0) / numpy zero '
        'scalars, all-falsy per-element descriptors, models without RDMs or parameters; string edge values in every '
        'string-bearing field (measure, model name, method, cv_method, scalar / list / tuple / 1-d and 2-d array / '
        'object-array descriptor values, entries of lists that are no arrays, nested dicts, descriptor names): '
        'leading / trailing blank, tab, newline, CR, NBSP and other Unicode spaces, all-blank, empty, entries '
        'differing only in trailing white space, NFC / NFD pairs, control characters other than NUL, literal '
        'look-alikes, 260-15000 characters also inside fixed-width arrays) after 0-3 structural '
        'operations, then 2-8 save/load operations (hdf5|pkl or save\'s defaults, path with 19 name endings | '
        'named handle | memory handle, overwrite on/off, fresh|existing, second saves into a used handle, '
        'load with / without file_type; every path handed over, per operation, as str | pathlib.Path | another '
        'os.PathLike object | bytes, also the same file as str in one call and as Path in the next; after every '
        'save on a path the file is read back with h5py / pickle and compared with what it held before). Non-trivial: at least one successful load that is compared; '
        'distinct = distinct (object specs, operation list)')
BRANCHES = ['kind:rdms', 'kind:dataset', 'kind:temporal', 'kind:model', 'kind:result',
            'ft:hdf5', 'ft:pkl', 'target:path', 'target:named', 'target:mem',
            'save:fresh', 'save:existing+overwrite', 'save:existing-overwrite',
            'guard:hdf5-path-exists', 'load:autodetect', 'load:error',
            'desc:unicode-array', 'desc:unicode-str', 'desc:matrix', 'desc:none', 'desc:tuple',
            'desc:hlist', 'desc:hlist>=11', 'desc:nlist', 'desc:nlist:rdms', 'desc:nlist:dataset',
            'desc:nlist:model', 'desc:nlist:result', 'desc:list-in-object-descriptors',
            'desc:npscalar', 'desc:small-dtype', 'desc:object-array', 'desc:object-array-none', 'desc:empty', 'desc:long-str', 'desc:nested2',
            'kind:datasetbase', 'result:fitter', 'save:default-args', 'name:hdf5-ending', 'name:unrecognised', 'name:misleading',
            'handle:second-save-hdf5', 'handle:second-save-pkl',
            'desc:nested', 'value:nan', 'value:inf', 'measure:absent', 'history',
            'result:evaluator', 'result:ctor', 'result:postset', 'result:variances-none',
            'result:models>=11',
            'model:Model', 'model:ModelFixed', 'model:ModelSelect', 'model:ModelWeighted',
            'model:ModelInterpolate',
            # round 4: path targets that are no str
            'via:Path', 'via:PathLike', 'via:bytes', 'via:mixed', 'via:nonstr:load', 'via:nonstr:autodetect',
            'via:nonstr:hdf5', 'via:nonstr:pkl', 'via:nonstr:fresh', 'via:nonstr:existing+overwrite',
            'via:nonstr:existing-overwrite', 'via:Path:existing-overwrite', 'via:PathLike:existing-overwrite',
            'via:bytes:existing-overwrite', 'via:nonstr:existing-other-kind', 'load:missing-then-save']
BRANCHES += ['via:nonstr:fresh:' + k for k in ('rdms', 'dataset', 'model', 'result')] \
    + ['via:nonstr:existing-overwrite:' + k for k in ('rdms', 'dataset', 'model', 'result')]
# round 6: falsy-but-valid field values (what `x or default` / `if x:` would replace)
FALSY_TAGS = ['falsy:dof0', 'falsy:dof0:eval', 'falsy:dof0:variances', 'falsy:dof0:hdf5', 'falsy:dof0:pkl',
              'falsy:nc0', 'falsy:evals0', 'falsy:variances0', 'falsy:n-none', 'falsy:n-zero',
              'falsy:empty-str', 'falsy:empty-name', 'falsy:empty-method', 'falsy:measure-empty',
              'falsy:measure-none', 'falsy:zero-descriptor', 'falsy:false-descriptor',
              'falsy:empty-list-descriptor', 'falsy:none-descriptor', 'falsy:zero-elem-descriptor',
              'falsy:empty-str-elem-descriptor', 'falsy:model-noparams', 'falsy:model-no-rdm', 'falsy:zero-data',
              'falsy:kind:rdms', 'falsy:kind:dataset', 'falsy:kind:temporal', 'falsy:kind:model',
              'falsy:kind:result']
BRANCHES += FALSY_TAGS
# round 7: string edge values in every string-bearing field (what a strip / rstrip / normalisation /
# padding removal on the way to or from the file would change); STR_TAGS is defined beside `_str_tags`
ASSUMPTIONS = [
    'strings contain no NUL character (h5py rejects them in attributes, numpy strips trailing NULs in fixed-width '
    'arrays) and no lone surrogate (not encodable as UTF-8); every other character, white space and control '
    'characters included, must come back exactly; integers fit int64; an array-like list does not mix bare numbers with strings (numpy would stringify the '
    'numbers); values are not bytes, complex, datetime or sets',
    'dictionary keys are non-empty strings without "/" (h5py makes nested groups of a/b), other than ".", and no '
    'descriptor is called "rsatoolbox_list" (the marker of a list group) or "rsatoolbox_version"',
    'reading back an open handle means reading the file from its start (the adaptor seeks to 0)',
    'an RDMs object has at least one condition (with none left, the vector form is the same as for one '
    'condition and the constructor cannot recover n_cond = 0)',
    'a model built on an RDMs object holds at least one RDM (Model.to_dict tests the truth value of '
    'rdm_obj, i.e. len(rdms) > 0; an empty model is saved without its RDMs)',
    'file_type is "hdf5" or "pkl" (save() with any other string writes nothing and raises nothing)',
    'a path target is a str or a pathlib.Path (what util.file_io.remove_file documents) or, for HDF5, any '
    'os.PathLike; a bytes path is something only h5py accepts: it is generated for HDF5 saves / loads without '
    'overwrite-on-existing and judged for "an existing file is never replaced or changed" and "what was saved '
    'reads back"; load_* without file_type recognises names of str targets only (as coded)',
    'second saves into a used open handle without overwrite (outside the property; the model states what h5py / '
    'pickle do) are generated for sessions of plain objects only, see gen_case',
]
TRUSTED_EXTRA = [
    'h5py: a group is a finite map from names to datasets/groups plus string attributes; what '
    'is written is what is read; File(path, "a") creates a missing file and opens an existing one without '
    'touching it; creating a dataset / group whose name is taken raises and writes nothing (what refuses a '
    'second save into a used open handle; paths of every kind are refused by the ValueError guard)',
    'pickle: load(dump(d)) == d for dictionaries of str / numbers / numpy arrays / lists',
    'CPython str.encode("utf-8") / bytes.decode("utf-8") are inverse (model: String.toUTF8 / fromUTF8?)',
    'listing order of dictionary keys / HDF5 members is unobservable',
]

# ----------------------------------------------------------------------------- generator

ASCII = ['a', 'b1', 'cond_x', 'x y', 'V1', 'left', 'z9', '']
UNI = ['Ünï', '日本', 'ßeta', 'naïve', 'смех', 'α']
KEYS = ['subj', 'sess', 'roi', 'cond', 'grp', 'w', 'noise', 'info', 'lab', 'k7']
SPECIAL = ['nan', 'inf', '-inf']


def _fl(rng, special=0.15):
    if rng.random() < special:
        return rng.choice(SPECIAL + ['-0.0'])
    return rng.randint(-40, 40) / 8


# round 7: while > 0, every string the generators draw is, with this probability, a string edge value
# (no extra draw while 0: the random stream of all other sessions is what it was)
_EDGE = [0.0]


def _s(rng, uni):
    if _EDGE[0] and rng.random() < _EDGE[0]:
        return _edge_s(rng)
    return rng.choice(UNI) if rng.random() < uni else rng.choice(ASCII)


def _hlist(rng, n, uni):
    """a ragged / mixed list of length n (what `TestRDMLists` in the repo's suite builds):
    strings, None, numbers, arrays and lists of different lengths; never array-convertible"""
    # never bare numbers *and* strings in one list: after a selection numpy could stringify
    kinds = rng.choice([['str', 'none', 'nd', 'list'], ['int', 'float', 'none', 'nd', 'list']])

    def elem():
        k = rng.choice(kinds)
        if k == 'str':
            return {'py': 'str', 'v': _s(rng, uni)}
        if k == 'none':
            return {'py': 'none'}
        if k == 'int':
            return {'py': 'int', 'v': rng.randint(0, 9)}
        if k == 'float':
            return {'py': 'float', 'v': _fl(rng)}
        m = rng.randint(0, 3)
        if k == 'nd':
            return {'py': 'nd', 'dtype': 'i', 'shape': [m], 'v': list(range(m))}
        return {'py': 'list', 'v': [{'py': 'int', 'v': rng.randint(0, 9)} for _ in range(m)]}
    v = [elem() for _ in range(n)]
    v[rng.randrange(n)] = {'py': 'none'}                  # guarantees an object array / ragged
    v[rng.randrange(n)] = {'py': 'nd', 'dtype': 'i', 'shape': [2], 'v': [7, 8]}
    if all(e['py'] in ('nd', 'list') for e in v):
        v[0] = {'py': 'none'}
    return {'py': 'list', 'v': v, 'h': True}


def _nlist(rng, n, uni):
    """a flat list of length n mixing one kind of scalar with None (what `rdm.concat` builds for a
    descriptor only some of its arguments carry; numpy makes it an object array, the HDF5 writer
    must not store it as numbers: None is not NaN)"""
    kind = rng.choice(['int', 'int', 'float', 'str', 'bool'])

    def elem():
        if kind == 'int':
            return {'py': 'int', 'v': rng.randint(0, 9)}
        if kind == 'float':
            return {'py': 'float', 'v': _fl(rng)}
        if kind == 'bool':
            return {'py': 'bool', 'v': rng.random() < 0.5}
        return {'py': 'str', 'v': _s(rng, uni)}
    v = [elem() if rng.random() < 0.6 else {'py': 'none'} for _ in range(n)]
    v[rng.randrange(n)] = {'py': 'none'}
    return {'py': 'list', 'v': v, 'nl': kind}


def _elem_desc(rng, n, uni, hlist=0.0, nlist=0.0):
    """a per-element descriptor value of length n"""
    if n >= 2 and rng.random() < hlist:
        return _hlist(rng, n, uni)
    if rng.random() < nlist:
        return _nlist(rng, n, uni)
    t = rng.choice(['list_int', 'list_str', 'list_float', 'nd_int', 'nd_str', 'nd_float', 'nd_2d',
                    'list_bool', 'nd_small', 'nd_obj'])
    if t == 'nd_obj':        # arrays of python objects: a pandas string column, numbers, missing entries
        k = rng.choice(['str', 'str', 'num', 'none'])
        if k == 'str':
            v = [_s(rng, uni) or 'e' for _ in range(n)]
        elif k == 'num':
            v = [rng.randint(0, 9) for _ in range(n)]
        else:
            v = [rng.choice([None, rng.randint(0, 9)]) for _ in range(n)]
            v[rng.randrange(n)] = None
        return {'py': 'nd', 'dtype': 'O', 'shape': [n], 'v': v, 'ok': k}
    if t == 'nd_small':      # small numpy dtypes: the dtype travels, the values are equal
        dt = rng.choice(['float32', 'int8', 'bool_', 'uint16', 'float16'])
        return {'py': 'nd', 'dtype': dt, 'shape': [n],
                'v': [rng.randint(0, 1) if dt == 'bool_' else rng.randint(0, 9) / (1 if dt[0] != 'f' else 4)
                      for _ in range(n)]}
    if t == 'list_int':
        return {'py': 'list', 'v': [{'py': 'int', 'v': rng.randint(0, 3)} for _ in range(n)]}
    if t == 'list_str':
        return {'py': 'list', 'v': [{'py': 'str', 'v': _s(rng, uni)} for _ in range(n)]}
    if t == 'list_float':
        return {'py': 'list', 'v': [{'py': 'float', 'v': _fl(rng)} for _ in range(n)]}
    if t == 'list_bool':
        return {'py': 'list', 'v': [{'py': 'bool', 'v': rng.random() < 0.5} for _ in range(n)]}
    if t == 'nd_int':
        return {'py': 'nd', 'dtype': 'i', 'shape': [n], 'v': [rng.randint(0, 3) for _ in range(n)]}
    if t == 'nd_str':
        return {'py': 'nd', 'dtype': 'U', 'shape': [n], 'v': [_s(rng, uni) for _ in range(n)]}
    if t == 'nd_float':
        return {'py': 'nd', 'dtype': 'f', 'shape': [n], 'v': [_fl(rng) for _ in range(n)]}
    return {'py': 'nd', 'dtype': 'f', 'shape': [n, 2], 'v': [_fl(rng, 0.05) for _ in range(2 * n)]}


def _obj_desc(rng, uni, depth=0):
    """a per-object descriptor value"""
    t = rng.choice(['str', 'str', 'int', 'float', 'bool', 'none', 'list_int', 'list_float',
                    'list_str', 'nd_vec', 'matrix', 'nd_str', 'tuple_str', 'tuple_int', 'nested',
                    'np_scalar', 'nlist', 'hlist', 'npscalar', 'empty', 'long_str', 'nd_small', 'nd_obj'])
    if t == 'nd_obj':
        d = _elem_desc(rng, rng.randint(1, 4), uni)
        while d.get('dtype') != 'O':
            d = _elem_desc(rng, rng.randint(1, 4), uni)
        return d
    if t == 'nlist':
        return _nlist(rng, rng.randint(1, 4), uni)
    if t == 'hlist':
        return _hlist(rng, rng.randint(2, 4), uni)
    if t == 'npscalar':      # numpy scalar objects: np.float32(1.5), np.int8(-3), np.bool_(True)
        dt = rng.choice(['float32', 'int8', 'bool_', 'float64', 'int64'])
        return {'py': 'npscalar', 'dtype': dt,
                'v': (rng.random() < 0.5) if dt == 'bool_' else rng.randint(-8, 8) / (1 if dt[0] == 'i' else 4)}
    if t == 'empty':         # empty containers and arrays
        return rng.choice([{'py': 'list', 'v': []}, {'py': 'tuple', 'v': []}, {'py': 'dict', 'v': []},
                           {'py': 'nd', 'dtype': 'f', 'shape': [0], 'v': []},
                           {'py': 'nd', 'dtype': 'f', 'shape': [0, 3], 'v': []},
                           {'py': 'nd', 'dtype': 'U', 'shape': [0], 'v': []},
                           {'py': 'str', 'v': ''}])
    if t == 'long_str':
        return {'py': 'str', 'v': ''.join(_s(rng, uni) or '-' for _ in range(rng.randint(300, 700)))}
    if t == 'nd_small':
        return _elem_desc(rng, rng.randint(1, 4), uni)
    if t == 'str':
        return {'py': 'str', 'v': _s(rng, uni)}
    if t == 'int':
        return {'py': 'int', 'v': rng.randint(-5, 50)}
    if t == 'float':
        return {'py': 'float', 'v': _fl(rng)}
    if t == 'bool':
        return {'py': 'bool', 'v': rng.random() < 0.5}
    if t == 'none':
        return {'py': 'none'}
    k = rng.randint(1, 4)
    if t == 'list_int':
        return {'py': 'list', 'v': [{'py': 'int', 'v': rng.randint(0, 9)} for _ in range(k)]}
    if t == 'list_float':
        return {'py': 'list', 'v': [{'py': 'float', 'v': _fl(rng)} for _ in range(k)]}
    if t == 'list_str':
        return {'py': 'list', 'v': [{'py': 'str', 'v': _s(rng, uni)} for _ in range(k)]}
    if t == 'nd_vec':
        return {'py': 'nd', 'dtype': rng.choice('fi'), 'shape': [k],
                'v': [rng.randint(0, 9) for _ in range(k)]}
    if t == 'matrix':        # e.g. a stored noise precision
        return {'py': 'nd', 'dtype': 'f', 'shape': [k, k], 'v': [_fl(rng, 0.05) for _ in range(k * k)]}
    if t == 'nd_str':
        return {'py': 'nd', 'dtype': 'U', 'shape': [k], 'v': [_s(rng, uni) for _ in range(k)]}
    if t == 'tuple_str':
        return {'py': 'tuple', 'v': [{'py': 'str', 'v': _s(rng, uni)} for _ in range(k)]}
    if t == 'tuple_int':
        return {'py': 'tuple', 'v': [{'py': 'int', 'v': rng.randint(0, 99)} for _ in range(k)]}
    if t == 'np_scalar':
        return {'py': 'nd', 'dtype': rng.choice('fi'), 'shape': [], 'v': [rng.randint(0, 9)]}
    if depth >= 2:
        return {'py': 'int', 'v': 1}
    return {'py': 'dict', 'v': [[kk, _obj_desc(rng, uni, depth + 1)]
                                for kk in rng.sample(KEYS, rng.randint(0, 2))]}


def _descs(rng, gen, lo=0, hi=3):
    return [[k, gen()] for k in rng.sample(KEYS, rng.randint(lo, hi))]


def gen_rdms(rng, uni, n_rdm=None, n_cond=None, history=True, min_rdm=1, long=None):
    long = (rng.random() < 0.12 and n_rdm is None) if long is None else long
    n_rdm = n_rdm or (rng.randint(11, 13) if long else rng.randint(min_rdm, 4))
    n_cond = n_cond or rng.randint(2, 5)
    npair = n_cond * (n_cond - 1) // 2
    sp = 0.12 if rng.random() < 0.4 else 0.0
    spec = {'kind': 'rdms',
            'dis': [[_fl(rng, sp) for _ in range(npair)] for _ in range(n_rdm)],
            'measure': rng.choice([None, None, 'euclidean', 'crossnobis', _s(rng, uni)]),
            'descriptors': _descs(rng, lambda: _obj_desc(rng, uni)),
            'rdm_descriptors': _descs(rng, lambda: _elem_desc(rng, n_rdm, uni, 0.2, 0.2), 0, 2),
            'pattern_descriptors': _descs(rng, lambda: _elem_desc(rng, n_cond, uni, 0.15, 0.15), 0, 2)}
    if long:       # an index-keyed group with more than ten members ('10' sorts before '2')
        spec['rdm_descriptors'].append(['hl', _hlist(rng, n_rdm, uni)])
    if history and rng.random() < 0.5:
        h = []
        for _ in range(rng.randint(1, 3)):
            op = rng.choice(['subset_pattern', 'subsample_pattern', 'subset', 'subsample', 'reorder',
                             'sort_by', 'getitem', 'concat_self', 'append_self', 'concat_bare'])
            if op in ('subset_pattern', 'subsample_pattern'):
                h.append([op, 'index', [rng.randrange(n_cond) for _ in range(rng.randint(2, n_cond))]])
            elif op in ('subset', 'subsample'):
                h.append([op, 'index', [rng.randrange(n_rdm) for _ in range(rng.randint(1, n_rdm))]])
            elif op == 'reorder':
                p = list(range(n_cond))
                rng.shuffle(p)
                h.append([op, p])
            elif op == 'sort_by':
                h.append([op, 'index'])
            elif op == 'getitem':
                h.append([op, rng.randrange(n_rdm)])
            else:
                h.append([op])
        spec['history'] = h
    return spec


def gen_dataset(rng, uni, temporal=False):
    n_obs, n_ch = rng.randint(1, 5), rng.randint(1, 4)
    shape = [n_obs, n_ch] + ([rng.randint(1, 4)] if temporal else [])
    size = math.prod(shape)
    sp = 0.1 if rng.random() < 0.4 else 0.0
    lists = rng.random() < 0.3      # lists that are no arrays among the per-element descriptors
    obs = _descs(rng, lambda: _elem_desc(rng, n_obs, uni, 0.3 * lists, 0.4 * lists), 0, 2)
    obs.append(['c', {'py': 'list', 'v': [{'py': 'int', 'v': rng.randint(0, 2)} for _ in range(n_obs)]}])
    spec = {'kind': 'dataset', 'cls': 'DatasetBase' if not temporal and rng.random() < 0.15 else None,
            'shape': shape, 'meas': [_fl(rng, sp) for _ in range(size)],
            'descriptors': _descs(rng, lambda: _obj_desc(rng, uni)),
            'obs_descriptors': obs,
            'channel_descriptors': _descs(rng, lambda: _elem_desc(rng, n_ch, uni, 0.3 * lists, 0.4 * lists),
                                          0, 2)}
    if temporal:
        nt = shape[2]
        if rng.random() < 0.7:
            td = [['time', {'py': 'nd', 'dtype': 'f', 'shape': [nt], 'v': [i / 4 for i in range(nt)]}]]
            if rng.random() < 0.3:
                td.append(['lab', _elem_desc(rng, nt, uni, 0.3 * lists, 0.4 * lists)])
            spec['time_descriptors'] = td
    if rng.random() < 0.5 and not spec['cls']:
        h = []
        for _ in range(rng.randint(1, 2)):
            op = rng.choice(['subset_obs', 'subset_channel', 'sort_by', 'split_obs', 'copy']
                            + (['time_as_observations', 'subset_time'] if temporal else []))
            if op == 'subset_obs':
                h.append([op, 'c', rng.randint(0, 2)])
            elif op == 'subset_channel' and spec['channel_descriptors']:
                h.append([op, spec['channel_descriptors'][0][0], 0])
            elif op == 'sort_by':
                h.append([op, 'c'])
            elif op == 'split_obs':
                h.append([op, 'c', rng.randint(0, 2)])
            elif op == 'subset_time':
                h.append([op, 'time', 0.0, 0.5])
            elif op in ('copy', 'time_as_observations'):
                h.append([op])
        spec['history'] = h
    return spec


def gen_model(rng, uni, n_cond=None, mtype=None):
    mtype = mtype or rng.choice(['Model', 'ModelFixed', 'ModelFixed', 'ModelSelect', 'ModelWeighted',
                                 'ModelInterpolate'])
    name = _s(rng, uni) or 'm'
    if mtype == 'Model':
        return {'kind': 'model', 'type': mtype, 'name': name}
    n_cond = n_cond or rng.randint(2, 5)
    npair = n_cond * (n_cond - 1) // 2
    if rng.random() < 0.6:
        src = gen_rdms(rng, uni, n_cond=n_cond, history=rng.random() < 0.3,
                       min_rdm=2 if mtype == 'ModelInterpolate' else 1)
    else:
        rows = 1 if mtype == 'ModelFixed' else rng.randint(2, 3)
        src = {'vec': [_fl(rng, 0.0) for _ in range(npair * rows)], 'rows': rows}
    return {'kind': 'model', 'type': mtype, 'name': name, 'rdm': src}


def gen_result(rng, uni, many=None):
    many = rng.random() < 0.2 if many is None else many
    n_model = rng.randint(11, 13) if many else rng.randint(1, 3)
    n_cond = rng.randint(3, 5)
    if many:
        # more than ten models: HDF5 lists 'model_10' before 'model_2'; cheap distinct models
        n_cond = 3
        models = [{'kind': 'model', 'type': 'ModelFixed', 'name': f'm{i}' if rng.random() < 0.8 else _s(rng, uni) or 'm',
                   'rdm': {'vec': [i + 1.0, rng.randint(1, 40) / 8, rng.randint(1, 40) / 8], 'rows': 1}}
                  for i in range(n_model)]
    else:
        models = [gen_model(rng, uni, n_cond=n_cond,
                            mtype=rng.choice(['ModelFixed', 'ModelFixed', 'ModelWeighted', 'ModelSelect']))
                  for _ in range(n_model)]
    for m in models:   # histories inside model RDMs may change n_cond: keep them plain
        if isinstance(m.get('rdm'), dict) and m['rdm'].get('kind') == 'rdms':
            m['rdm'].pop('history', None)
    if rng.random() < (0.3 if many else 0.45):
        n_rdm = rng.randint(2, 6)
        data = gen_rdms(rng, 0.0, n_rdm=n_rdm, n_cond=n_cond, history=False)
        data['dis'] = [[rng.randint(1, 40) / 8 for _ in row] for row in data['dis']]
        data['rdm_descriptors'] = []
        data['pattern_descriptors'] = []
        data['descriptors'] = []
        if rng.random() < 0.3:    # a C10 history before the evaluation
            data['history'] = [['subsample', 'index', [rng.randrange(n_rdm) for _ in range(n_rdm)]]]
        fixed = [dict(m, type='ModelFixed') for m in models]
        for m in fixed:
            if 'vec' in m['rdm']:
                m['rdm'] = {'vec': [rng.randint(1, 40) / 8 for _ in range(n_cond * (n_cond - 1) // 2)],
                            'rows': 1}
            else:
                # one prediction per model: a single-RDM source
                m['rdm']['dis'] = [[rng.randint(1, 40) / 8 for _ in m['rdm']['dis'][0]]]
                m['rdm']['rdm_descriptors'] = []
        return {'kind': 'result', 'how': 'eval', 'data': data, 'models': fixed,
                'evaluator': rng.choice(['fixed', 'fixed', 'bootstrap_rdm', 'bootstrap_pattern',
                                         'bootstrap', 'dual']),
                'method': rng.choice(['cosine', 'corr']), 'N': rng.randint(4, 8),
                'seed': rng.randint(0, 10 ** 6)}
    nb, k = rng.randint(1, 5), rng.randint(1, 3)
    ev_shape = [nb, n_model] + ([k] if rng.random() < 0.5 else [])
    vkind = rng.choice(['none', '0d', '1d', '1d_nc', '2d', '2d_nc', '3d'])
    if vkind == '0d' and n_model != 1:
        vkind = '1d'
    var_shape = {'none': None, '0d': [], '1d': [n_model], '1d_nc': [n_model + 2],
                 '2d': [n_model, n_model], '2d_nc': [n_model + 2] * 2,
                 '3d': [3, n_model + 2, n_model + 2]}[vkind]
    spec = {'kind': 'result', 'how': 'ctor', 'models': models,
            'evaluations': [_fl(rng, 0.05 if rng.random() < 0.3 else 0) for _ in range(math.prod(ev_shape))],
            'ev_shape': ev_shape, 'noise_ceiling': [rng.randint(0, 8) / 8, rng.randint(0, 8) / 8],
            'nc_shape': [2], 'method': rng.choice(['cosine', 'corr', _s(rng, uni) or 'm']),
            'cv_method': rng.choice(['fixed', 'bootstrap_rdm', 'bootstrap_pattern', 'bootstrap', 'dual_bootstrap',
                                     'crossvalidation', 'bootstrap_crossval', 'test_cv', 'Fixed', _s(rng, uni) or 'cv']),
            'fitter': rng.random() < 0.3,
            'variances': None, 'var_shape': var_shape, 'dof': rng.choice([0, rng.randint(1, 9), rng.randint(1, 9)]),
            # (never 1: the constructor divides by n - 1)
            'n_rdm': rng.choice([None, rng.randint(2, 9), rng.choice([0, 0, 2, 5])]),
            'n_pattern': rng.choice([None, rng.randint(2, 9), rng.choice([0, 0, 3, 7])])}
    if var_shape is not None:
        n = math.prod(var_shape)
        vals = [rng.randint(1, 16) / 16 for _ in range(n)]
        if len(var_shape) >= 2:     # symmetric, dominant diagonal
            m = var_shape[-1]
            for b in range(n // (m * m)):
                for i in range(m):
                    for j in range(m):
                        vals[b * m * m + i * m + j] = 1 + i / 4 if i == j else 1 / 8
        spec['variances'] = vals
    if rng.random() < 0.35:
        spec['post'] = {rng.choice(['n_rdm', 'n_pattern']): rng.randint(2, 9)}
    return spec


def gen_obj(rng, kind=None):
    uni = rng.choice([0.0, 0.0, 0.25])
    kind = kind or rng.choice(['rdms', 'rdms', 'dataset', 'temporal', 'model', 'result'])
    if rng.random() < 0.08:        # falsy-but-valid field values also inside the random sessions
        return falsy_obj(rng, kind)
    if kind == 'rdms':
        return gen_rdms(rng, uni)
    if kind == 'dataset':
        return gen_dataset(rng, uni)
    if kind == 'temporal':
        return gen_dataset(rng, uni, temporal=True)
    if kind == 'model':
        return gen_model(rng, uni)
    return gen_result(rng, uni)


# ------------------------------------------------------------- falsy-but-valid field values (round 6)

def _falsy_obj_desc(rng):
    """a per-object descriptor value that is valid and falsy in Python's sense"""
    return rng.choice([
        {'py': 'int', 'v': 0}, {'py': 'float', 'v': 0.0}, {'py': 'float', 'v': '-0.0'},
        {'py': 'bool', 'v': False}, {'py': 'str', 'v': ''}, {'py': 'list', 'v': []}, {'py': 'tuple', 'v': []},
        {'py': 'none'}, {'py': 'dict', 'v': []}, {'py': 'nd', 'dtype': 'f', 'shape': [], 'v': [0]},
        {'py': 'nd', 'dtype': 'i', 'shape': [], 'v': [0]}, {'py': 'nd', 'dtype': 'f', 'shape': [0], 'v': []},
        {'py': 'npscalar', 'dtype': rng.choice(['float32', 'int8', 'int64', 'float64']), 'v': 0},
        {'py': 'npscalar', 'dtype': 'bool_', 'v': False},
        {'py': 'list', 'v': [{'py': 'int', 'v': 0}]}, {'py': 'nd', 'dtype': 'f', 'shape': [2], 'v': [0, 0]}])


def _falsy_elem_desc(rng, n):
    """a per-element descriptor all of whose entries are falsy"""
    t = rng.choice(['int', 'float', 'bool', 'str', 'nd_int', 'nd_str', 'nd_bool'])
    if t == 'int':
        return {'py': 'list', 'v': [{'py': 'int', 'v': 0} for _ in range(n)]}
    if t == 'float':
        return {'py': 'list', 'v': [{'py': 'float', 'v': rng.choice([0.0, '-0.0'])} for _ in range(n)]}
    if t == 'bool':
        return {'py': 'list', 'v': [{'py': 'bool', 'v': False} for _ in range(n)]}
    if t == 'str':
        return {'py': 'list', 'v': [{'py': 'str', 'v': ''} for _ in range(n)]}
    if t == 'nd_int':
        return {'py': 'nd', 'dtype': 'i', 'shape': [n], 'v': [0] * n}
    if t == 'nd_bool':
        return {'py': 'nd', 'dtype': 'bool_', 'shape': [n], 'v': [0] * n}
    return {'py': 'nd', 'dtype': 'U', 'shape': [n], 'v': [''] * n}


def _falsy_descs(rng, k=None):
    keys = rng.sample(KEYS, k or rng.randint(2, 4))
    return [[kk, _falsy_obj_desc(rng)] for kk in keys]


def falsy_rdms(rng, n_rdm=None, n_cond=None, zero=None):
    n_rdm, n_cond = n_rdm or rng.randint(1, 3), n_cond or rng.randint(2, 4)
    npair = n_cond * (n_cond - 1) // 2
    zero = rng.random() < 0.6 if zero is None else zero
    return {'kind': 'rdms',
            'dis': [[0.0 if zero else rng.randint(0, 8) / 8 for _ in range(npair)] for _ in range(n_rdm)],
            'measure': rng.choice([None, '', '']), 'descriptors': _falsy_descs(rng),
            'rdm_descriptors': [[k, _falsy_elem_desc(rng, n_rdm)] for k in rng.sample(KEYS, rng.randint(0, 2))],
            'pattern_descriptors': [[k, _falsy_elem_desc(rng, n_cond)] for k in rng.sample(KEYS, rng.randint(0, 2))]}


def falsy_dataset(rng, temporal=False):
    n_obs, n_ch = rng.randint(1, 3), rng.randint(1, 3)
    shape = [n_obs, n_ch] + ([rng.randint(1, 3)] if temporal else [])
    zero = rng.random() < 0.6
    spec = {'kind': 'dataset', 'cls': None, 'shape': shape,
            'meas': [0.0 if zero else rng.randint(-4, 4) / 4 for _ in range(math.prod(shape))],
            'descriptors': _falsy_descs(rng),
            'obs_descriptors': [[k, _falsy_elem_desc(rng, n_obs)] for k in rng.sample(KEYS, rng.randint(1, 2))],
            'channel_descriptors': [[k, _falsy_elem_desc(rng, n_ch)]
                                    for k in rng.sample(KEYS, rng.randint(0, 2))]}
    if temporal:      # the time axis itself: a single time point 0.0
        nt = shape[2]
        spec['time_descriptors'] = [['time', {'py': 'nd', 'dtype': 'f', 'shape': [nt],
                                              'v': [i / 4 for i in range(nt)]}]]
    return spec


def falsy_model(rng, n_cond=None, mtype=None):
    mtype = mtype or rng.choice(['Model', 'ModelFixed', 'ModelFixed', 'ModelWeighted', 'ModelSelect'])
    name = rng.choice(['', '', 'm'])
    if mtype == 'Model':                 # no RDMs, no parameters
        return {'kind': 'model', 'type': mtype, 'name': name}
    n_cond = n_cond or rng.randint(2, 4)
    npair = n_cond * (n_cond - 1) // 2
    if rng.random() < 0.5:
        src = falsy_rdms(rng, n_rdm=1 if mtype == 'ModelFixed' else 2, n_cond=n_cond)
    else:
        rows = 1 if mtype == 'ModelFixed' else 2
        src = {'vec': [0.0 if rng.random() < 0.5 else 1.0 for _ in range(npair * rows)], 'rows': rows}
    return {'kind': 'model', 'type': mtype, 'name': name, 'rdm': src}


def falsy_result(rng, how=None):
    """Results with falsy fields: dof 0 (what `eval_fixed` records for data holding one RDM; a
    hand-built one with variances has NaN t-test outputs), noise ceiling 0.0, all-zero evaluations
    and variances, n_rdm / n_pattern None or 0, '' as method / cv_method / model name"""
    how = how or rng.choice(['eval', 'ctor', 'ctor', 'ctor-var'])
    n_cond = rng.randint(3, 4)
    npair = n_cond * (n_cond - 1) // 2
    if how == 'eval':
        n_model = rng.randint(1, 2)
        data = {'kind': 'rdms', 'dis': [[rng.randint(1, 40) / 8 for _ in range(npair)]], 'measure': None,
                'descriptors': [], 'rdm_descriptors': [], 'pattern_descriptors': []}
        models = [{'kind': 'model', 'type': 'ModelFixed', 'name': rng.choice(['', 'm%d' % i]),
                   'rdm': {'vec': [rng.randint(1, 40) / 8 for _ in range(npair)], 'rows': 1}}
                  for i in range(n_model)]
        return {'kind': 'result', 'how': 'eval', 'data': data, 'models': models, 'evaluator': 'fixed',
                'method': rng.choice(['cosine', 'corr']), 'N': 4, 'seed': rng.randint(0, 10 ** 6)}
    n_model = rng.randint(1, 3)
    models = [falsy_model(rng, n_cond=n_cond, mtype=rng.choice(['ModelFixed', 'ModelFixed', 'ModelWeighted']))
              for _ in range(n_model)]
    nb = rng.randint(1, 3)
    zero_ev = rng.random() < 0.6
    spec = {'kind': 'result', 'how': 'ctor', 'models': models,
            'evaluations': [0.0 if zero_ev else rng.randint(-8, 8) / 8 for _ in range(nb * n_model)],
            'ev_shape': [nb, n_model], 'noise_ceiling': [0.0, rng.choice([0.0, 0.0, 0.5])], 'nc_shape': [2],
            'method': rng.choice(['', '', 'cosine']), 'cv_method': rng.choice(['', '', 'fixed']),
            'fitter': False, 'variances': None, 'var_shape': None,
            'dof': rng.choice([0, 0, 0, 1]),
            # (never 1: the constructor divides by n - 1)
            'n_rdm': rng.choice([None, 0, 0, 2]), 'n_pattern': rng.choice([None, 0, 0, 2])}
    if how in ('ctor-var', 'ctor-var0'):
        vk = rng.choice(['1d', '2d', '2d0']) if how == 'ctor-var' else rng.choice(['1d0', '2d0'])
        if vk in ('1d', '1d0'):
            spec['var_shape'] = [n_model]
            spec['variances'] = [0.0 if vk == '1d0' else rng.choice([0.0, 0.25, 0.5]) for _ in range(n_model)]
        else:
            spec['var_shape'] = [n_model, n_model]
            spec['variances'] = [0.0 if vk == '2d0' else (1 + i / 4 if i == j else 1 / 8)
                                 for i in range(n_model) for j in range(n_model)]
        spec['dof'] = 0
    return spec


def falsy_obj(rng, kind):
    return {'rdms': falsy_rdms, 'dataset': falsy_dataset, 'temporal': lambda r: falsy_dataset(r, True),
            'model': falsy_model, 'result': falsy_result}[kind](rng)


def gen_falsy(rng, reps=1):
    """directed sessions: objects whose fields are falsy-but-valid through both file types, path and
    handle, read back and compared field by field (incl. the test outputs of a Result)"""
    for _ in range(reps):
        plan = [('rdms', None), ('dataset', None), ('temporal', None), ('model', None), ('model', 'Model'),
                ('result', 'eval'), ('result', 'ctor'), ('result', 'ctor-var'), ('result', 'ctor-var0')]
        for kind, sub in plan:
            if kind == 'result':
                o = falsy_result(rng, sub)
            elif sub == 'Model':
                o = falsy_model(rng, mtype='Model')
            else:
                o = falsy_obj(rng, kind)
            k = o['kind']
            tp = {'path': True, 'id': 0, 'name': '.h5'}
            tq = {'path': True, 'id': 1, 'name': '.pkl'}
            tm = {'path': False, 'id': 2, 'mem': True}
            tn = {'path': False, 'id': 3, 'mem': rng.random() < 0.5}
            ops = [{'do': 'save', 'obj': 0, 'target': tp, 'ft': 'hdf5', 'overwrite': False},
                   {'do': 'load', 'kind': k, 'target': tp, 'ft': rng.choice([None, 'hdf5']) if k != 'model' else 'hdf5'},
                   {'do': 'save', 'obj': 0, 'target': tq, 'ft': 'pkl', 'overwrite': rng.random() < 0.5},
                   {'do': 'load', 'kind': k, 'target': tq, 'ft': 'pkl'},
                   {'do': 'save', 'obj': 0, 'target': tm, 'ft': rng.choice(['hdf5', 'pkl']), 'overwrite': False}]
            ops.append({'do': 'load', 'kind': k, 'target': tm, 'ft': ops[-1]['ft']})
            if rng.random() < 0.5:
                ops += [{'do': 'save', 'obj': 0, 'target': tn, 'ft': 'pkl', 'overwrite': True},
                        {'do': 'load', 'kind': k, 'target': tn, 'ft': 'pkl'}]
            if rng.random() < 0.4:
                ops[0]['via'] = ops[1]['via'] = 'Path'
            yield {'objs': [o], 'ops': ops}


# ------------------------------------------------------------- string edge values (round 7)
# what a `strip` / `rstrip` / `splitlines` / `normalize` / fixed-width truncation / NUL-or-blank padding
# removal on the way to or from a file silently changes.  No NUL (ASSUMPTIONS), no lone surrogates.

NFC_NFD = [('\u00e9', 'e\u0301'), ('\u00c5', 'A\u030a'), ('\u00f1', 'n\u0303'), ('\uac00', '\u1100\u1161'),
           ('caf\u00e9', 'cafe\u0301'), ('\u1e69', 's\u0323\u0307')]
EDGE_STR = {
    'trailing-blank': ['face ', 'house  ', 'x y ', '\u00dcn\u00ef ', '\u65e5\u672c ', 'a.b  ', '0 '],
    'leading-blank': [' face', '  a', ' x ', ' \u03b1'],
    'tab': ['a\t', '\tb', 'a\tb', 'col1\tcol2\t'],
    'newline': ['a\n', '\nb', 'line1\nline2', 'a\r\n', 'a\r', 'x\n\n'],
    'nbsp': ['a\u00a0', '\u00a0b', 'a\u2003', 'a\u3000', 'a\u2028', 'a\u0085', '\ufeffa', 'a\u200b'],
    'all-blank': [' ', '   ', ' \t ', '\u00a0', '\n', '\t', '\u3000 ', '\r\n'],
    'empty': [''],
    'control': ['a\x01b', 'a\x1f', 'bell\x07', 'x\x7f', 'esc\x1b[0m', 'a\x0b', 'a\x0c', 'a\x1c', '\x08a'],
    'nfd': [d for _, d in NFC_NFD] + [c for c, _ in NFC_NFD],
    'quote': ['"a"', "b'", 'a\\n', 'a\\', '[1, 2]', 'None', 'nan', '1', 'True', "b'x'", 'a/b', 'a,b', '%s', '{0}'],
}
# descriptor names that are edge strings themselves (never empty, '.', or holding '/': ASSUMPTIONS)
EDGE_KEYS = ['lab ', ' lab', 'la b', 'lab\t', 'cafe\u0301', 'caf\u00e9', 'l\u00a0', 'lab\n', ' ']


def _edge_s(rng):
    c = rng.choice(['trailing-blank', 'trailing-blank', 'leading-blank', 'tab', 'newline', 'nbsp', 'all-blank',
                    'empty', 'control', 'nfd', 'quote', 'long'])
    if c == 'long':      # long, and ending in blanks half of the time
        unit = rng.choice(['ab ', 'x', '\u65e5\u672c', 'e\u0301', 'w\t'])
        return (unit * rng.randint(260 // len(unit), 320 // len(unit)))[:320] + rng.choice(['', ' ', '  \n'])
    return rng.choice(EDGE_STR[c])


def _edge_group(rng, n, cls=None):
    """n strings (n >= 1) forming one of the edge groups; the first entries carry the class"""
    cls = cls or rng.choice(['differ-only-trailing', 'nfd-pair', 'trailing-blank', 'all-blank', 'mixed', 'long'])
    if cls == 'differ-only-trailing':
        base = rng.choice(['face', 'a', '\u00dcn\u00ef', 'x y', 'e\u0301'])
        v = [base, base + ' ', base + '  ', base + '\t', base + '\n', base + '\u00a0', ' ' + base]
    elif cls == 'nfd-pair':
        c, d = rng.choice(NFC_NFD)
        v = [d, c, d + ' ', c + 'x', 'x' + d]
    elif cls == 'trailing-blank':
        v = [rng.choice(EDGE_STR['trailing-blank']) for _ in range(max(n, 2))]
    elif cls == 'all-blank':
        v = [' ', '', '  ', '\t', '\u00a0', '\n', '   ']
    elif cls == 'white':     # one string of every white-space / control class: tab, LF, CR, NBSP, control
        v = [rng.choice(EDGE_STR['tab']), rng.choice(['a\n', '\nb', 'x\n\n']), rng.choice(['a\r', 'a\r\n', 'c\rd']),
             rng.choice(EDGE_STR['nbsp']), rng.choice(EDGE_STR['control']), rng.choice(EDGE_STR['leading-blank'])]
        rng.shuffle(v)
        n = max(n, len(v))
    elif cls == 'long':      # fixed-width storage: the longest entry sets the width of all
        v = ['ab ' * rng.randint(400, 1500) + rng.choice(['', ' ']), 'a ', '', ' ', 'b']
    else:
        v = [_edge_s(rng) for _ in range(max(n, 2))]
        v[0] = rng.choice(EDGE_STR['trailing-blank'])
    while len(v) < n:
        v.append(_edge_s(rng))
    if cls != 'long':                        # the first two (the pair) stay, any of the others may follow
        tail = v[2:]
        rng.shuffle(tail)
        v = v[:2] + tail
    v = v[:n]
    if n >= 3 and rng.random() < 0.5:        # ... in any position
        tail = v[1:]
        rng.shuffle(tail)
        v = v[:1] + tail
    return v


def _edge_coll(rng, n, cls=None, form=None, per_element=False):
    """a collection of n edge strings as a list / tuple / string array / object array / 2-d string array"""
    v = _edge_group(rng, n, cls)
    n = len(v)
    form = form or rng.choice(['list', 'nd', 'nd', 'obj'] + ([] if per_element else ['tuple', 'nd2']))
    if form == 'list':
        return {'py': 'list', 'v': [{'py': 'str', 'v': x} for x in v]}
    if form == 'tuple':
        return {'py': 'tuple', 'v': [{'py': 'str', 'v': x} for x in v]}
    if form == 'obj':
        return {'py': 'nd', 'dtype': 'O', 'shape': [n], 'v': v, 'ok': 'str'}
    if form == 'nd2' and n % 2 == 0:
        return {'py': 'nd', 'dtype': 'U', 'shape': [n // 2, 2], 'v': v}
    return {'py': 'nd', 'dtype': 'U', 'shape': [n], 'v': v}


def _edge_obj_descs(rng, classes, form=None):
    """per-object descriptors: one collection per class named, one scalar edge string, one list that is no
    array holding edge strings, one nested dict holding both forms; some under names that are edge strings"""
    keys = ['e%d' % i for i in range(len(classes) + 9)]
    i, j, l = rng.sample(range(len(keys)), 3)
    keys[i] = str(i) + rng.choice(EDGE_KEYS)
    keys[j] = str(j) + rng.choice(['lab ', 'l  ', 'la b '])          # a name ending in a blank
    keys[l] = str(l) + 'cafe\u0301'                                   # a decomposed name
    out = [[keys[i], _edge_coll(rng, rng.randint(2, 5), c, form)] for i, c in enumerate(classes)]
    k = len(classes)
    out.append([keys[k], {'py': 'str', 'v': rng.choice(EDGE_STR['trailing-blank'] + EDGE_STR['all-blank']
                                                       + EDGE_STR['nfd'] + [_edge_s(rng)])}])
    out.append([keys[k + 1], {'py': 'list', 'nl': 'str',
                              'v': [{'py': 'str', 'v': 'a '}, {'py': 'none'}, {'py': 'str', 'v': _edge_s(rng)},
                                    {'py': 'str', 'v': ' '}]}])
    out.append([keys[k + 2], {'py': 'dict', 'v': [['s ', {'py': 'str', 'v': _edge_s(rng)}],
                                                  ['v', _edge_coll(rng, 3, rng.choice(classes), form)]]}])
    out.append([keys[k + 3], {'py': 'str', 'v': ('long ' * rng.randint(60, 3000)) + rng.choice(['', ' ', '\n'])}])
    out.append([keys[k + 4], _edge_coll(rng, 4, rng.choice(classes), 'nd2')])
    out.append([keys[k + 5], _edge_coll(rng, rng.randint(2, 4), rng.choice(classes), 'tuple')])
    out.append([keys[k + 6], {'py': 'str', 'v': rng.choice([d for _, d in NFC_NFD])}])
    out.append([keys[k + 7], _edge_coll(rng, rng.randint(2, 4), rng.choice(classes), 'obj')])
    out.append([keys[k + 8], _edge_coll(rng, 6, 'white', rng.choice(['list', 'nd']))])
    return out


def _npair_to_ncond(npair):
    n = 2
    while n * (n - 1) // 2 < npair:
        n += 1
    return n


def _edge_into_rdms(rng, r, classes, form=None):
    n_rdm, n_cond = len(r['dis']), _npair_to_ncond(len(r['dis'][0]))
    r['descriptors'] = list(r.get('descriptors') or []) + _edge_obj_descs(rng, classes, form)
    c0 = classes[0]
    r['rdm_descriptors'] = list(r.get('rdm_descriptors') or []) \
        + [['er', _edge_coll(rng, n_rdm, c0 if n_rdm >= 2 else 'trailing-blank', form, True)]]
    r['pattern_descriptors'] = list(r.get('pattern_descriptors') or []) \
        + [['ep', _edge_coll(rng, n_cond, classes[-1], form, True)],
           [rng.choice(EDGE_KEYS), _edge_coll(rng, n_cond, None, None, True)]]
    if rng.random() < 0.7:
        r['measure'] = rng.choice(EDGE_STR['trailing-blank'] + EDGE_STR['all-blank'] + [_edge_s(rng)])


def _edge_model(rng, m, classes, form=None, n_cond=None):
    m['name'] = rng.choice(EDGE_STR['trailing-blank'] + EDGE_STR['all-blank'] + EDGE_STR['nfd']
                           + [_edge_s(rng), _edge_s(rng)])
    if m['type'] == 'Model':
        return
    src = m['rdm']
    if src.get('kind') != 'rdms':       # a bare prediction vector carries no descriptor: give it RDMs
        rows = src.get('rows', 1)
        npair = len(src['vec']) // rows
        src = m['rdm'] = {'kind': 'rdms', 'dis': [src['vec'][i * npair:(i + 1) * npair] for i in range(rows)],
                          'measure': None, 'descriptors': [], 'rdm_descriptors': [], 'pattern_descriptors': []}
    _edge_into_rdms(rng, src, classes, form)


def stredge_obj(rng, kind, classes, form=None, how=None):
    """an object of the kind drawn with every string an edge value half of the time, plus collections of
    the classes named in every descriptor dictionary it has and edge strings in its scalar string fields"""
    _EDGE[0] = 0.5
    try:
        if kind == 'model':
            o = gen_model(rng, 0.25, mtype=rng.choice(['ModelFixed', 'ModelWeighted', 'ModelSelect',
                                                       'ModelInterpolate']))
        elif kind == 'result':
            o = gen_result(rng, 0.25, many=False)
            while how and o['how'] != how:
                o = gen_result(rng, 0.25, many=False)
        else:
            o = gen_obj(rng, kind)
    finally:
        _EDGE[0] = 0.0
    if how == 'history' and not o.get('history'):      # after a C10 / C11 operation
        o['history'] = [['subsample_pattern', 'index', [1, 0, 1]]] if kind == 'rdms' else [['sort_by', 'c'], ['copy']]
    if kind == 'rdms':
        _edge_into_rdms(rng, o, classes, form)
    elif kind in ('dataset', 'temporal'):
        n_obs, n_ch = o['shape'][0], o['shape'][1]
        o['descriptors'] = list(o['descriptors']) + _edge_obj_descs(rng, classes, form)
        o['obs_descriptors'] = list(o['obs_descriptors']) \
            + [['eo', _edge_coll(rng, n_obs, classes[0] if n_obs >= 2 else 'all-blank', form, True)]]
        o['channel_descriptors'] = list(o['channel_descriptors']) \
            + [[rng.choice(['ec'] + EDGE_KEYS), _edge_coll(rng, n_ch, classes[-1] if n_ch >= 2 else 'trailing-blank',
                                                          form, True)]]
        if kind == 'temporal' and o.get('time_descriptors'):
            o['time_descriptors'] = list(o['time_descriptors']) \
                + [['et', _edge_coll(rng, o['shape'][2], None, form, True)]]
    elif kind == 'model':
        _edge_model(rng, o, classes, form)
    else:
        for m in o['models']:
            if rng.random() < 0.7 or m is o['models'][0]:
                _edge_model(rng, m, classes, form)
        if o['how'] == 'ctor':
            o['method'] = rng.choice(EDGE_STR['trailing-blank'])
            o['cv_method'] = rng.choice(EDGE_STR['all-blank'] + [d for _, d in NFC_NFD] + EDGE_STR['newline'])
    return o


STR_REQUIRED = ['differ-only-trailing', 'nfd-pair', 'trailing-blank', 'all-blank']


def gen_stredge(rng, reps=1, sessions=6):
    """directed sessions: objects of every kind whose string-bearing fields hold edge values, through HDF5
    (path and memory handle) and pickle, read back each time and compared exactly; then random sessions
    (`gen_case`: histories, several objects, overwrite, path kinds) drawn with the edge domain switched on"""
    for _ in range(reps):
        for kind in ('rdms', 'dataset', 'temporal', 'model', 'result'):
            for form in ('list', 'nd'):
                classes = list(STR_REQUIRED)
                rng.shuffle(classes)
                o = stredge_obj(rng, kind, classes + ['long', 'mixed'], form if rng.random() < 0.7 else None,
                                how={'result': 'ctor', 'rdms': 'history', 'dataset': 'history'}.get(kind)
                                if form == 'list' else None)
                k = o['kind']
                tp = {'path': True, 'id': 0, 'name': '.h5'}
                tq = {'path': True, 'id': 1, 'name': '.pkl'}
                tm = {'path': False, 'id': 2, 'mem': True}
                ops = [{'do': 'save', 'obj': 0, 'target': tp, 'ft': 'hdf5', 'overwrite': False},
                       {'do': 'load', 'kind': k, 'target': tp, 'ft': rng.choice([None, 'hdf5']) if k != 'model' else 'hdf5'},
                       {'do': 'save', 'obj': 0, 'target': tm, 'ft': 'hdf5', 'overwrite': False},
                       {'do': 'load', 'kind': k, 'target': tm, 'ft': 'hdf5'},
                       {'do': 'save', 'obj': 0, 'target': tq, 'ft': 'pkl', 'overwrite': rng.random() < 0.5},
                       {'do': 'load', 'kind': k, 'target': tq, 'ft': 'pkl'}]
                if rng.random() < 0.4:      # overwrite the HDF5 file with the same object, read again
                    ops += [{'do': 'save', 'obj': 0, 'target': tp, 'ft': 'hdf5', 'overwrite': True},
                            {'do': 'load', 'kind': k, 'target': tp, 'ft': 'hdf5'}]
                if rng.random() < 0.3:
                    ops[0]['via'] = ops[1]['via'] = 'Path'
                yield {'objs': [o], 'ops': ops}
        for _ in range(sessions):
            _EDGE[0] = rng.choice([0.2, 0.5])
            try:
                c = gen_case(rng)
            finally:
                _EDGE[0] = 0.0
            yield c


# file name endings: what `load_*` recognises without `file_type` ('.pkl' | '.h5' | 'hdf5', by the
# last characters only, case-sensitively) and what it does not
NAMES_H5 = ['.h5', '.h5', '.hdf5', '_hdf5', '.pkl.h5', '.tar.hdf5']
NAMES_PKL = ['.pkl', '.pkl', '.h5.pkl', '.x.pkl']
NAMES_OTHER = ['.dat', '.H5', '.PKL', '.hdf', '.pickle', '.h5 ', '', '.pkl.bak', '.Hdf5']


def name_type(name):
    """independent statement of the loaders' rule (used by the generator and the oracle)"""
    if name.endswith('.pkl'):
        return 'pkl'
    if name.endswith('.h5') or name.endswith('hdf5'):
        return 'hdf5'
    return None


def _plain(spec):
    """no value whose HDF5 storage goes through the per-element list group or an object array
    (the values the two open findings list-as-dict / object-array are about)"""
    return not _has(spec, lambda d: (d.get('py') == 'list' and (d.get('nl') or d.get('h')))
                    or (d.get('py') == 'nd' and d.get('dtype') == 'O')
                    or (isinstance(d.get('history'), list) and any(h and h[0] == 'concat_bare'
                                                                   for h in d['history'])))


def gen_case(rng):
    objs = [gen_obj(rng) for _ in range(rng.randint(1, 3))]
    kinds = [o['kind'] for o in objs]
    # a second save into an open handle *without overwrite* (HDF5: h5py merges or refuses; pickle:
    # appended) is something the property does not speak about; the model does.  Those
    # experiments are run with plain objects only, so that a disagreement there can never be an
    # echo of an open finding on list / object-array values (which the oracle could not attribute)
    experiments = all(_plain(o) for o in objs)
    targets = []
    for i in range(rng.randint(1, 3)):
        r = rng.random()
        if r < 0.6:
            targets.append({'path': True, 'id': i,
                            'name': rng.choice(rng.choice([NAMES_H5, NAMES_H5, NAMES_PKL, NAMES_OTHER]))})
        elif r < 0.8:
            targets.append({'path': False, 'id': i, 'mem': False})
        else:
            targets.append({'path': False, 'id': i, 'mem': True})
    holds = {}      # target index -> (kind, file type) the generator expects to be in the file
    ops = []
    touched = set()     # targets some save was already aimed at (the file may exist)
    # some sessions hand every path over as one kind of object, some mix, most use plain str
    r = rng.random()
    via_pool = ['str'] if r < 0.55 else [rng.choice(['Path', 'PathLike', 'bytes'])] if r < 0.7 \
        else ['str', 'Path', 'Path', 'PathLike', 'bytes']

    def via_for(op, ti):
        """how the path is handed over for this operation (a per-operation choice: the same file
        may be addressed as a str in one call and as a pathlib.Path in the next).  A bytes path is
        something only h5py accepts: HDF5, and never together with overwrite on a file that may
        exist (remove_file and pickle know str / Path only, see ASSUMPTIONS)"""
        if not op['target']['path']:
            return
        v = rng.choice(via_pool)
        if v == 'bytes' and ((op.get('ft') or ('hdf5' if op['do'] == 'save' else None)) != 'hdf5'
                             or (op['do'] == 'save' and op.get('overwrite') and ti in touched)):
            v = 'Path'
        if v != 'str':
            op['via'] = v

    for _ in range(rng.randint(2, 8)):
        ti = rng.randrange(len(targets))
        t = targets[ti]
        if ti in holds and rng.random() < 0.5:
            kind, ft = holds[ti]
            # no file_type: mostly where the ending names the right type, sometimes where it
            # names the other one or nothing (then an error is due)
            auto = t['path'] and rng.random() < (0.5 if name_type(t['name']) == ft else 0.1)
            ops.append({'do': 'load', 'kind': kind, 'target': t, 'ft': None if auto else ft})
            via_for(ops[-1], ti)
            continue
        if ti not in holds and rng.random() < 0.06:
            ops.append({'do': 'load', 'kind': rng.choice(kinds), 'target': t,
                        'ft': rng.choice(['hdf5', 'pkl'])})
            via_for(ops[-1], ti)
            continue
        oi = rng.randrange(len(objs))
        if t['path'] and name_type(t['name']) and rng.random() < 0.85:
            ft = name_type(t['name'])
        else:
            ft = rng.choice(['hdf5', 'hdf5', 'pkl'])
        ov = rng.random() < (0.55 if ti in holds else 0.25)
        if ti in holds and not t['path'] and not experiments:
            ov = True
        op = {'do': 'save', 'obj': oi, 'target': t, 'ft': ft, 'overwrite': ov}
        # sometimes leave an argument out: the defaults of `save` (hdf5, no overwrite) apply
        if ft == 'hdf5' and rng.random() < 0.15:
            del op['ft']
        if not ov and rng.random() < 0.15:
            del op['overwrite']
        via_for(op, ti)
        touched.add(ti)
        ops.append(op)
        blocked = ti in holds and not ov and ft == 'hdf5'
        appended = ti in holds and not ov and ft == 'pkl' and not t['path']
        if not blocked and not appended:
            holds[ti] = (kinds[oi], ft)
        elif not t['path'] and rng.random() < 0.6:
            # a second save into an open handle without overwrite (HDF5: merged or refused by
            # h5py; pickle: appended): read back as the new and / or the old kind right away
            for kk in rng.sample([kinds[oi], holds[ti][0]], rng.randint(1, 2)):
                ops.append({'do': 'load', 'kind': kk, 'target': t, 'ft': ft})
    for ti, (kind, ft) in holds.items():       # what does every file hold in the end?
        ops.append({'do': 'load', 'kind': kind, 'target': targets[ti], 'ft': ft})
        if rng.random() < 0.5:
            via_for(ops[-1], ti)
    return {'objs': objs, 'ops': ops}


def gen_pathlike(rng):
    """directed sessions for path targets that are no `str` (pathlib.Path, an os.PathLike object, a
    bytes path): every kind, HDF5: fresh save, read back, a second save without overwrite on the
    now existing file (must fail and leave the file as it is), read back, [overwrite, read back];
    the same file addressed as str and as Path in turn; pickle through a Path"""
    kinds = ('rdms', 'dataset', 'temporal', 'model', 'result')
    for kind in kinds:
        for via in ('Path', 'PathLike', 'bytes'):
            a, b = gen_obj(rng, kind), gen_obj(rng, kind)
            t = {'path': True, 'id': 0, 'name': rng.choice(NAMES_H5 + NAMES_OTHER)}
            ops = [{'do': 'save', 'obj': 0, 'target': t, 'ft': 'hdf5', 'overwrite': False, 'via': via},
                   {'do': 'load', 'kind': a['kind'], 'target': t, 'ft': 'hdf5', 'via': via},
                   {'do': 'save', 'obj': 1, 'target': t, 'ft': 'hdf5', 'overwrite': False, 'via': via},
                   {'do': 'load', 'kind': a['kind'], 'target': t, 'ft': 'hdf5',
                    'via': rng.choice([via, 'str'])}]
            if rng.random() < 0.3:
                del ops[2]['overwrite'], ops[2]['ft']         # the defaults of save()
            if via == 'Path':
                ops += [{'do': 'save', 'obj': 1, 'target': t, 'ft': 'hdf5', 'overwrite': True, 'via': via},
                        {'do': 'load', 'kind': a['kind'], 'target': t, 'ft': 'hdf5', 'via': via}]
            yield {'objs': [a, b], 'ops': ops}
    # an existing file that holds an object of ANOTHER kind: refused all the same, nothing merged in
    for via in ('Path', 'PathLike', 'bytes', 'str'):
        ka, kb = rng.sample(kinds, 2)
        a, b = gen_obj(rng, ka), gen_obj(rng, kb)
        t = {'path': True, 'id': 0, 'name': '.h5'}
        yield {'objs': [a, b], 'ops': [
            {'do': 'save', 'obj': 0, 'target': t, 'ft': 'hdf5', 'overwrite': False, 'via': rng.choice([via, 'str'])},
            {'do': 'save', 'obj': 1, 'target': t, 'ft': 'hdf5', 'overwrite': False, 'via': via},
            {'do': 'load', 'kind': a['kind'], 'target': t, 'ft': 'hdf5', 'via': via},
            {'do': 'load', 'kind': b['kind'], 'target': t, 'ft': 'hdf5'}]}
    # one file, two ways of naming it
    for kind in kinds:
        first, second = rng.choice([('str', 'Path'), ('Path', 'str'), ('bytes', 'Path'), ('Path', 'PathLike')])
        a, b = gen_obj(rng, kind), gen_obj(rng, kind)
        t = {'path': True, 'id': 0, 'name': '.h5'}
        yield {'objs': [a, b], 'ops': [
            {'do': 'save', 'obj': 0, 'target': t, 'ft': 'hdf5', 'overwrite': False, 'via': first},
            {'do': 'save', 'obj': 1, 'target': t, 'ft': 'hdf5', 'overwrite': False, 'via': second},
            {'do': 'load', 'kind': a['kind'], 'target': t, 'ft': 'hdf5', 'via': second},
            {'do': 'load', 'kind': a['kind'], 'target': t, 'ft': None, 'via': first}]}
    # reading a path that does not exist fails and leaves nothing behind: the save that follows is
    # a save to a fresh path
    for kind in kinds:
        a = gen_obj(rng, kind)
        ft = rng.choice(['hdf5', 'hdf5', 'pkl'])
        t = {'path': True, 'id': 0, 'name': '.h5' if ft == 'hdf5' else '.pkl'}
        v = rng.choice(['str', 'str', 'Path'])
        yield {'objs': [a], 'ops': [
            {'do': 'load', 'kind': a['kind'], 'target': t, 'ft': ft, 'via': v},
            {'do': 'save', 'obj': 0, 'target': t, 'ft': ft, 'overwrite': False},
            {'do': 'load', 'kind': a['kind'], 'target': t, 'ft': ft}]}
    # pickle through a path object: fresh, read back, saved again (a pickle path is always rewritten)
    for kind in kinds:
        via = rng.choice(['Path', 'Path', 'PathLike'])
        a, b = gen_obj(rng, kind), gen_obj(rng, kind)
        t = {'path': True, 'id': 0, 'name': '.pkl'}
        yield {'objs': [a, b], 'ops': [
            {'do': 'save', 'obj': 0, 'target': t, 'ft': 'pkl', 'overwrite': False, 'via': via},
            {'do': 'load', 'kind': a['kind'], 'target': t, 'ft': 'pkl', 'via': via},
            {'do': 'save', 'obj': 1, 'target': t, 'ft': 'pkl', 'overwrite': rng.random() < 0.5, 'via': via},
            {'do': 'load', 'kind': a['kind'], 'target': t, 'ft': 'pkl', 'via': 'str'}]}


def generate(rng, tier):
    n = 160 if tier == 'quick' else 3500
    # a few directed sessions first: every kind through both formats and the guard
    for kind in ('rdms', 'dataset', 'temporal', 'model', 'result'):
        for ft, ext in (('hdf5', 'h5'), ('pkl', 'pkl')):
            a, b = gen_obj(rng, kind), gen_obj(rng, kind)
            t = {'path': True, 'id': 0, 'name': '.' + ext}
            yield {'objs': [a, b], 'ops': [
                {'do': 'save', 'obj': 0, 'target': t, 'ft': ft, 'overwrite': False},
                {'do': 'load', 'kind': a['kind'], 'target': t, 'ft': None if kind != 'model' else ft},
                {'do': 'save', 'obj': 1, 'target': t, 'ft': ft, 'overwrite': False},
                {'do': 'load', 'kind': a['kind'], 'target': t, 'ft': ft},
                {'do': 'save', 'obj': 1, 'target': t, 'ft': ft, 'overwrite': True},
                {'do': 'load', 'kind': a['kind'], 'target': t, 'ft': ft}]}
    # overwrite=True on an open handle that already holds an object: every kind, both file types
    # (the handle must be emptied and rewound by `remove_file` before either writer runs)
    for kind in ('rdms', 'dataset', 'temporal', 'model', 'result'):
        for ft in ('hdf5', 'pkl'):
            a, b = gen_obj(rng, kind), gen_obj(rng, kind)
            t = {'path': False, 'id': 0, 'mem': rng.random() < 0.5}
            yield {'objs': [a, b], 'ops': [
                {'do': 'save', 'obj': 0, 'target': t, 'ft': ft, 'overwrite': False},
                {'do': 'load', 'kind': a['kind'], 'target': t, 'ft': ft},
                {'do': 'save', 'obj': 1, 'target': t, 'ft': ft, 'overwrite': True},
                {'do': 'load', 'kind': a['kind'], 'target': t, 'ft': ft}]}
    # a Result with more than ten models through HDF5 (members come back alphabetically)
    for ext, ft in (('h5', 'hdf5'), ('pkl', 'pkl')):
        t = {'path': True, 'id': 0, 'name': '.' + ext}
        yield {'objs': [gen_result(rng, 0.0, many=True)], 'ops': [
            {'do': 'save', 'obj': 0, 'target': t, 'ft': ft, 'overwrite': False},
            {'do': 'load', 'kind': 'result', 'target': t, 'ft': None}]}
    # dictionaries nested two deep holding a list with a missing entry, in every kind's descriptors
    deep = ['info', {'py': 'dict', 'v': [['a', {'py': 'dict', 'v': [['b', _nlist(rng, 3, 0.0)],
                                                                      ['c', {'py': 'str', 'v': 'x'}]]}],
                                         ['n', {'py': 'int', 'v': 1}]]}]
    for kind in ('rdms', 'dataset', 'model'):
        o = gen_obj(rng, kind)
        (o['rdm'] if kind == 'model' and 'rdm' in o and o['rdm'].get('kind') == 'rdms' else o) \
            .setdefault('descriptors', []).append(deep)
        t = {'path': False, 'id': 0, 'mem': True}
        yield {'objs': [o], 'ops': [{'do': 'save', 'obj': 0, 'target': t, 'ft': 'hdf5', 'overwrite': False},
                                    {'do': 'load', 'kind': o['kind'], 'target': t, 'ft': 'hdf5'}]}
    # a file whose name says the other type: `load_*` without file_type must fail, with it succeed
    for nm, ft in (('.pkl', 'hdf5'), ('.h5', 'pkl'), ('.tar.hdf5', 'pkl'), ('.H5', 'hdf5'), ('.pickle', 'pkl')):
        o = gen_obj(rng, rng.choice(['rdms', 'dataset', 'result']))
        t = {'path': True, 'id': 0, 'name': nm}
        yield {'objs': [o], 'ops': [{'do': 'save', 'obj': 0, 'target': t, 'ft': ft, 'overwrite': True},
                                    {'do': 'load', 'kind': o['kind'], 'target': t, 'ft': None},
                                    {'do': 'load', 'kind': o['kind'], 'target': t, 'ft': ft}]}
    for _ in range(1 if tier == 'quick' else 8):
        yield from gen_pathlike(rng)
    yield from gen_falsy(rng, 1 if tier == 'quick' else 12)
    for _ in range(n):
        yield gen_case(rng)
    # round 7: string edge values in every string-bearing field (last: the random stream of all
    # sessions above is unchanged)
    yield from gen_stredge(rng, 1 if tier == 'quick' else 10, 6 if tier == 'quick' else 40)


def search(rng, tier):
    return generate(rng, 'thorough')


# ----------------------------------------------------------------------------- implementation

ERR_CLASS = {'fileExists': ('ValueError',), 'unicode': ('UnicodeEncodeError',)}


def _kind_of(spec):
    return spec['kind']


def run_impl(case):
    objs, kinds, before, beh, out = L.run_session(case)
    res = []
    for op, o in zip(case['ops'], out):
        if op['do'] == 'save':
            res.append({'err': o['err'], 'pure': o['pure'], 'file': o.get('file')})
        elif 'err' in o:
            res.append({'err': o['err'], 'file': o.get('file')})
        else:
            try:
                w = L.wire(L.attrs(op['kind'], o['loaded']))
                res.append({'obj': w, 'beh': L.behaviour(op['kind'], o['loaded']), 'file': o.get('file')})
            except L.Unsupported as exc:
                res.append({'err': 'Unrepresentable: ' + str(exc), 'file': o.get('file')})
    return {'ops': res, 'orig': before, 'orig_beh': beh}


def model_requests(case):
    objs = [L.build(s) for s in case['objs']]
    kinds = [s['kind'] for s in case['objs']]
    return [{'op': 'c16.session', 'codec': 'utf8',
             'objs': [{'kind': k, 'obj': L.wire(L.attrs(k, o))} for k, o in zip(kinds, objs)],
             'ops': [dict(op, target={'path': op['target']['path'], 'id': op['target']['id'],
                                      'name': L._text(L.target_name(op['target'])),
                                      'via': _via(op)})
                     for op in case['ops']]}]


def model_result(case, answers):
    return answers[0]


def compare(case, impl, model):
    if isinstance(model, dict):
        return f'model error {model}'
    origs = [L.canon(w) for w in impl['orig']]
    for i, (op, a, m) in enumerate(zip(case['ops'], impl['ops'], model)):
        tag = f"op{i}:{op['do']}"
        a_err, m_err = a.get('err'), m.get('err')
        if m_err == 'unspecified':      # merged / partially written file: the model makes no claim
            continue
        if bool(a_err) != bool(m_err):
            return f'{tag}: impl {"raises " + a_err if a_err else "succeeds"}, model ' \
                   f'{"refuses: " + m_err if m_err else "succeeds"}'
        if m_err in ERR_CLASS and a_err.split(':')[0] not in ERR_CLASS[m_err]:
            return f'{tag}: impl raises {a_err}, model {m_err}'
        if op['do'] == 'save':
            if a['pure'] != m['pure']:
                return f'{tag}: in-memory object changed by save (impl pure={a["pure"]}, model {m["pure"]})'
            # a save the model says is refused with the file untouched (guard, or h5py's refusal of a
            # taken member name): the file read back with h5py / pickle is what it was
            if op['target']['path'] and a.get('file') is not None and m.get('file') is not None \
                    and (a['file'] == 'same') != (m['file'] == 'same'):
                return f'{tag}: file on disk {a["file"]} (read back with h5py / pickle), model: {m["file"]}' \
                       f'{" (refused: " + m_err + ")" if m_err else ""}'
            continue
        if a.get('file') not in (None, 'same'):
            return f'{tag}: file on disk {a["file"]} by a load (the model: loading touches no file)'
        if m_err:
            continue
        d = L.canon_diff(L.canon(a['obj']), L.canon(m['obj']), tag)
        if d:
            return d
        # behaviour (test outputs, predictions) equals that of the object the model says is in the file
        src = [j for j, o in enumerate(origs) if o == L.canon(m['obj'])
               and case['objs'][j]['kind'] == op['kind']]
        if src and a['beh'] != impl['orig_beh'][src[0]]:
            b0, b1 = impl['orig_beh'][src[0]], a['beh']
            k = next((k for k in b0 if b0[k] != b1.get(k)), '?')
            return f'{tag}: behaviour {k} differs after reload: {L.short(b0.get(k))} != {L.short(b1.get(k))}'
    return None


# ----------------------------------------------------------------------------- oracle

def _same(a, b, path=''):
    """field-wise equality as the property states it (independent of the model's canon):
    same keys, element-wise equal values, NaN equal to NaN"""
    if isinstance(a, dict) or isinstance(b, dict):
        if not (isinstance(a, dict) and isinstance(b, dict)):
            return f'{path}: {type(a).__name__} vs {type(b).__name__}'
        if set(a) != set(b):
            return f'{path}: keys {sorted(a)} != {sorted(b)}'
        for k in a:
            d = _same(a[k], b[k], f'{path}.{k}')
            if d:
                return d
        return None
    if a is None or b is None:
        return None if a is None and b is None else f'{path}: {L.short(a)} != {L.short(b)}'
    try:
        x, y = np.asarray(a), np.asarray(b)
        ragged = (x.dtype.kind == 'O' or y.dtype.kind == 'O') and \
            isinstance(a, (list, tuple)) and isinstance(b, (list, tuple))
    except ValueError:
        ragged = True
    if ragged:           # ragged / mixed lists: entry by entry, in order
        if not (isinstance(a, (list, tuple)) and isinstance(b, (list, tuple))):
            return f'{path}: {type(a).__name__} vs {type(b).__name__}'
        if len(a) != len(b):
            return f'{path}: length {len(a)} != {len(b)}'
        for i, (p, q) in enumerate(zip(a, b)):
            d = _same(p, q, f'{path}[{i}]')
            if d:
                return d
        return None
    if x.shape != y.shape:
        return f'{path}: shape {x.shape} != {y.shape}'
    sx, sy = x.dtype.kind in 'US', y.dtype.kind in 'US'
    if x.dtype.kind == 'O' or y.dtype.kind == 'O':
        ok = all(_same(p, q) is None if not isinstance(p, str) else p == q
                 for p, q in zip(x.reshape(-1).tolist(), y.reshape(-1).tolist()))
        return None if ok else f'{path}: {L.short(a)} != {L.short(b)}'
    if sx != sy:
        return f'{path}: string vs number'
    if sx:
        return None if np.array_equal(x.astype(str), y.astype(str)) else f'{path}: {L.short(a)} != {L.short(b)}'
    if np.array_equal(x, y, equal_nan=True) and np.array_equal(np.signbit(x.astype(float)),
                                                               np.signbit(y.astype(float))):
        return None
    return f'{path}: {L.short(a)} != {L.short(b)}'


def _has(spec, pred):
    found = []
    _walk(spec, lambda d: found.append(1) if pred(d) else None)
    return bool(found)


def _fail(case, i, symptom, what, observed, expected, op, spec):
    """a property failure; `what` is free of positions so that equal defects group together"""
    f = {'symptom': symptom, 'op_index': i}
    if op is not None:
        f['ft'] = op.get('ft') if op['do'] == 'load' else _ft(op)
        f['target'] = 'path' if op['target']['path'] else 'mem' if op['target'].get('mem') else 'named'
        f['overwrite'] = op.get('overwrite')
        f['via'] = _via(op)
    if spec is not None:
        f['kind'] = spec['kind']
        f['how'] = spec.get('how')
        f['evaluator'] = spec.get('evaluator')
        f['postset'] = bool(spec.get('post'))
        f['has_tuple'] = _has(spec, lambda d: d.get('py') == 'tuple')
        f['has_unicode_array'] = _has(
            spec, lambda d: (d.get('py') == 'nd' and d.get('dtype') == 'U'
                             and any(ord(c) > 127 for x in d['v'] for c in x))
            or (d.get('py') == 'list' and any(e.get('py') == 'str' and any(ord(c) > 127 for c in e['v'])
                                              for e in d['v'])))
    # which documented defect does this look like?  (used by known-finding `match` predicates)
    tkey = None if op is None else (op['target']['path'], op['target']['id'])
    same = [o for o in case['ops'][:i + 1] if o['do'] == 'save'
            and (o['target']['path'], o['target']['id']) == tkey]
    # an open handle that already held something was saved to again with overwrite=True
    handle_ov = op is not None and not op['target']['path'] and any(
        _ov(o) for o in same[1:])
    f['has_hlist'] = spec is not None and _has(spec, lambda d: d.get('py') == 'list' and d.get('h'))
    f['has_nlist'] = spec is not None and _has(spec, lambda d: d.get('py') == 'list' and d.get('nl'))
    f['has_objarr_str'] = spec is not None and _has(
        spec, lambda d: d.get('py') == 'nd' and d.get('dtype') == 'O' and d.get('ok') == 'str')
    # object arrays: given, or built by numpy from a list with missing entries (time_as_observations
    # / time_as_channels repeat the descriptor lists with np.repeat / np.tile)
    f['has_objarr'] = spec is not None and (
        _has(spec, lambda d: d.get('py') == 'nd' and d.get('dtype') == 'O')
        or ((f['has_nlist'] or f['has_hlist']) and any(
            h and h[0] in ('time_as_observations', 'time_as_channels') for h in (spec.get('history') or []))))
    # (round 4b: the findings pathlike-target / pathlike-merge are repaired in /repo; a failure on a
    #  path that is no str is a failure like any other)
    if False:
        pass
    elif symptom == 'save-error:UnicodeEncodeError':
        f['defect'] = 'unicode-array'
    elif symptom in ('save-error:ValueError', 'save-error:TypeError') and f['has_hlist'] \
            and f.get('ft') == 'hdf5' and ('inhomogeneous' in str(observed) or 'sequence' in str(observed)
                                           or 'must be specified' in str(observed)):
        f['defect'] = 'ragged-list'
    elif symptom in ('result-variances', 'behaviour') and spec is not None and spec['kind'] == 'result':
        f['defect'] = 'result-variances'
    elif symptom == 'field' and (f['has_hlist'] or f['has_nlist'] or f['has_objarr']) \
            and f.get('ft') in ('hdf5', None) and 'list vs dict' in str(observed):
        # a list that is no array (ragged / holding None) comes back from HDF5 as the
        # index-keyed dictionary of its entries
        f['defect'] = 'list-as-dict'
    elif f.get('ft') in ('hdf5', None) and f['has_objarr'] and (
            (symptom == 'save-error:TypeError' and 'Object dtype' in str(observed))
            or (symptom == 'field' and f['has_objarr_str'])):
        # an ndarray of dtype object: strings come back as bytes objects, one holding None
        # cannot be written at all
        f['defect'] = 'object-array'
    elif handle_ov and symptom.split(':')[0] in ('save-error', 'load-error', 'field', 'class'):
        f['defect'] = 'handle-overwrite'
    elif symptom == 'field' and f.get('has_tuple') and f.get('ft') in ('hdf5', None) \
            and 'keys' in str(observed):
        f['defect'] = 'tuple-dropped'
    else:
        f['defect'] = 'other'
    return {'what': what, 'where': f'op{i}', 'observed': observed, 'expected': expected, 'features': f}


def _via(op):
    """how a path target is handed over: 'str' (default) | 'Path' | 'PathLike' | 'bytes'"""
    return (op.get('via') or 'str') if op['target']['path'] else 'str'


def _ft(op):
    """file type of a save: the documented default of `save` is 'hdf5'"""
    return op.get('ft') or 'hdf5'


def _ov(op):
    """overwrite flag of a save: the documented default is False"""
    return bool(op.get('overwrite'))


def oracle(case):
    """the sentences of C16 checked directly on the real code, with its own book-keeping of
    what every file must hold"""
    objs, kinds, before, beh, out = L.run_session(case)
    pristine = [L.build(s) for s in case['objs']]      # never saved: the reference originals
    holds = {}     # target key -> (file type, object index) as the property demands
    for i, (op, o) in enumerate(zip(case['ops'], out)):
        t = op['target']
        key = (t['path'], t['id'])
        if op['do'] == 'save':
            j = op['obj']
            spec = case['objs'][j]
            cur = holds.get(key)
            d = None if o['pure'] else 'typed snapshot differs'
            d = d or _same(L.attrs(kinds[j], pristine[j]), L.attrs(kinds[j], objs[j]), 'object')
            if d:
                return _fail(case, i, 'mutated', f'save changed the in-memory {kinds[j]}', d,
                             'unchanged', op, spec)
            # the file itself, read back with h5py / pickle before and after the call (any way of
            # handing the path over): an existing file is never replaced or changed unless
            # overwrite is requested (HDF5), nor by a save that fails
            rel = o.get('file')
            if t['path'] and o.get('existed') and rel not in (None, 'same'):
                if _ft(op) == 'hdf5' and not _ov(op):
                    return _fail(case, i, 'guard-file:' + rel,
                                 f'existing file {rel} by an HDF5 save without overwrite',
                                 f'file {rel}; save ' + (f'raised {o["err"]}' if o['err'] else 'reported success'),
                                 'refusal, file unchanged', op, spec)
                if o['err']:
                    return _fail(case, i, 'failed-save-file:' + rel, f'existing file {rel} by a save that failed',
                                 f'file {rel}; {o["err"]}', 'file unchanged', op, spec)
            if t['path'] and o.get('exact') is False:
                return _fail(case, i, 'overwrite-not-exact',
                             'after overwrite=True the file does not hold exactly the new object',
                             f'file {rel}: differs from a fresh save of the same object', 'exactly the new object',
                             op, spec)
            if t['path'] and _via(op) == 'bytes' and (_ft(op) == 'pkl' or (_ov(op) and o.get('existed'))):
                # outside the input space (ASSUMPTIONS): only the safety half above is judged
                holds[key] = ('unspecified', {})
                continue
            if _ft(op) == 'hdf5' and t['path'] and cur is not None and not _ov(op):
                if not o['err']:
                    return _fail(case, i, 'guard', 'existing HDF5 path replaced without overwrite',
                                 'no error', 'refusal', op, spec)
                continue                       # the file must be unchanged: checked by later loads
            if cur is None or _ov(op) or (_ft(op) == 'pkl' and t['path']):
                if o['err']:
                    exc = o['err'].split(':')[0]
                    return _fail(case, i, 'save-error:' + exc,
                                 f'saving to a {"fresh" if cur is None else "to-be-overwritten"} '
                                 f'target fails with {exc}', o['err'], 'file holding the object', op, spec)
                holds[key] = (_ft(op), {kinds[j]: j})
            elif _ft(op) == 'hdf5' and cur[0] == 'hdf5' and not o['err']:
                # a second HDF5 save into an open handle without overwrite that *reports success*
                # (h5py merged the new members into the file): the object just written must read
                # back; what the file held for other kinds is no longer the property's business
                holds[key] = ('hdf5', {kinds[j]: j})
            elif _ft(op) == 'hdf5' and cur[0] == 'hdf5' and o['err']:
                # … and one that h5py *refuses* (a member of that name exists): like the refusal
                # for an existing path, the file must still hold what it held
                pass
            else:
                # pickle appended behind the first one / a file of the other type: the property is silent
                holds[key] = ('unspecified', {})
            continue
        if o.get('file') not in (None, 'same'):
            return _fail(case, i, 'load-file:' + o['file'], f'a load left the file {o["file"]}',
                         f'file {o["file"]}' + (f'; {o["err"]}' if 'err' in o else ''), 'file untouched', op,
                         None)
        cur = holds.get(key)
        if cur is None or cur[0] == 'unspecified':
            continue
        ft = op.get('ft') or (name_type(L.target_name(t)) if t['path'] and _via(op) == 'str' else None)
        if ft != cur[0]:
            continue                                        # wrong-type load: only an error is due
        j = cur[1].get(op['kind'])
        if j is None:
            continue
        spec = case['objs'][j]
        if 'err' in o and _via(op) == 'bytes' and ft == 'pkl':
            continue                                        # outside the input space (ASSUMPTIONS)
        if 'err' in o:
            exc = o['err'].split(':')[0]
            return _fail(case, i, 'load-error:' + exc, f'reading back a saved object fails with {exc}',
                         o['err'], 'the object', op, spec)
        lo = o['loaded']
        if type(lo).__name__ != type(pristine[j]).__name__:
            return _fail(case, i, 'class', 'class changed by the round trip', type(lo).__name__,
                         type(pristine[j]).__name__, op, spec)
        try:
            got = L.attrs(kinds[j], lo)
        except L.Unsupported as exc:
            return _fail(case, i, 'class', 'loaded object is of another kind', str(exc), kinds[j], op, spec)
        d = _same(L.attrs(kinds[j], pristine[j]), got, kinds[j])
        if d:
            sym = 'result-variances' if any(k in d for k in ('model_var', 'diff_var', 'noise_ceil_var')) \
                else 'field'
            what = 'derived variances of the reloaded Result differ' if sym == 'result-variances' else \
                f'reloaded {kinds[j]} differs from the original'
            return _fail(case, i, sym, what, d, 'equal', op, spec)
        b0, b1 = L.behaviour(kinds[j], pristine[j]), L.behaviour(kinds[j], lo)
        if b0 != b1:
            k = next((k for k in b0 if b0[k] != b1.get(k)), '?')
            return _fail(case, i, 'behaviour', f'{k} of the reloaded {kinds[j]} differs',
                         L.short(b1.get(k)), L.short(b0.get(k)), op, spec)
    return None


# ----------------------------------------------------------------------------- features

def _walk(spec, f):
    if isinstance(spec, dict):
        f(spec)
        for v in spec.values():
            _walk(v, f)
    elif isinstance(spec, list):
        for v in spec:
            _walk(v, f)


def _falsy_tags(case):
    """which falsy-but-valid field values the objects of a session carry (only objects that are saved
    and read back by the session count: every generated object is)"""
    br = set()
    for s in case['objs']:
        k = s['kind']
        kk = 'temporal' if k == 'dataset' and len(s['shape']) == 3 else k
        tags = set()
        if k == 'result':
            if s['how'] == 'eval':
                single = len(s['data']['dis']) == 1 and not s['data'].get('history')
                if single and s['evaluator'] == 'fixed':
                    tags |= {'falsy:dof0', 'falsy:dof0:eval'}
            else:
                if s.get('dof', 1) == 0:
                    tags.add('falsy:dof0')
                    if s.get('variances') is not None:
                        tags.add('falsy:dof0:variances')
                if all(float(x) == 0 for x in s['noise_ceiling']):
                    tags.add('falsy:nc0')
                if all(isinstance(x, (int, float)) and x == 0 for x in s['evaluations']):
                    tags.add('falsy:evals0')
                if s.get('variances') is not None and all(x == 0 for x in s['variances']):
                    tags.add('falsy:variances0')
                post = s.get('post') or {}
                for f in ('n_rdm', 'n_pattern'):
                    v = post.get(f, s.get(f))
                    if v is None:
                        tags.add('falsy:n-none')
                    elif v == 0:
                        tags.add('falsy:n-zero')
                if s['method'] == '' or s['cv_method'] == '':
                    tags.add('falsy:empty-method')
        if k == 'rdms' and all(x == 0 for row in s['dis'] for x in row if not isinstance(x, str)) \
                and not any(isinstance(x, str) for row in s['dis'] for x in row):
            tags.add('falsy:zero-data')
        if k == 'dataset' and all(not isinstance(x, str) and x == 0 for x in s['meas']):
            tags.add('falsy:zero-data')

        def visit(d, tags=tags):
            if d.get('kind') == 'rdms' and 'measure' in d:
                if d['measure'] == '':
                    tags.add('falsy:measure-empty')
                if d['measure'] is None:
                    tags.add('falsy:measure-none')
            if d.get('kind') == 'model':
                if d['name'] == '':
                    tags.add('falsy:empty-name')
                if d['type'] in ('Model', 'ModelFixed'):
                    tags.add('falsy:model-noparams')
                if d['type'] == 'Model':
                    tags.add('falsy:model-no-rdm')
            for fld in ('descriptors',):
                for _, v in d.get(fld) or []:
                    py = v.get('py')
                    if py == 'str' and v['v'] == '':
                        tags.add('falsy:empty-str')
                    if (py in ('int', 'float', 'npscalar') and v.get('dtype') != 'bool_' and float(v['v']) == 0) \
                            or (py == 'nd' and v['shape'] == [] and float(v['v'][0]) == 0):
                        tags.add('falsy:zero-descriptor')
                    if (py == 'bool' and v['v'] is False) or (py == 'npscalar' and v.get('dtype') == 'bool_'
                                                              and not v['v']):
                        tags.add('falsy:false-descriptor')
                    if py in ('list', 'tuple') and not v['v']:
                        tags.add('falsy:empty-list-descriptor')
                    if py == 'none':
                        tags.add('falsy:none-descriptor')
            for fld in ('rdm_descriptors', 'pattern_descriptors', 'obs_descriptors', 'channel_descriptors'):
                for _, v in d.get(fld) or []:
                    vals = [e.get('v') if isinstance(e, dict) else e for e in v.get('v', [])]
                    if vals and all(isinstance(x, str) and x == '' for x in vals):
                        tags.add('falsy:empty-str-elem-descriptor')
                    elif vals and all(not isinstance(x, (str, list)) and x is not None and float(x) == 0
                                      for x in vals) and not v.get('h') and not v.get('nl') \
                            and v.get('py') in ('list', 'nd') and len(v.get('shape', [0])) == 1:
                        tags.add('falsy:zero-elem-descriptor')
        _walk(s, visit)
        if tags - {'falsy:measure-none', 'falsy:model-noparams', 'falsy:none-descriptor', 'falsy:n-none'}:
            tags.add('falsy:kind:' + kk)
        br |= tags
    # a Result with dof 0 through each file type
    for op in case['ops']:
        if op['do'] == 'save':
            s = case['objs'][op['obj']]
            if s['kind'] == 'result' and ((s['how'] == 'ctor' and s.get('dof', 1) == 0)
                                          or (s['how'] == 'eval' and len(s['data']['dis']) == 1
                                              and not s['data'].get('history') and s['evaluator'] == 'fixed')):
                br.add('falsy:dof0:' + _ft(op))
    return br


def _str_sites(spec):
    """every string an object spec carries: (form, field, [strings]); form = 'scalar' (an HDF5 attribute),
    'array' (a list / tuple / array of strings only: an HDF5 byte-string dataset), 'mixed' (entries of a
    list that is no array) or 'key' (a descriptor name)"""
    out = []

    def val(v, fld):
        py = v.get('py')
        if py == 'str':
            out.append(('scalar', fld, [v['v']]))
        elif py in ('list', 'tuple'):
            ss = [e['v'] for e in v['v'] if e.get('py') == 'str']
            if ss:
                out.append(('array' if len(ss) == len(v['v']) else 'mixed', fld, ss))
            for e in v['v']:
                if e.get('py') != 'str':
                    val(e, fld)
        elif py == 'nd' and v['dtype'] in ('U', 'O'):
            ss = [x for x in v['v'] if isinstance(x, str)]
            if ss:
                out.append(('array' if len(ss) == len(v['v']) else 'mixed', fld, ss))
        elif py == 'dict':
            for k, x in v['v']:
                out.append(('key', fld, [k]))
                val(x, fld)

    def obj(d):
        for f in ('measure', 'name', 'method', 'cv_method'):
            if isinstance(d.get(f), str):
                out.append(('scalar', f, [d[f]]))
        for fld in ('descriptors', 'rdm_descriptors', 'pattern_descriptors', 'obs_descriptors',
                    'channel_descriptors', 'time_descriptors'):
            for k, v in d.get(fld) or []:
                out.append(('key', fld, [k]))
                val(v, fld)
        if isinstance(d.get('rdm'), dict) and d['rdm'].get('kind') == 'rdms':
            obj(d['rdm'])
        for m in d.get('models') or []:
            obj(m)
    obj(spec)
    return out


_WS_OTHER = '\u00a0\u2003\u3000\u2028\u2029\u0085\ufeff\u200b\u2009'


def _str_classes(x):
    """the edge classes of one string (independent of how the generator made it)"""
    import unicodedata
    c = set()
    if x == '':
        return {'empty'}
    core = x.strip().strip(_WS_OTHER)
    if core == '':
        c.add('all-blank')
    else:
        if x.rstrip() != x or x[-1] in _WS_OTHER:
            c.add('trailing-blank')
        if x.lstrip() != x or x[0] in _WS_OTHER:
            c.add('leading-blank')
    if x.endswith(' '):
        c.add('trailing-space')
    if '\t' in x:
        c.add('tab')
    if '\n' in x or '\r' in x:
        c.add('newline')
    if '\r' in x:
        c.add('cr')
    if any(ch in _WS_OTHER for ch in x):
        c.add('nbsp')
    if any((ord(ch) < 32 and ch not in '\t\n\r') or ord(ch) == 127 for ch in x):
        c.add('control')
    if unicodedata.normalize('NFC', x) != x:
        c.add('nfd')
    if len(x) > 250:
        c.add('long')
    return c


STR_TAGS = ['str:trailing-blank', 'str:all-blank', 'str:differ-only-trailing', 'str:nfd',
            'str:trailing-blank:array', 'str:trailing-blank:scalar', 'str:trailing-blank:mixed', 'str:trailing-blank:key',
            'str:trailing-space:array', 'str:all-blank:array', 'str:all-blank:scalar', 'str:empty:array',
            'str:differ-only-trailing:array', 'str:nfd:array', 'str:nfd:scalar', 'str:nfd-pair', 'str:nfd:key',
            'str:leading-blank', 'str:tab', 'str:newline', 'str:nbsp', 'str:control', 'str:long', 'str:long:array',
            'str:tab:array', 'str:newline:array', 'str:cr:array', 'str:nbsp:array', 'str:control:array',
            'str:leading-blank:array',
            'str:long+trailing-blank', 'str:edge:hdf5', 'str:edge:pkl', 'str:edge:handle', 'str:edge:history',
            'str:edge:per-element', 'str:edge:2d-array', 'str:edge:object-array', 'str:edge:tuple',
            'str:edge:field:measure', 'str:edge:field:name', 'str:edge:field:method', 'str:edge:field:cv_method',
            'str:edge:kind:rdms', 'str:edge:kind:dataset', 'str:edge:kind:temporal', 'str:edge:kind:model',
            'str:edge:kind:result']

BRANCHES += STR_TAGS


def _str_tags(case):
    """which string edge values the objects of a session carry, where (scalar = attribute, array = byte-string
    dataset, entry of a list that is no array, descriptor name) and through which file type they go"""
    import unicodedata
    br = set()
    edge_objs = set()
    for oi, s in enumerate(case['objs']):
        k = s['kind']
        kk = 'temporal' if k == 'dataset' and len(s['shape']) == 3 else k
        tags = set()
        for form, fld, ss in _str_sites(s):
            for x in ss:
                cl = _str_classes(x)
                for c in cl - {'empty'}:
                    tags.add('str:' + c)
                    tags.add('str:%s:%s' % (c, form))
                if 'empty' in cl and form == 'array':
                    tags.add('str:empty:array')
                if 'long' in cl and 'trailing-blank' in cl:
                    tags.add('str:long+trailing-blank')
                if (cl - {'empty', 'long'}) and form != 'key':
                    if fld in ('measure', 'name', 'method', 'cv_method'):
                        tags.add('str:edge:field:' + fld)
                    elif fld != 'descriptors':
                        tags.add('str:edge:per-element')
            if form in ('array', 'mixed') and len(ss) >= 2:
                if any(a != b and a.rstrip() == b.rstrip() for a in ss for b in ss):
                    tags.add('str:differ-only-trailing')
                    tags.add('str:differ-only-trailing:' + form)
                if any(a != b and unicodedata.normalize('NFC', a) == unicodedata.normalize('NFC', b)
                       for a in ss for b in ss):
                    tags.add('str:nfd-pair')

        def visit(d, tags=tags):
            if d.get('py') in ('nd', 'tuple') and (d.get('dtype') in ('U', 'O') or d.get('py') == 'tuple'):
                ss = [x if isinstance(x, str) else x.get('v') if isinstance(x, dict) and x.get('py') == 'str' else None
                      for x in d['v']]
                if any(isinstance(x, str) and (_str_classes(x) - {'empty', 'long'}) for x in ss):
                    tags.add('str:edge:tuple' if d['py'] == 'tuple' else 'str:edge:object-array'
                             if d['dtype'] == 'O' else 'str:edge:2d-array' if len(d['shape']) == 2 else 'str:edge:1d-array')
        _walk(s, visit)
        if tags:
            edge_objs.add(oi)
            tags.add('str:edge:kind:' + kk)
            if s.get('history'):
                tags.add('str:edge:history')
        br |= tags
    for op in case['ops']:
        if op['do'] == 'save' and op['obj'] in edge_objs:
            br.add('str:edge:' + _ft(op))
            if not op['target']['path']:
                br.add('str:edge:handle')
    return br


def features(case, impl):
    br = set(_falsy_tags(case)) | _str_tags(case)
    for s in case['objs']:
        k = s['kind']
        br.add('kind:temporal' if k == 'dataset' and len(s['shape']) == 3 else 'kind:' + k)
        if k == 'dataset' and s.get('cls') == 'DatasetBase':
            br.add('kind:datasetbase')
        if k == 'result' and s.get('fitter'):
            br.add('result:fitter')
        if k == 'rdms' and s.get('measure') is None:
            br.add('measure:absent')
        if k == 'result':
            br.add('result:evaluator' if s['how'] == 'eval' else 'result:ctor')
            if len(s['models']) >= 11:
                br.add('result:models>=11')
            if s.get('post') or s.get('evaluator') in ('fixed', 'bootstrap_rdm', 'bootstrap_pattern'):
                br.add('result:postset')
            if s['how'] == 'ctor' and s.get('variances') is None:
                br.add('result:variances-none')

        def visit(d):
            if d.get('kind') == 'model':
                br.add('model:' + d['type'])
            if d.get('history'):
                br.add('history')
            py = d.get('py')
            if py == 'str' and any(ord(c) > 127 for c in d['v']):
                br.add('desc:unicode-str')
            if py == 'nd' and d['dtype'] == 'U' and any(ord(c) > 127 for x in d['v'] for c in x):
                br.add('desc:unicode-array')
            if py == 'nd' and len(d['shape']) == 2:
                br.add('desc:matrix')
            if py == 'none':
                br.add('desc:none')
            if py == 'tuple':
                br.add('desc:tuple')
            if py == 'list' and d.get('h'):
                br.add('desc:hlist')
                if len(d['v']) >= 11:
                    br.add('desc:hlist>=11')
            if py == 'dict':
                br.add('desc:nested')
                if any(x.get('py') == 'dict' for _, x in d['v']):
                    br.add('desc:nested2')
            if py == 'list' and d.get('nl'):
                br.add('desc:nlist')
                br.add('desc:nlist:' + k)
            if py == 'nd' and d['dtype'] == 'O':
                br.add('desc:object-array')
                if d.get('ok') == 'none':
                    br.add('desc:object-array-none')
            if py == 'npscalar':
                br.add('desc:npscalar')
            if py == 'nd' and d['dtype'] in L.NP_DTYPES:
                br.add('desc:small-dtype')
            if (py == 'nd' and 0 in d['shape']) or (py in ('list', 'tuple', 'dict') and not d['v']) \
                    or (py == 'str' and d['v'] == ''):
                br.add('desc:empty')
            if py == 'str' and len(d['v']) > 250:
                br.add('desc:long-str')
            if py == 'float' and d['v'] == 'nan':
                br.add('value:nan')
            if py == 'float' and d['v'] in ('inf', '-inf'):
                br.add('value:inf')
        _walk(s, visit)
        if _has(s.get('descriptors', []), lambda d: d.get('py') == 'list' and (d.get('nl') or d.get('h'))):
            br.add('desc:list-in-object-descriptors')
        for row in (s.get('dis') or []) + [s.get('meas') or []]:
            if 'nan' in row:
                br.add('value:nan')
            if 'inf' in row or '-inf' in row:
                br.add('value:inf')
    seen = set()
    last_ft = {}
    vias, last_kind = {}, {}
    missing_loaded = set()
    for i, op in enumerate(case['ops']):
        t = op['target']
        key = (t['path'], t['id'])
        br.add('target:path' if t['path'] else 'target:mem' if t.get('mem') else 'target:named')
        via = _via(op)
        if via != 'str':
            br.add('via:' + via)
            vias.setdefault(key, set())
            if op['do'] == 'load':
                br.add('via:nonstr:load')
                if op.get('ft') is None:
                    br.add('via:nonstr:autodetect')
            else:
                br.add('via:nonstr:' + _ft(op))
                if key not in seen:
                    br.add('via:nonstr:fresh')
                    br.add('via:nonstr:fresh:' + case['objs'][op['obj']]['kind'])
                elif _ov(op):
                    br.add('via:nonstr:existing+overwrite')
                elif _ft(op) == 'hdf5':
                    br.add('via:nonstr:existing-overwrite')
                    br.add('via:' + via + ':existing-overwrite')
                    br.add('via:nonstr:existing-overwrite:' + case['objs'][op['obj']]['kind'])
                    if last_kind.get(key) not in (None, case['objs'][op['obj']]['kind']):
                        br.add('via:nonstr:existing-other-kind')
        if t['path']:
            vias.setdefault(key, set()).add(via)
            if len(vias[key]) > 1 and 'str' in vias[key]:
                br.add('via:mixed')
        if op['do'] == 'save':
            last_kind.setdefault(key, case['objs'][op['obj']]['kind'])
        nm = L.target_name(t) if t['path'] else None
        if nm is not None and nm.endswith('hdf5'):
            br.add('name:hdf5-ending')
        if op['do'] == 'load' and op.get('ft') is None and t['path'] and key in seen:
            if name_type(nm) is None:
                br.add('name:unrecognised')
            elif name_type(nm) != last_ft.get(key):
                br.add('name:misleading')
        if op['do'] == 'save' and not t['path'] and key in seen and not _ov(op):
            br.add('handle:second-save-' + _ft(op))
        if op['do'] == 'save':
            last_ft[key] = _ft(op)
        if op['do'] == 'save':
            br.add('ft:' + _ft(op))
            if 'ft' not in op or 'overwrite' not in op:
                br.add('save:default-args')
            if key not in seen:
                br.add('save:fresh')
                if key in missing_loaded:
                    br.add('load:missing-then-save')
            else:
                br.add('save:existing+overwrite' if _ov(op) else 'save:existing-overwrite')
                if not _ov(op) and t['path'] and _ft(op) == 'hdf5':
                    br.add('guard:hdf5-path-exists')
            seen.add(key)
        else:
            if t['path'] and key not in seen:
                missing_loaded.add(key)
            if op.get('ft') is None:
                br.add('load:autodetect')
            if impl and 'err' in impl['ops'][i]:
                br.add('load:error')
    return {'n_objs': len(case['objs']), 'n_ops': len(case['ops']),
            'kinds': '+'.join(sorted({s['kind'] for s in case['objs']})), 'branches': sorted(br)}


def nontrivial_key(case, impl):
    if not impl or not any('obj' in o for o in impl['ops']):
        return None
    return [case['objs'], case['ops']]


# ----------------------------------------------------------------------------- shrinking

def shrink(case, still_fails):
    case = copy.deepcopy(case)
    # keep the *kind* of failure while shrinking: a reduction that turns the failure into one of
    # another class (e.g. into the witness of an open finding) is not a smaller instance of it
    first = oracle(case)
    if first:
        cls = (first['features'].get('defect'), first['features'].get('symptom'))

        def still_fails(c):   # noqa: F811
            o = oracle(c)
            return bool(o) and (o['features'].get('defect'), o['features'].get('symptom')) == cls
    changed = True
    while changed:
        changed = False
        for i in range(len(case['ops']) - 1, -1, -1):
            c = copy.deepcopy(case)
            del c['ops'][i]
            if c['ops'] and still_fails(c):
                case, changed = c, True
        used = sorted({op['obj'] for op in case['ops'] if op['do'] == 'save'})
        if len(used) < len(case['objs']) and used:
            c = copy.deepcopy(case)
            c['objs'] = [case['objs'][j] for j in used]
            for op in c['ops']:
                if op['do'] == 'save':
                    op['obj'] = used.index(op['obj'])
            if still_fails(c):
                case, changed = c, True
        for oi, s in enumerate(case['objs']):
            for fld in ('history', 'descriptors', 'rdm_descriptors', 'pattern_descriptors',
                        'obs_descriptors', 'channel_descriptors', 'post'):
                v = s.get(fld)
                if not v:
                    continue
                items = list(v.items()) if isinstance(v, dict) else list(v)
                for k in range(len(items) - 1, -1, -1):
                    if fld == 'obs_descriptors' and items[k][0] == 'c':
                        continue
                    c = copy.deepcopy(case)
                    rest = items[:k] + items[k + 1:]
                    c['objs'][oi][fld] = dict(rest) if isinstance(v, dict) else rest
                    if still_fails(c):
                        case, changed = c, True
                        items = rest
    return case
