"""C14 — noise covariance is the pooled residual covariance; precision is its inverse.

Engine interface (see harness/run_check.py):
  THEOREMS, LEVEL, RULE, BRANCHES, generate, run_impl, model_requests, model_result,
  compare, oracle, features, nontrivial_key, search, shrink

A case:
  {'kind': 'residuals' | 'dataset',
   'method': 'full' | 'diag' | 'shrinkage_eye' | 'shrinkage_diag',
   'p': channels,
   'inputs': [{'rows': [[num..]..], 'labels': [int..] (datasets only)} ..],
   'form': 'single' | 'list' | 'array3'      (array3: residual matrices stacked to a 3-D ndarray)
   'dof': None | num | [num..]}                 numbers are ints or "p/q" (exact dyadics)
 optional representation keys (the property quantifies over them silently):
   'dtype' float64|int64|float32, 'labels_as' 'str', 'dof_as' tuple|ndarray|npint,
   'layout' F|strided|readonly (memory layout / write protection of the arrays handed over),
   'style' pos|default (all arguments positional | `method` / `dof` omitted where they equal the
   default), 'desc' name of the observation descriptor, 'decoy' True (a second descriptor with a
   different partition comes first), 'container' 'tuple', inputs[i]['p'] (list elements with
   their own channel count), and a dof list shorter / longer than the input list (malformed).

'residuals' cases call cov_from_residuals / prec_from_residuals; 'dataset' cases call both
cov_from_measurements and cov_from_unbalanced (+ the two prec_from_*) on the same dataset(s).
'session' cases (round 4, engines/C14_session.py): ONE Dataset object, a list of steps -- estimator
calls interleaved with in-place changes (sort_by, stores into obs_descriptors / measurements);
every estimate is judged against the content the object has at that moment.
Round 5: 'extreme channel scale' inputs -- the same kinds of case, the values of channel j multiplied by
an exact power of two 2^e_j, e_j in -50..+10 within one input (covariance entries spanning > 1e15, up to
~1e36); the numbers stay exact dyadic rationals ("p/q").  Everything about covariances / precisions is
compared and judged in the *equilibrated* metric: C -> D^-1 C D^-1, P -> D P D with D = diag(2^e_j),
4^e_j ~ C_jj (exact operations), so that "P C = I" and "entry-wise relative" are demanded of every channel
and not only of the channels that dominate the norm.
"""
import copy
import math
from fractions import Fraction as F

import numpy as np

from lean import rat, unrat, unfbits
from engines import C14_session as SES

PROPERTY = 'C14'
LEVEL = 'proof'
P = 'Rsa.Props.C14.'
THEOREMS = [P + n for n in (
    'dof_unbalanced', 'dof_balanced', 'dof_wrong_iff',
    'full_is_residual_cov', 'full_is_residual_cov_natural_dof', 'diag_is_diagonal_of_full',
    'sdiag_is_convex_combination', 'sdiag_intensity_mem_unit',
    'list_uses_own_dof', 'dataset_list_uses_own_dof',
    'eye_is_convex_combination', 'eye_target_equal_trace', 'eye_intensity_mem_unit',
    'full_symm', 'shrink_symm', 'full_psd', 'shrink_psd', 'shrink_pd_when_active',
    'residual_terms_agree', 'unbalanced_residuals_centered', 'unbalanced_full_is_pooled_cov',
    'measurements_eq_unbalanced_on_balanced', 'estimate_perm', 'unbalanced_perm',
    'measurements_perm', 'unbalanced_relabel', 'measurements_relabel',
    'eye_unshrunk_when_target_reached', 'sdiag_constant_channel_unshrunk', 'sdDegenerate_iff',
    'source_skeletons', 'dispatch_table', 'dof_default', 'tensor_layout', 'inputs_not_written',
    'prec_is_inverse', 'singular_has_no_precision', 'constant_channel_singular', 'fast_eq_model',
    # round 4: sessions on one dataset object
    'session_estimate_of_current_content', 'session_estimates_leave_content', 'session_repeat_identical',
    'view_sortBy_perm', 'sortBy_sorted', 'session_sort_keeps_estimates', 'session_sorts_only',
    'session_full_is_pooled_cov_of_current',
    # round 5: channel scales
    'prec_equilibrated', 'diagonal_precision_entrywise', 'diag_precision_is_reciprocal_variance')]
RULE = ('one PRNG; residual matrices n=2..12 x p=1..6 (incl. p > n), datasets with 1..5 conditions '
        'x 1..5 repetitions in shuffled row order with arbitrary integer or string labels, balanced '
        'and unbalanced; values are small integers / halves (exact in binary) stored as float64, '
        'int64 or float32, C / Fortran / strided / read-only; ~12 % of the inputs have a constant '
        '(zero residual variance) channel; four methods; dof None / scalar (python or numpy) / list, '
        'tuple or ndarray (also too short / too long); single inputs, lists and tuples (elements may '
        'differ in channel count), stacked 3-D arrays; keyword, positional and default-argument call '
        'styles; descriptor name varied, decoy descriptor present; multi-step sessions on ONE Dataset '
        'object (3 descriptors, run-wise / shuffled / condition-wise row order): estimator calls (both '
        'estimators, cov / prec, all methods, any descriptor, dof None / passed, repeated, either order) '
        'interleaved with sort_by on several keys, stores into obs_descriptors[...] / measurements, '
        'replaced descriptor lists / arrays, get_measurements_tensor calls -- every estimate judged '
        'against the content of that moment; extreme channel scales: channel j multiplied by 2^e_j, '
        'e_j in -50..+10 within one input (variances spanning > 1e15), uniformly tiny inputs (2^-50..2^-40), '
        'moderate spans, list / tuple / 3-D inputs whose elements have different scales, datasets, all four '
        'methods, dof None / passed -- compared and judged in the equilibrated metric.  A case is non-trivial '
        'when at least one covariance was returned; distinct = distinct (kind, method, form, dof, '
        'inputs, representation keys)')
BRANCHES = ['res:single', 'res:list', 'res:array3', 'ds:single:balanced', 'ds:single:unbalanced',
            'ds:list', 'dof:none', 'dof:scalar', 'dof:list', 'res:list+dof:list',
            'method:full', 'method:diag', 'method:shrinkage_eye', 'method:shrinkage_diag',
            'eye:in', 'eye:hi', 'sdiag:in', 'sdiag:hi', 'sdiag:lo', 'intensity:degenerate',
            'p=1', 'p>n', 'prec:compared', 'prec:singular', 'measurements:ValueError',
            'dtype:float64', 'dtype:int64', 'dtype:float32', 'labels:str', 'dof:tuple', 'dof:ndarray',
            'dof:npint', 'ds:one-condition',
            # round 3
            'sdiag:const', 'const-channel:full', 'const-channel:diag', 'const-channel:shrinkage_eye',
            'eye:deg:dof-passed',
            # ('prec:singular:LinAlgError' / ':returned' / ':nonfinite' are still counted but no longer
            #  required: whether they are reached depends on the library's behaviour, and the outcome on an
            #  exactly singular covariance is now a *comparison*, see `_singular_outcome`)
            'list:mixed-p', 'dof:list:short', 'dof:list:long', 'call:pos', 'call:default',
            'desc:renamed', 'desc:decoy', 'container:tuple', 'layout:F', 'layout:strided',
            'layout:readonly', 'ds:labels-unsorted', 'malformed:0d', 'malformed:1d',
            # round 5: extreme channel scales (all determined by generator + exact model, never by the library)
            'scale:channels-1e15', 'scale:tiny', 'scale:uniform-tiny', 'scale:moderate', 'scale:prec-judged',
            'scale:prec-judged:full', 'scale:prec-judged:diag', 'scale:prec-judged:shrinkage_eye',
            'scale:prec-judged:shrinkage_diag', 'scale:list', 'scale:dataset', 'scale:dof-passed'] + SES.BRANCHES
ASSUMPTIONS = [
    'numpy float64 evaluation of the closed-form estimators is within 1e-9 relative of the exact '
    'value on the generated (small, dyadic) inputs',
    'precisions are compared / required only where the *equilibrated* covariance D^-1 C D^-1 '
    '(D = powers of two, D_jj^2 ~ C_jj) is invertible with condition number <= 1e7; a returned finite '
    'matrix P with p^2 max|C\'| max|P\'| <= 1e7 is always required to satisfy C P = I',
]
TRUSTED_EXTRA = [
    'np.linalg.inv: treated as an external routine; its contract (A @ inv(A) = I) is checked on '
    'every real call by the oracle and against the exactly certified rational inverse of the model',
]

METHODS = ['full', 'diag', 'shrinkage_eye', 'shrinkage_diag']
RTOL, ATOL = 1e-9, 1e-12
COND_MAX = 1e7
DTYPES = {'float64': np.float64, 'int64': np.int64, 'float32': np.float32}
_T64 = {'rtol': RTOL, 'atol': ATOL, 'rel_scale': 0.0, 'eps': 1e-9, 'pd_lam': 1e-6, 'pd_eig': 1e-12,
        'cond_max': COND_MAX, 'prec_c': 1e-13, 'prec_co': 1e-12, 'prec_a': 1e-9}
_T = dict(_T64)


def _set_tol(case):
    """tolerances of the case: float64 / int64 inputs are computed in doubles; float32 datasets stay
    float32 inside the library (6e-8 unit round-off, amplified by the cancellations in the shrinkage
    intensities), so they get proportionally wider bounds -- a defect still shows as an O(1) error"""
    _T.clear()
    _T.update(_T64)
    if case.get('dtype') == 'float32':
        r = 2e-3 if case['method'].startswith('shrinkage') else 5e-5
        _T.update(rtol=r, rel_scale=r, eps=r, pd_lam=1e-2, pd_eig=0.0, cond_max=1e3,
                  prec_c=1e-6, prec_co=1e-5, prec_a=1e-3)

_model_info = {}      # id of case json -> list of clip tags etc. (filled by model_result)


# ------------------------------------------------------------------ helpers

def _key(case):
    import json
    return json.dumps(case, sort_keys=True)


def _fr(x):
    return unrat(x)


def _arr(rows, dtype='float64'):
    if dtype == 'int64':
        return np.array([[int(_fr(x)) for x in r] for r in rows], dtype=np.int64)
    return np.array([[float(_fr(x)) for x in r] for r in rows], dtype=DTYPES[dtype])


def _dof_py(d):
    """the python object handed to the library for one dof number"""
    f = _fr(d)
    return int(f) if f.denominator == 1 else float(f)


def _dof_arg(case):
    d = case['dof']
    if d is None:
        return None
    how = case.get('dof_as', 'list')
    if isinstance(d, list):
        l = [_dof_py(x) for x in d]
        return tuple(l) if how == 'tuple' else np.array(l) if how == 'ndarray' else l
    v = _dof_py(d)
    return np.int64(v) if how == 'npint' and isinstance(v, int) else v


def _dof_kind(case):
    d = case['dof']
    return 'none' if d is None else 'list' if isinstance(d, list) else 'scalar'


def _canon_mat(m, p):
    """one returned matrix -> nested list of floats, or a marker"""
    if not isinstance(m, np.ndarray):
        return {'bad': f'element is {type(m).__name__} of shape {np.shape(m)}'}
    if m.shape != (p, p):
        return {'bad': f'element has shape {m.shape}'}
    return [[float(v) for v in r] for r in m]


def _canon_out(out, ps, form):
    """the value a cov_from_* / prec_from_* call returned -> {'container', 'items'};
    ps = expected channel count per element"""
    def pat(i):
        return ps[i] if i < len(ps) else ps[-1]
    if form == 'single':
        return {'container': type(out).__name__, 'items': [_canon_mat(out, ps[0])]}
    if isinstance(out, np.ndarray) and out.ndim == 3:
        return {'container': 'ndarray3', 'items': [_canon_mat(x, pat(i)) for i, x in enumerate(out)]}
    if isinstance(out, (list, tuple)):
        return {'container': type(out).__name__, 'items': [_canon_mat(x, pat(i)) for i, x in enumerate(out)]}
    return {'container': type(out).__name__, 'items': [{'bad': 'not a list'}]}


def _call(fn, *a, **k):
    try:
        with np.errstate(all='ignore'):
            return fn(*a, **k)
    except Exception as exc:      # noqa: BLE001  (library exceptions are part of the result)
        name = type(exc).__name__
        if isinstance(exc, TypeError):
            name = 'TypeError'        # numpy's UFuncTypeError (in-place cast refused) is a TypeError
        return {'exc': name if name in ('ValueError', 'TypeError', 'AssertionError', 'LinAlgError',
                                        'IndexError', 'AttributeError') else 'other'}


# ------------------------------------------------------------------ implementation

def _lay(a, how):
    """memory layout / write protection of an array handed to the library"""
    if how == 'F':
        return np.asfortranarray(a)
    if how == 'strided' and a.ndim == 2:
        big = np.zeros((2 * a.shape[0], 2 * a.shape[1] + 1), dtype=a.dtype)
        big[::2, 1::2] = a
        return big[::2, 1::2]              # non-contiguous view
    if how == 'readonly':
        a = a.copy()
        a.setflags(write=False)            # an in-place store would raise ValueError
        return a
    return a


def _ps(case):
    """channel count of every input (list elements may carry their own)"""
    return [i.get('p', case['p']) for i in case['inputs']]


def _invoke(case, fn, arg, desc, dof, method):
    """the call in the style of the case: keywords | all positional | defaults omitted"""
    lead = (arg,) if desc is None else (arg, desc)
    style = case.get('style', 'kw')
    if style == 'pos':
        return _call(fn, *lead, dof, method)
    kw = {'dof': dof, 'method': method}
    if style == 'default':
        if dof is None:
            del kw['dof']
        if method == 'shrinkage_diag':
            del kw['method']
    if desc is not None and style == 'kw' and case.get('desc'):
        return _call(fn, arg, obs_desc=desc, **kw)
    return _call(fn, *lead, **kw)


def run_impl(case):
    from rsatoolbox.data import noise as N
    from rsatoolbox.data import Dataset
    if case['kind'] == 'session':
        return SES.run_impl(case)
    form, method = case['form'], case['method']
    if case['kind'] == 'malformed':
        # not a residual matrix at all: a 0-d array / a 1-D vector (the input check of `_check_demean`)
        arg = np.array(3.0) if form == '0d' else np.array([1.0, -2.0, 4.0])
        return {'calls': {'residuals:' + name: _call(fn, arg, method=method)
                          for name, fn in (('cov', N.cov_from_residuals), ('prec', N.prec_from_residuals))},
                'unchanged': True}
    ps = _ps(case)
    dof = _dof_arg(case)
    lay = case.get('layout')
    mats = [_lay(_arr(i['rows'], case.get('dtype', 'float64')), lay) for i in case['inputs']]
    res = {'calls': {}}
    seq = tuple if case.get('container') == 'tuple' else list
    if case['kind'] == 'residuals':
        if form == 'single':
            arg = mats[0]
        elif form == 'array3':
            arg = _lay(np.stack(mats, axis=0), lay)
        else:
            arg = seq(mats)
        before = copy.deepcopy(arg)
        for name, fn in (('cov', N.cov_from_residuals), ('prec', N.prec_from_residuals)):
            out = _invoke(case, fn, arg, None, dof, method)
            res['calls']['residuals:' + name] = out if isinstance(out, dict) and 'exc' in out \
                else _canon_out(out, ps, 'single' if form == 'single' else 'list')
        after = arg
        if form == 'list':
            res['unchanged'] = all(np.array_equal(a, b) for a, b in zip(before, after))
        else:
            res['unchanged'] = bool(np.array_equal(before, after))
    else:
        as_str = case.get('labels_as') == 'str'
        desc = case.get('desc', 'cond')
        dss = []
        for m, i in zip(mats, case['inputs']):
            od = {}
            if case.get('decoy'):
                od['run'] = [q % 2 for q in range(len(i['labels']))]
            od[desc] = [f'c{lab:02d}' if as_str else lab for lab in i['labels']]
            dss.append(Dataset(m, obs_descriptors=od))
        arg = dss[0] if form == 'single' else seq(dss)
        before = [(d.measurements.copy(), {k: list(v) for k, v in d.obs_descriptors.items()}) for d in dss]
        for est, cf, pf in (('measurements', N.cov_from_measurements, N.prec_from_measurements),
                            ('unbalanced', N.cov_from_unbalanced, N.prec_from_unbalanced)):
            for name, fn in (('cov', cf), ('prec', pf)):
                out = _invoke(case, fn, arg, desc, dof, method)
                res['calls'][est + ':' + name] = out if isinstance(out, dict) and 'exc' in out \
                    else _canon_out(out, ps, 'single' if form == 'single' else 'list')
        res['unchanged'] = all(
            np.array_equal(d.measurements, b[0])
            and {k: list(v) for k, v in d.obs_descriptors.items()} == b[1]
            for d, b in zip(dss, before))
    return res


# ------------------------------------------------------------------ model

def _mode(case):
    return 'float' if case['method'] == 'shrinkage_diag' else 'rat'


def model_requests(case):
    if case['kind'] == 'session':
        return SES.model_requests(case)
    if case['kind'] == 'malformed':
        return []
    base = {'op': 'c14.run', 'mode': _mode(case), 'method': case['method'], 'p': case['p'],
            'inputs': case['inputs'], 'as_list': case['form'] != 'single', 'dof': case['dof']}
    if isinstance(case['dof'], list) and len(case['dof']) > len(case['inputs']):
        base['dof'] = case['dof'][:len(case['inputs'])]      # surplus entries are never read
    if case['kind'] == 'residuals':
        return [dict(base, kind='residuals')]
    return [dict(base, kind='measurements'), dict(base, kind='unbalanced')]


def _num(case, x, missing=None):
    if x is None:
        return missing
    if _mode(case) == 'float' and isinstance(x, str) and '/' not in x and len(x) == 16:
        return unfbits(x)
    return float(_fr(x))


def _mat(case, m, exact=False):
    if m is None:
        return None
    if exact:
        return [[float(_fr(v)) for v in r] for r in m]
    return [[_num(case, v, float('nan')) for v in r] for r in m]      # null = not a finite number


def model_result(case, answers):
    if case['kind'] == 'session':
        return SES.model_result(case, answers)
    if case['kind'] == 'malformed':
        return {'calls': {}, 'unchanged': True, 'rejects': True}
    names = ['residuals'] if case['kind'] == 'residuals' else ['measurements', 'unbalanced']
    res = {'calls': {}, 'unchanged': True}
    info = []
    for name, ans in zip(names, answers):
        if isinstance(ans, dict) and 'model_error' in ans:
            return {'model_error': ans['model_error']}
        items = ans if isinstance(ans, list) else [ans]
        covs, precs = [], []
        for it in items:
            covs.append(_mat(case, it['cov']))
            precs.append(_mat(case, it['prec'], exact=True))
            info.append({'est': name, 'clip': it['clip'], 'lam': _num(case, it['lam']),
                         'singular': it['cov'] is not None and it['prec'] is None,
                         'raises': it['cov'] is None,
                         'econd': _econd(covs[-1], precs[-1]) if precs[-1] is not None else None,
                         'index': len(covs) - 1})
        res['calls'][name + ':cov'] = covs
        res['calls'][name + ':prec'] = precs
    _model_info[_key(case)] = info
    return res


# ------------------------------------------------------------------ comparison

def _maxabs(m):
    return max((abs(v) for r in m for v in r), default=0.0)


def _mat_diff(a, b, rtol, atol, what):
    for j, (ra, rb) in enumerate(zip(a, b)):
        for k, (x, y) in enumerate(zip(ra, rb)):
            if not (np.isfinite(x) and np.isfinite(y)) or abs(x - y) > atol + rtol * max(abs(x), abs(y)):
                return f'{what}[{j}][{k}]: impl {x!r} != model {y!r}'
    return None


def _cond(cov, prec):
    p = len(cov)
    return p * _maxabs(cov) * p * _maxabs(prec)


# ---- round 5: equilibration.  C is a covariance: with D = diag(2^e_j), 4^e_j ~ C_jj, the matrix
# C' = D^-1 C D^-1 has a diagonal in [1/2, 2]; P is the inverse of C iff P' = D P D is the inverse of C'
# (theorem `prec_equilibrated`).  Multiplying by powers of two is exact, so nothing is lost; what is gained
# is that tolerances apply per channel: an entry P_jk is judged relative to 1 / sqrt(C_jj C_kk), not
# relative to the largest entry of the matrix.

GRADED = 10          # a matrix is 'graded' when its scale exponents span more than this (2^10 in std)


def _pow2_exps(diag):
    """e_j with 4^e_j ~ diag_j (0 for a zero / non-finite entry)"""
    out = []
    for v in diag:
        try:
            v = float(v)
        except (OverflowError, ValueError):
            v = 0.0
        out.append(int(round(math.log2(v) / 2)) if v > 0 and math.isfinite(v) else 0)
    return out


def _equil(m, e, sign):
    """sign = -1: covariance (entry j,k times 2^-(e_j+e_k)); +1: precision"""
    return [[math.ldexp(v, sign * (e[j] + e[k])) if math.isfinite(v) else v for k, v in enumerate(r)]
            for j, r in enumerate(m)]


def _econd(cov, prec):
    """p^2 max|C'| max|P'| of the equilibrated pair (an upper bound of the 2-norm condition number)"""
    e = _pow2_exps(_diag(cov))
    return _cond(_equil(cov, e, -1), _equil(prec, e, +1))


def _unit(e):
    """text for a message: the exponents, when the rescaling is more than cosmetic"""
    if e and (max(e) - min(e) > 3 or max(abs(x) for x in e) > 8):
        return f' (equilibrated: entries rescaled by the channel exponents {e})'
    return ''


def _diag(m):
    return [m[j][j] for j in range(len(m))]


def _is_diagonal(m):
    return all(m[j][k] == 0 for j in range(len(m)) for k in range(len(m)) if j != k)


def _prec_abs(e):
    """absolute part of the precision tolerance in the equilibrated metric.  np.linalg.inv is an LU
    with partial (row) pivoting: on a graded matrix the pivot order follows the channel scales, not the
    sizes of the equilibrated entries, and the error in the equilibrated metric is a few 1e-11 instead of
    1e-16 (40 000 sampled inputs: max 3.1e-11) -- still nine orders below a dropped channel (error 1)"""
    return 1e-6 if e and max(e) - min(e) > GRADED else _T['prec_a']


def _lu_allow(e, j, k):
    """what np.linalg.inv (LU with partial pivoting, normwise backward stable) cannot be asked for: on a
    graded matrix the entry (j, k), j != k, of the computed inverse carries a cancellation error of
    unit round-off x the *largest* entry, which in the equilibrated metric is u * 2^|e_j - e_k| (found on
    the unchanged tree: channels 2^-46 and 2^+10 with exactly zero covariance, P'_01 = 1.4 instead of 0,
    corpus/C14/graded-inverse-offdiagonal.json).  Diagonal entries get no allowance: (C P)_jj, (P C)_jj
    and P'_jj are invariant under the rescaling and are demanded of every channel."""
    return 0.0 if j == k else 1e-14 * 2.0 ** abs(e[j] - e[k])


def _prec_diff(ie, me, e, tol, what):
    """entry-wise comparison of two equilibrated precisions"""
    big = _maxabs(me)
    for j, (ra, rb) in enumerate(zip(ie, me)):
        for k, (x, y) in enumerate(zip(ra, rb)):
            if not (np.isfinite(x) and np.isfinite(y)) or abs(x - y) > tol + _lu_allow(e, j, k) * big:
                return f'{what}[{j}][{k}]: impl {x!r} != model {y!r}'
    return None


def _singular_outcome(cov_e, prec_e):
    """what a *returned* matrix for an exactly singular covariance is (both equilibrated):
    'nonfinite' (inf / nan: explicitly no inverse), 'garbage' (rounding hid the zero pivot: entries of
    size >= 1 / (unit round-off), the matrix itself says 'condition number beyond every claim') or
    'finite' (a moderate-sized matrix passed off as the precision: to be judged)"""
    if not all(math.isfinite(v) for r in prec_e for v in r):
        return 'nonfinite'
    return 'garbage' if _cond(cov_e, prec_e) > _T['cond_max'] else 'finite'


def _short_dof(case):
    return isinstance(case['dof'], list) and len(case['dof']) < len(case['inputs'])


def compare(case, impl, model):
    if case['kind'] == 'session':
        return SES.compare(case, impl, model)
    _set_tol(case)
    if 'model_error' in model:
        return f"model error {model['model_error']}"
    # the exception a call the model rejects must raise: a dof sequence shorter than the input
    # list is indexed past its end; otherwise the only rejection is np.stack on an unbalanced design
    rejects_with = 'IndexError' if _short_dof(case) else 'ValueError'
    if model.get('rejects'):
        for call, r in impl['calls'].items():
            if not (isinstance(r, dict) and r.get('exc') in ('ValueError', 'IndexError')):
                return f'{call}: a {case["form"]} array is not a residual matrix, impl did not reject it'
        return None
    for call, mres in model['calls'].items():
        est, which = call.split(':')
        ires = impl['calls'].get(call)
        if ires is None and case.get('_sub'):
            continue               # one estimator call of a session: only the function that was called
        mcov = model['calls'][est + ':cov']
        raises = [c is None for c in mcov]
        if isinstance(ires, dict) and 'exc' in ires:
            if which == 'cov':
                if any(raises) and ires['exc'] == rejects_with:
                    continue
                return f'{call}: impl raises {ires["exc"]}, model ' + (
                    f'expects {rejects_with}' if any(raises) else 'returns a value')
            # prec: an exception is acceptable only if the covariance itself raises or a
            # covariance is singular / ill-conditioned (LinAlgError)
            if any(raises) and ires['exc'] == rejects_with:
                continue
            sing = [pm is None or _econd(cm, pm) > _T['cond_max']
                    for cm, pm in zip(mcov, model['calls'][est + ':prec']) if cm is not None]
            if ires['exc'] == 'LinAlgError' and any(sing):
                continue
            return f'{call}: impl raises {ires["exc"]}, model returns a value'
        if any(raises):
            return f'{call}: model says the library raises, impl returned a value'
        want_container = 'ndarray' if case['form'] == 'single' else 'list'
        if ires['container'] != want_container:
            return f"{call}: returned container {ires['container']}, expected {want_container}"
        if len(ires['items']) != len(mres):
            return f"{call}: {len(ires['items'])} results for {len(mres)} inputs"
        for i, (im, mm) in enumerate(zip(ires['items'], mres)):
            if isinstance(im, dict):
                return f"{call}[{i}]: {im['bad']}"
            # everything below in the equilibrated metric of the model's covariance (exact rescaling)
            e = _pow2_exps(_diag(mcov[i]))
            cm = _equil(mcov[i], e, -1)
            unit = _unit(e)
            if which == 'cov':
                d = _mat_diff(_equil(im, e, -1), cm, _T['rtol'], _T['atol'] + _T['rel_scale'] * _maxabs(cm),
                              f'{call}[{i}]')
                if d:
                    return d + unit
            else:
                ie = _equil(im, e, +1)
                if mm is None:
                    # exactly singular covariance: LinAlgError (handled above), an explicitly non-finite
                    # matrix or the huge entries of a zero pivot hidden by rounding are acceptable; a finite
                    # moderate-sized 'precision' is a disagreement (the oracle judges it)
                    if _singular_outcome(cm, ie) == 'finite':
                        return (f'{call}[{i}]: a finite matrix (claimed condition number {_cond(cm, ie):.3g}) '
                                f'was returned as the precision of an exactly singular covariance' + unit)
                    continue
                me = _equil(mm, e, +1)
                if _cond(cm, me) > _T['cond_max']:
                    continue           # ill-conditioned also per channel: the property is silent
                tol = _T['prec_c'] * _cond(cm, me) * _maxabs(me) + _prec_abs(e) * _maxabs(me)
                d = _prec_diff(ie, me, e, tol, f'{call}[{i}]')
                if d:
                    return d + unit
                if _is_diagonal(mcov[i]):
                    # a diagonal covariance: P_jj * C_jj = 1 for every channel, whatever its scale
                    for j in range(len(im)):
                        if not abs(im[j][j] * mcov[i][j][j] - 1.0) <= max(1e-9, _T['prec_a']):
                            return (f'{call}[{i}]: P[{j}][{j}] * C[{j}][{j}] = {im[j][j] * mcov[i][j][j]!r} '
                                    f'!= 1 (diagonal covariance, channel variance {mcov[i][j][j]!r})')
    if impl['unchanged'] != model['unchanged']:
        return 'input was modified by the call'
    return None


# ------------------------------------------------------------------ oracle
# direct transcription of the property statement: Fractions for the expected covariance,
# plain loops; the real code supplies the observed values.

def _resid_spec(inp, kind):
    """exact residuals around the (per-condition) means, #rows and #conditions"""
    rows = [[_fr(x) for x in r] for r in inp['rows']]
    n = len(rows)
    p = len(rows[0]) if rows else 0
    labels = inp['labels'] if kind == 'dataset' else [0] * n
    conds = []
    for lab in labels:
        if lab not in conds:
            conds.append(lab)
    res = []
    for i in range(n):
        mates = [rows[q] for q in range(n) if labels[q] == labels[i]]
        mean = [sum(m[j] for m in mates) / len(mates) for j in range(p)]
        res.append([rows[i][j] - mean[j] for j in range(p)])
    counts = [sum(1 for lab in labels if lab == c) for c in conds]
    return res, n, len(conds), counts


def _spec_cov(inp, kind, dof):
    """pooled residual covariance (exact) with the stated dof"""
    res, n, n_cond, counts = _resid_spec(inp, kind)
    p = len(res[0])
    if dof is None:
        dof = F(n - n_cond)
    if dof == 0:
        return None, counts
    s = [[sum(r[j] * r[k] for r in res) / dof for k in range(p)] for j in range(p)]
    return s, counts


def _fail(what, observed, expected, **feat):
    return {'what': what, 'observed': observed, 'expected': expected, 'features': feat}


def _close(x, y, scale=0.0):
    return np.isfinite(x) and abs(x - y) <= _T['atol'] + _T['rtol'] * max(abs(x), abs(y), scale)


def _check_estimate(method, cov, S, tag):
    """is `cov` the estimate the property describes, given the exact full covariance S?"""
    p = len(S)
    Sf = [[float(v) for v in r] for r in S]
    scale = max(_maxabs(Sf), 1e-300)
    if not all(np.isfinite(v) for r in cov for v in r):
        degenerate = (p == 1) or (
            all(Sf[j][k] == 0 for j in range(p) for k in range(p) if j != k)
            and (method != 'shrinkage_eye' or len({Sf[j][j] for j in range(p)}) == 1))
        return _fail(f'{tag}: estimate is not finite', cov, Sf, defect='nonfinite',
                     target_equals_cov=bool(degenerate))
    if method == 'full':
        T, lam_free = Sf, False
    elif method == 'diag':
        T, lam_free = [[Sf[j][k] if j == k else 0.0 for k in range(p)] for j in range(p)], False
    elif method == 'shrinkage_eye':
        tr = float(sum(S[j][j] for j in range(p)) / p)
        T, lam_free = [[tr if j == k else 0.0 for k in range(p)] for j in range(p)], True
    else:
        T, lam_free = [[Sf[j][k] if j == k else 0.0 for k in range(p)] for j in range(p)], True
    # scale-aware: all three matrices in the equilibrated metric of max(S_jj, T_jj) (exact rescaling; the
    # convex-combination identity is entry-wise, definiteness is invariant under the congruence)
    ex = _pow2_exps([max(Sf[j][j], T[j][j]) for j in range(p)])
    cov, Sf, T = _equil(cov, ex, -1), _equil(Sf, ex, -1), _equil(T, ex, -1)
    scale = max(_maxabs(Sf), 1e-300)
    tag = tag + _unit(ex)
    for j in range(p):
        for k in range(p):
            if not _close(cov[j][k], cov[k][j], scale):
                return _fail(f'{tag}: estimate is not symmetric', cov, Sf, defect='asymmetric')
    if not lam_free:
        want = Sf if method == 'full' else T
        for j in range(p):
            for k in range(p):
                if not _close(cov[j][k], want[j][k], scale):
                    return _fail(f"{tag}: '{method}' estimate differs from the pooled residual "
                                 f'covariance{" diagonal" if method == "diag" else ""} at [{j}][{k}]',
                                 cov[j][k], want[j][k], defect='value', ratio=_ratio(cov[j][k], want[j][k]))
        return None
    # convex combination lam*T + (1-lam)*S : recover lam where T and S differ most
    best, bj, bk = 0.0, 0, 0
    for j in range(p):
        for k in range(p):
            if abs(T[j][k] - Sf[j][k]) > best:
                best, bj, bk = abs(T[j][k] - Sf[j][k]), j, k
    if best <= max(1e-9, 10 * _T['eps']) * scale:
        # target and covariance (nearly) coincide: every intensity in [0,1] gives (nearly) the same
        # matrix, so the intensity cannot be recovered; each entry must lie between the two
        for j in range(p):
            for k in range(p):
                lo, hi = min(T[j][k], Sf[j][k]), max(T[j][k], Sf[j][k])
                tol = _T['atol'] + _T['rtol'] * max(abs(lo), abs(hi), scale)
                if not lo - tol <= cov[j][k] <= hi + tol:
                    return _fail(f'{tag}: estimate is not a convex combination of the covariance and its '
                                 f'target at [{j}][{k}]', cov[j][k], [lo, hi], defect='combination',
                                 ratio=_ratio(cov[j][k], Sf[j][k]))
        lam = None
    else:
        lam = (cov[bj][bk] - Sf[bj][bk]) / (T[bj][bk] - Sf[bj][bk])
    if lam is not None and not -_T['eps'] <= lam <= 1 + _T['eps']:
        return _fail(f'{tag}: shrinkage intensity outside [0,1]', lam, '[0,1]', defect='intensity',
                     ratio=_ratio(cov[bj][bk], Sf[bj][bk]))
    for j in range(p):
        for k in range(p):
            if lam is None:
                break
            want = lam * T[j][k] + (1 - lam) * Sf[j][k]
            if not _close(cov[j][k], want, scale):
                return _fail(f'{tag}: estimate is not a convex combination of the covariance and its '
                             f'target at [{j}][{k}] (intensity {lam:.6g})', cov[j][k], want,
                             defect='combination', ratio=_ratio(cov[j][k], want))
    ev = np.linalg.eigvalsh(np.array(cov))
    if ev.min() < -_T['eps'] * scale:
        return _fail(f'{tag}: estimate is not positive semi-definite', float(ev.min()), '>= 0', defect='psd')
    tdiag = min(T[j][j] for j in range(p))
    if lam is not None and lam > _T['pd_lam'] and tdiag > _T['eps'] * scale \
            and ev.min() <= _T['pd_eig'] * scale:
        return _fail(f'{tag}: shrinkage active but estimate not positive definite', float(ev.min()),
                     '> 0', defect='pd')
    return None


def _ratio(a, b):
    try:
        return round(a / b, 6) if b else None
    except (ZeroDivisionError, OverflowError, ValueError):
        return None


def _cond_of(cov):
    c = np.array(cov)
    if not np.all(np.isfinite(c)) or not c.size:
        return np.inf
    with np.errstate(all='ignore'):
        cond = np.linalg.cond(c)
    return cond if np.isfinite(cond) else np.inf


def _ecov(cov):
    """the equilibrated covariance and its exponents"""
    e = _pow2_exps(_diag(cov))
    return _equil(cov, e, -1), e


def _invertible(cov):
    return not isinstance(cov, dict) and _cond_of(_ecov(cov)[0]) <= _T['cond_max']


def _check_prec(cov, prec, tag):
    """`prec` must be the matrix inverse of `cov` -- judged in the equilibrated metric (C' = D^-1 C D^-1,
    P' = D P D; P C = I iff P' C' = I), so that every channel counts whatever its scale.  Silent only when
    C' is ill-conditioned / singular AND the returned matrix does not claim otherwise (its entries are of
    the size an inverse of such a matrix must have, or not finite, or the call raised)."""
    ce, e = _ecov(cov)
    c = np.array(ce)
    cond = _cond_of(ce)
    unit = _unit(e)
    if isinstance(prec, dict):
        if cond > _T['cond_max']:
            return None
        return _fail(f'{tag}: precision call failed although the covariance is invertible{unit}',
                     prec, 'inverse', defect='prec')
    pe = _equil(prec, e, +1)
    finite = all(math.isfinite(v) for r in pe for v in r)
    claimed = _cond(ce, pe) if finite else math.inf
    if cond > _T['cond_max'] and claimed > _T['cond_max']:
        return None
    pr = np.array(pe)
    n_ch = len(cov)
    with np.errstate(all='ignore'):
        right = np.abs(c @ pr - np.eye(n_ch))          # C' P' - I
        left = np.abs(pr @ c - np.eye(n_ch))           # P' C' - I
    k_ = min(cond, claimed)
    base = _T['prec_co'] * k_ + _prec_abs(e)
    # every channel: (C P)_jj = (P C)_jj = 1 (invariant under the rescaling); off the diagonal the
    # allowance of an LU inverse on a graded matrix (`_lu_allow`) is added
    err = 0.0
    for j in range(n_ch):
        for l in range(n_ch):
            for v in (right[j][l], left[j][l]):
                if not np.isfinite(v):
                    err = float('inf')
                elif v > base + _lu_allow(e, j, l) * max(1.0, k_):
                    err = max(err, float(v))
    if err > 0:
        bad = [j for j in range(len(cov)) if not abs(sum(ce[j][l] * pe[l][j] for l in range(len(cov))) - 1) <= 1e-6]
        if cond <= _T['cond_max']:
            what = f'{tag}: precision is not the inverse of the covariance (invertible, condition ' \
                   f'{cond:.3g} per channel scale; max |C P - I|, channels not inverted: {bad}){unit}'
        else:
            what = f'{tag}: a finite matrix ' + ('' if _maxabs(ce) else '(for an all-zero covariance) ') + \
                   f'of moderate size (claimed condition {claimed:.3g}) was returned as ' \
                   f'the precision of a singular / ill-conditioned covariance (condition {cond:.3g}) and is ' \
                   f'not its inverse (max |C P - I|){unit}'
        return _fail(what, float(err), 0.0, defect='prec', channels_not_inverted=bad,
                     singular=bool(cond > _T['cond_max']),
                     diag_PC=[float(sum(ce[j][l] * pe[l][j] for l in range(len(cov)))) for j in range(len(cov))])
    if _is_diagonal(cov) and cond <= _T['cond_max']:
        # diagonal covariance ('diag', or a shrinkage estimate that reached its target):
        # P_jj * C_jj = 1 for every channel
        for j in range(len(cov)):
            if not abs(prec[j][j] * cov[j][j] - 1.0) <= max(1e-9, _T['prec_a']):
                return _fail(f'{tag}: P[{j}][{j}] * C[{j}][{j}] != 1 on a diagonal covariance',
                             float(prec[j][j] * cov[j][j]), 1.0, defect='prec', channels_not_inverted=[j])
    return None


def oracle(case):
    if case['kind'] == 'session':
        return SES.oracle(case)
    if case['kind'] == 'malformed' or not _valid(case):
        return None            # outside the case space the property / assumptions describe
    _set_tol(case)
    impl = run_impl(case)
    kind, method, form, p = case['kind'], case['method'], case['form'], case['p']
    n_in = len(case['inputs'])
    dofs = case['dof']
    feat = {'kind': kind, 'method': method, 'form': form, 'dofkind': _dof_kind(case)}

    def dof_of(i):
        if dofs is None:
            return None
        return _fr(dofs[i]) if isinstance(dofs, list) else _fr(dofs)

    ests = ['residuals'] if kind == 'residuals' else ['measurements', 'unbalanced']
    specs = [_spec_cov(inp, kind, dof_of(i)) for i, inp in enumerate(case['inputs'])]
    got = {}
    for est in ests:
        cov = impl['calls'][est + ':cov']
        prec = impl['calls'][est + ':prec']
        balanced = all(len(set(c)) == 1 for _, c in specs)
        if 'exc' in cov:
            # the only rejection the property allows: the measurement tensor of an
            # unbalanced design cannot be built
            if est == 'measurements' and form == 'single' and not balanced and cov['exc'] == 'ValueError':
                continue
            o = _fail(f'{est}: covariance call raised {cov["exc"]}', cov, 'one estimate per input',
                      defect='raises', est=est)
            o['features'].update(feat)
            return o
        want_container = 'ndarray' if form == 'single' else 'list'
        if cov['container'] != want_container or len(cov['items']) != n_in or \
                any(isinstance(x, dict) for x in cov['items']):
            o = _fail(f'{est}: a list input must yield one channel x channel estimate per element',
                      {'container': cov['container'],
                       'items': [x['bad'] if isinstance(x, dict) else 'matrix' for x in cov['items']]},
                      f'{want_container} of {n_in} matrices {p}x{p}', defect='nesting', est=est)
            o['features'].update(feat)
            return o
        for i, c in enumerate(cov['items']):
            S, _ = specs[i]
            if S is None:
                continue
            o = _check_estimate(method, c, S, f'{est}[{i}]')
            if o:
                o['features'].update(feat, est=est)
                return o
            if 'exc' in prec and not all(_invertible(x) for x in cov['items']):
                continue       # inverting the whole list failed on a singular element: no claim
            pi = prec if 'exc' in prec else (
                prec['items'][i] if i < len(prec['items']) else {'bad': 'missing'})
            if isinstance(pi, dict) and 'bad' in pi:
                pi = {'exc': pi['bad']}
            o = _check_prec(c, pi, f'{est}[{i}]')
            if o:
                o['features'].update(feat, est=est)
                return o
        got[est] = cov['items']
    if 'measurements' in got and 'unbalanced' in got:
        for i, (a, b) in enumerate(zip(got['measurements'], got['unbalanced'])):
            eb = _pow2_exps(_diag(b))
            a, b = _equil(a, eb, -1), _equil(b, eb, -1)
            d = _mat_diff(a, b, _T['rtol'], _T['atol'] + _T['rel_scale'] * _maxabs(b), f'[{i}]')
            if d:
                o = _fail('measurement-based and unbalanced estimators differ on a balanced design', d,
                          'equal', defect='value', est='measurements')
                o['features'].update(feat)
                return o
    if not impl['unchanged']:
        o = _fail('the input was modified by the call', 'modified', 'unchanged', defect='mutation')
        o['features'].update(feat)
        return o
    return None


# ------------------------------------------------------------------ features

def _scale_info(case):
    """channel scales of a case, from the exact residual variances of every input:
    'channels-1e15' = within one input the non-zero channel variances span a factor > 1e15,
    'tiny' = some channel has a non-zero variance < 1e-24, 'uniform-tiny' = every channel of an input has,
    'moderate' = span between 1e4 and 1e15"""
    br, cls = set(), 'ordinary'
    for inp in case['inputs']:
        res, n, _, _ = _resid_spec(inp, case['kind'])
        if not res:
            continue
        var = [sum(r[j] * r[j] for r in res) / n for j in range(len(res[0]))]
        nz = [v for v in var if v != 0]
        if not nz:
            continue
        span = max(nz) / min(nz)
        if span > 10 ** 15:
            br.add('scale:channels-1e15')
        elif span > 10 ** 4:
            br.add('scale:moderate')
        if min(nz) < F(1, 10 ** 24):
            br.add('scale:tiny')
            if max(nz) < F(1, 10 ** 24):
                br.add('scale:uniform-tiny')
    extreme = bool(br - {'scale:moderate'})
    if br:
        cls = 'extreme' if extreme else 'moderate'
        if case['form'] != 'single':
            br.add('scale:list')
        if case['kind'] == 'dataset':
            br.add('scale:dataset')
        if case['dof'] is not None:
            br.add('scale:dof-passed')
    return {'branches': sorted(br), 'class': cls, 'extreme': extreme}


def features(case, impl):
    kind, form, method, p = case['kind'], case['form'], case['method'], case['p']
    if kind == 'session':
        return SES.features(case, impl)
    if kind == 'malformed':
        return {'kind': kind, 'method': method, 'form': form, 'branches': ['malformed:' + form]}
    br = ['method:' + method, 'dof:' + _dof_kind(case)]
    balanced = None
    if kind == 'residuals':
        br.append('res:' + form)
        if form != 'single' and _dof_kind(case) == 'list':
            br.append('res:list+dof:list')
    else:
        counts = []
        for inp in case['inputs']:
            c = {}
            for lab in inp['labels']:
                c[lab] = c.get(lab, 0) + 1
            counts.append(sorted(c.values()))
        balanced = all(len(set(c)) == 1 for c in counts)
        br.append('ds:list' if form != 'single' else
                  'ds:single:' + ('balanced' if balanced else 'unbalanced'))
    br.append('dtype:' + case.get('dtype', 'float64'))
    if case.get('labels_as') == 'str':
        br.append('labels:str')
    if case.get('dof_as'):
        br.append('dof:' + case['dof_as'])
    if kind == 'dataset' and any(len(set(i['labels'])) == 1 for i in case['inputs']):
        br.append('ds:one-condition')
    ps = _ps(case)
    if 1 in ps:
        br.append('p=1')
    if any(q > len(i['rows']) for q, i in zip(ps, case['inputs'])):
        br.append('p>n')
    if len(set(ps)) > 1:
        br.append('list:mixed-p')
    if isinstance(case['dof'], list) and len(case['dof']) != len(case['inputs']):
        br.append('dof:list:short' if _short_dof(case) else 'dof:list:long')
    if case.get('style'):
        br.append('call:' + case['style'])
    if case.get('desc'):
        br.append('desc:renamed')
    if case.get('decoy'):
        br.append('desc:decoy')
    if case.get('container'):
        br.append('container:' + case['container'])
    if case.get('layout'):
        br.append('layout:' + case['layout'])
    if kind == 'dataset' and any(_first_seen(i['labels']) != sorted(set(i['labels'])) for i in case['inputs']):
        br.append('ds:labels-unsorted')
    const = any(not _ok_variances(i, kind) for i in case['inputs'])
    if const and method != 'shrinkage_diag':
        br.append('const-channel:' + method)
    info = _model_info.get(_key(case), [])
    sc = _scale_info(case)
    br += sc['branches']
    degenerate = False
    for it in info:
        if it['clip']:
            if it['clip'] == 'deg':
                br.append('intensity:degenerate')
                degenerate = True
                if method == 'shrinkage_eye' and case['dof'] is not None:
                    br.append('eye:deg:dof-passed')
            elif it['clip'] == 'const':
                br.append('sdiag:const')
                degenerate = True
            else:
                br.append(('eye:' if method == 'shrinkage_eye' else 'sdiag:') + it['clip'])
        if it['singular']:
            br.append('prec:singular')
        if it.get('econd') is not None and it['econd'] <= (1e3 if case.get('dtype') == 'float32' else COND_MAX):
            br.append('prec:compared')            # decided by the exact model, not by what the library did
            if sc['extreme']:
                br += ['scale:prec-judged', 'scale:prec-judged:' + method]
        if it.get('raises') and it['est'] == 'measurements' and not _short_dof(case):
            br.append('measurements:ValueError')  # the model's verdict; the library's is compared
    if impl is not None:
        for call, r in impl['calls'].items():
            if call.endswith(':prec') and isinstance(r, dict) \
                    and 'items' in (impl['calls'].get(call.split(':')[0] + ':cov') or {}) \
                    and any(it['singular'] for it in info if it['est'] == call.split(':')[0]):
                # the outcome of np.linalg.inv on an exactly singular covariance
                # (informational tags, not required: they describe the library, not the input)
                br.append('prec:singular:LinAlgError' if r.get('exc') == 'LinAlgError' else
                          'prec:singular:returned' if 'items' in r else 'prec:singular:other')
    return {'kind': kind, 'method': method, 'form': form, 'dofkind': _dof_kind(case), 'p': p,
            'dtype': case.get('dtype', 'float64'), 'const_channel': const,
            'layout': case.get('layout', 'C'), 'style': case.get('style', 'kw'),
            'n_inputs': len(case['inputs']), 'balanced': balanced, 'degenerate': degenerate,
            'scale_class': sc['class'],
            'branches': sorted(set(br))}


def nontrivial_key(case, impl):
    if case['kind'] == 'session':
        return SES.nontrivial_key(case, impl)
    if case['kind'] == 'malformed':
        return None
    if impl is None or not any(isinstance(r, dict) and 'items' in r for r in impl['calls'].values()):
        return None
    return [case['kind'], case['method'], case['form'], case['dof'], case['inputs'],
            case.get('dtype'), case.get('labels_as'), case.get('dof_as'), case.get('layout'),
            case.get('style'), case.get('desc'), case.get('decoy'), case.get('container')]


# ------------------------------------------------------------------ generation

def _val(rng, halves):
    v = rng.randint(-6, 6)
    if halves and rng.random() < 0.3:
        return rat(F(2 * v + 1, 2))
    return v


def _first_seen(labels):
    out = []
    for lab in labels:
        if lab not in out:
            out.append(lab)
    return out


def _ok_variances(inp, kind):
    """every channel has non-zero residual variance"""
    res, _, _, _ = _resid_spec(inp, kind)
    p = len(res[0])
    return all(any(r[j] != 0 for r in res) for j in range(p))


def _valid(case):
    """inside the stated case space (see RULE / ASSUMPTIONS)?"""
    for inp in case['inputs']:
        n = len(inp['rows'])
        if n < 2 or any(len(r) != inp.get('p', case['p']) for r in inp['rows']):
            return False
        if case['kind'] == 'dataset':
            if len(inp['labels']) != n or n - len(set(inp['labels'])) < 1:
                return False
    if case['form'] != 'list' and len(set(_ps(case))) > 1:
        return False
    if case['form'] == 'array3' and len({len(i['rows']) for i in case['inputs']}) > 1:
        return False
    if case.get('dtype') == 'int64' and any(_fr(x).denominator != 1 for i in case['inputs']
                                            for r in i['rows'] for x in r):
        return False
    if isinstance(case['dof'], list) and len(case['dof']) != len(case['inputs']):
        return False
    return True


def _rows(rng, n, p, halves):
    return [[_val(rng, halves) for _ in range(p)] for _ in range(n)]


def _constify(rng, inp, kind):
    """make one channel carry no residual variance: the same value in every row, or (datasets)
    one value per condition"""
    p = len(inp['rows'][0])
    j = rng.randrange(p)
    if kind == 'dataset' and rng.random() < 0.5:
        val = {lab: rng.randint(-6, 6) for lab in set(inp['labels'])}
        for r, lab in zip(inp['rows'], inp['labels']):
            r[j] = val[lab]
    else:
        v = rng.randint(-6, 6)
        for r in inp['rows']:
            r[j] = v
    return inp


def _residual_input(rng, n, p, method, const=None):
    """const: True = one constant channel, False = every channel varies, None = 12 % constant"""
    if const is None:
        const = rng.random() < 0.12
    for _ in range(50):
        inp = {'rows': _rows(rng, n, p, rng.random() < 0.3)}
        if const:
            return _constify(rng, inp, 'residuals')
        if _ok_variances(inp, 'residuals'):
            return inp
    return {'rows': [[(i * (j + 2) + i * i) % 7 for j in range(p)] for i in range(n)]}


def _dataset_input(rng, p, method, balanced, n_cond=None, n_rep=None, const=None):
    if const is None:
        const = rng.random() < 0.12
    for _ in range(50):
        n_cond = n_cond or rng.choice([1, 2, 2, 3, 3, 4, 5])
        labs = rng.sample(range(0, 30), n_cond)
        if balanced or n_cond == 1:
            r = n_rep or rng.randint(2, 5)
            counts = [r] * n_cond
        else:
            counts = [rng.randint(1, 4) for _ in labs]
            if len(set(counts)) == 1:
                counts[0] += 1
        labels = [lab for lab, c in zip(labs, counts) for _ in range(c)]
        rng.shuffle(labels)
        inp = {'rows': _rows(rng, len(labels), p, rng.random() < 0.3), 'labels': labels}
        if len(labels) - n_cond < 1:
            continue
        if const:
            return _constify(rng, inp, 'dataset')
        if _ok_variances(inp, 'dataset'):
            return inp
    raise RuntimeError('could not generate a dataset')


def _dof_for(rng, inputs, kind, form):
    r = rng.random()
    if r < 0.45:
        return None

    def one(inp):
        n = len(inp['rows'])
        d = rng.randint(1, max(1, n))
        return rat(F(2 * d + 1, 2)) if rng.random() < 0.15 else d
    if form != 'single' and r < 0.8:
        return [one(i) for i in inputs]
    return one(inputs[0])


def _random_case(rng):
    method = rng.choice(METHODS)
    kind = rng.choice(['residuals', 'dataset'])
    p = rng.choice([1, 2, 2, 3, 3, 4, 5, 6])
    form = rng.choice(['single', 'single', 'list', 'list', 'array3'] if kind == 'residuals'
                      else ['single', 'single', 'single', 'list'])
    k = 1 if form == 'single' else rng.randint(1, 3)
    mixed = form == 'list' and k > 1 and rng.random() < 0.25      # elements with their own channel count
    ps = [rng.choice([1, 2, 3, 4]) if mixed and i else p for i in range(k)]
    if kind == 'residuals':
        if form == 'array3':
            n = rng.randint(2, 9)
            inputs = [_residual_input(rng, n, p, method) for _ in range(k)]
        else:
            inputs = [_residual_input(rng, rng.randint(2, 12), q, method) for q in ps]
    else:
        balanced = rng.random() < 0.65
        inputs = [_dataset_input(rng, q, method, balanced) for q in ps]
    for q, inp in zip(ps, inputs):
        if q != p:
            inp['p'] = q
    case = {'kind': kind, 'method': method, 'p': p, 'inputs': inputs, 'form': form,
            'dof': _dof_for(rng, inputs, kind, form)}
    if isinstance(case['dof'], list) and rng.random() < 0.08:       # malformed: wrong length
        if rng.random() < 0.5 and len(case['dof']) > 1:
            case['dof'] = case['dof'][:-1]
        else:
            case['dof'] = case['dof'] + [3]
    return _decorate(rng, case)


def _intify(inp):
    out = dict(inp)
    out['rows'] = [[int(_fr(x) // 1) for x in r] for r in inp['rows']]
    return out


def _decorate(rng, case, dtype=None, labels_as=None, dof_as=None, layout=None, style=None, desc=None,
              decoy=None, container=None):
    """representation choices the property quantifies over silently: array dtype (float64,
    integer counts, float32), label type (int / str), container of the dof argument, memory
    layout, call style, descriptor name / decoy descriptor, list vs tuple"""
    dtype = dtype or rng.choice(['float64'] * 6 + ['int64', 'int64', 'float32', 'float32'])
    if dtype == 'int64':
        case['inputs'] = [_intify(i) for i in case['inputs']]
    if dtype != 'float64':
        case['dtype'] = dtype
    layout = layout or rng.choice(['C'] * 5 + ['F', 'strided', 'readonly'])
    if layout != 'C' and not (layout == 'strided' and case['form'] == 'array3'):
        case['layout'] = layout
    style = style or rng.choice(['kw'] * 3 + ['pos', 'default'])
    if style != 'kw':
        case['style'] = style
    if case['kind'] == 'dataset':
        if desc or (desc is None and rng.random() < 0.3):
            case['desc'] = desc or 'stim'
        if decoy or (decoy is None and rng.random() < 0.3):
            case['decoy'] = True
    if case['form'] == 'list' and (container == 'tuple' or (container is None and rng.random() < 0.25)):
        case['container'] = 'tuple'
    if case['kind'] == 'dataset' and (labels_as or rng.choice(['int', 'int', 'str'])) == 'str':
        case['labels_as'] = 'str'
    if isinstance(case['dof'], list):
        how = dof_as or rng.choice(['list', 'list', 'tuple', 'ndarray'])
        if how != 'list':
            case['dof_as'] = how
    elif isinstance(case['dof'], int) and (dof_as == 'npint' or (dof_as is None and rng.random() < 0.25)):
        case['dof_as'] = 'npint'
    return case


def _structured(rng):
    """cases every run must contain (they reach the rarer branches by construction)"""
    for method in METHODS:
        # balanced design with #conditions != #repetitions, natural dof
        yield {'kind': 'dataset', 'method': method, 'p': 3, 'form': 'single', 'dof': None,
               'inputs': [_dataset_input(rng, 3, method, True, n_cond=3, n_rep=5)]}
        # list of residual matrices with a dof list
        inputs = [_residual_input(rng, n, 2, method) for n in (5, 7)]
        yield {'kind': 'residuals', 'method': method, 'p': 2, 'form': 'list', 'dof': [3, 5],
               'inputs': inputs}
        # more channels than samples
        yield {'kind': 'residuals', 'method': method, 'p': 5, 'form': 'single', 'dof': None,
               'inputs': [_residual_input(rng, 3, 5, method)]}
        # unbalanced design handed to both estimators
        yield {'kind': 'dataset', 'method': method, 'p': 2, 'form': 'single', 'dof': None,
               'inputs': [_dataset_input(rng, 2, method, False)]}
    for method in ('shrinkage_eye', 'shrinkage_diag'):
        # one channel: the covariance is its own target
        yield {'kind': 'residuals', 'method': method, 'p': 1, 'form': 'single', 'dof': None,
               'inputs': [_residual_input(rng, 6, 1, method)]}
        # two residual rows: intensity estimate at / below its lower clip
        yield {'kind': 'residuals', 'method': method, 'p': 3, 'form': 'single', 'dof': None,
               'inputs': [_residual_input(rng, 2, 3, method)]}
        # many rows, few channels: interior intensity
        yield {'kind': 'residuals', 'method': method, 'p': 2, 'form': 'single', 'dof': None,
               'inputs': [_residual_input(rng, 12, 2, method)]}
    for method in METHODS:
        # integer-valued (count) data, string labels
        yield _decorate(rng, {'kind': 'dataset', 'method': method, 'p': 2, 'form': 'single', 'dof': None,
                              'inputs': [_dataset_input(rng, 2, method, True, n_cond=3, n_rep=3)]},
                        dtype='int64', labels_as='str')
        yield _decorate(rng, {'kind': 'residuals', 'method': method, 'p': 3, 'form': 'array3',
                              'dof': [4, 6], 'inputs': [_residual_input(rng, 8, 3, method) for _ in range(2)]},
                        dtype='int64', dof_as='ndarray')
        # float32 data, a single condition, dof tuple
        yield _decorate(rng, {'kind': 'dataset', 'method': method, 'p': 2, 'form': 'list', 'dof': [3, 4],
                              'inputs': [_dataset_input(rng, 2, method, True, n_cond=1, n_rep=6),
                                         _dataset_input(rng, 2, method, True, n_cond=2, n_rep=4)]},
                        dtype='float32', dof_as='tuple')
        yield _decorate(rng, {'kind': 'residuals', 'method': method, 'p': 2, 'form': 'single', 'dof': 5,
                              'inputs': [_residual_input(rng, 9, 2, method)]},
                        dtype='float64', dof_as='npint')
    # exactly uncorrelated channels: covariance already diagonal
    yield {'kind': 'residuals', 'method': 'shrinkage_diag', 'p': 2, 'form': 'single', 'dof': None,
           'inputs': [{'rows': [[1, 1], [1, -1], [-1, 1], [-1, -1]]}]}
    yield {'kind': 'residuals', 'method': 'shrinkage_eye', 'p': 2, 'form': 'single', 'dof': None,
           'inputs': [{'rows': [[1, 1], [1, -1], [-1, 1], [-1, -1]]}]}
    # ---- round 3
    # covariance equal to its Ledoit-Wolf target with a *passed* dof (residuals, dataset, list):
    # the estimate must still carry that dof
    yield {'kind': 'residuals', 'method': 'shrinkage_eye', 'p': 2, 'form': 'single', 'dof': 7,
           'inputs': [{'rows': [[1, 1], [1, -1], [-1, 1], [-1, -1]]}]}
    yield {'kind': 'residuals', 'method': 'shrinkage_eye', 'p': 1, 'form': 'list', 'dof': [2, rat(F(9, 2))],
           'inputs': [_residual_input(rng, 5, 1, 'shrinkage_eye', const=False) for _ in range(2)]}
    yield {'kind': 'dataset', 'method': 'shrinkage_eye', 'p': 1, 'form': 'single', 'dof': 3,
           'inputs': [_dataset_input(rng, 1, 'shrinkage_eye', True, n_cond=2, n_rep=3, const=False)]}
    for method in METHODS:
        # a constant channel (no residual variance): residual matrix and dataset
        yield {'kind': 'residuals', 'method': method, 'p': 3, 'form': 'single', 'dof': None,
               'inputs': [_residual_input(rng, 6, 3, method, const=True)]}
        yield _decorate(rng, {'kind': 'dataset', 'method': method, 'p': 2, 'form': 'single', 'dof': None,
                              'inputs': [_dataset_input(rng, 2, method, True, n_cond=3, n_rep=2, const=True)]},
                        dtype='float64', layout='C', style='kw')
        # list elements with different channel counts, as a tuple
        inputs = [_residual_input(rng, 6, 3, method), dict(_residual_input(rng, 5, 2, method), p=2)]
        yield _decorate(rng, {'kind': 'residuals', 'method': method, 'p': 3, 'form': 'list',
                              'dof': [4, 3], 'inputs': inputs}, dtype='float64', container='tuple')
        inputs = [_dataset_input(rng, 2, method, False), dict(_dataset_input(rng, 4, method, True), p=4)]
        yield _decorate(rng, {'kind': 'dataset', 'method': method, 'p': 2, 'form': 'list',
                              'dof': None, 'inputs': inputs}, dtype='float64', container='list')
        # positional call, renamed descriptor behind a decoy, labels first seen in descending order
        inp = _dataset_input(rng, 2, method, True, n_cond=3, n_rep=2)
        order = sorted(set(inp['labels']), reverse=True)
        inp['labels'] = [order[i // 2] for i in range(6)]
        yield _decorate(rng, {'kind': 'dataset', 'method': method, 'p': 2, 'form': 'single', 'dof': 2,
                              'inputs': [inp]}, dtype='float64', style='pos', desc='stim', decoy=True)
        # everything left at its default, Fortran / strided / read-only arrays
        for layout in ('F', 'strided', 'readonly'):
            yield _decorate(rng, {'kind': 'residuals', 'method': method, 'p': 3, 'form': 'single',
                                  'dof': None, 'inputs': [_residual_input(rng, 7, 3, method)]},
                            dtype='float64', layout=layout, style='default')
        yield _decorate(rng, {'kind': 'dataset', 'method': method, 'p': 2, 'form': 'single', 'dof': None,
                              'inputs': [_dataset_input(rng, 2, method, True, n_cond=2, n_rep=3)]},
                        dtype='int64', layout='readonly', style='default')
    # malformed: dof sequence of the wrong length
    inputs = [_residual_input(rng, 5, 2, 'full') for _ in range(2)]
    yield {'kind': 'residuals', 'method': 'full', 'p': 2, 'form': 'list', 'dof': [3], 'inputs': inputs}
    yield {'kind': 'residuals', 'method': 'full', 'p': 2, 'form': 'array3', 'dof': [3, 4, 5], 'inputs': inputs}
    yield {'kind': 'dataset', 'method': 'diag', 'p': 2, 'form': 'list', 'dof': [3], 'dof_as': 'tuple',
           'inputs': [_dataset_input(rng, 2, 'diag', True) for _ in range(2)]}
    # not a matrix at all (rejected by the input check / inside the estimator)
    yield {'kind': 'malformed', 'method': 'full', 'p': 0, 'form': '0d', 'dof': None, 'inputs': []}
    yield {'kind': 'malformed', 'method': 'shrinkage_eye', 'p': 0, 'form': '1d', 'dof': None, 'inputs': []}
    # exactly singular covariances: zero pivot (LinAlgError) and rank deficiency hidden by rounding
    yield {'kind': 'residuals', 'method': 'full', 'p': 2, 'form': 'single', 'dof': None,
           'inputs': [{'rows': [[1, 0], [-1, 0], [2, 0]]}]}
    yield {'kind': 'residuals', 'method': 'full', 'p': 3, 'form': 'single', 'dof': None,
           'inputs': [{'rows': [[1, 2, 5], [3, 1, 1], [0, 3, 2]]}]}


# ---- round 5: extreme channel scales

def _scale_exps(rng, p, mode):
    """exponents e_j (channel j is multiplied by 2^e_j)"""
    if mode == 'span':                       # 2^-50 .. 2^+10 within one input: variances span >= 2^90
        e = [rng.randint(-50, 10) for _ in range(p)]
        if p > 1:
            lo, hi = rng.sample(range(p), 2)
            e[lo], e[hi] = rng.randint(-50, -45), rng.randint(0, 10)
        else:
            e[0] = rng.choice([-50, -44, 10])
        return e
    if mode == 'uniform-tiny':               # the whole input in tiny units (tesla)
        return [rng.randint(-50, -42)] * p
    if mode == 'two-groups':                 # the seeded scenario: unit-variance channels next to 1e-13 ones
        t = rng.randint(-50, -40)
        return [t if rng.random() < 0.5 else 0 for _ in range(p - 1)] + [t if p > 1 else 0]
    return [rng.randint(-24, 0) for _ in range(p)]      # 'moderate': variance spans up to 2^48


def _rescale(inp, e):
    inp['rows'] = [[rat(_fr(x) * F(2) ** e[j]) for j, x in enumerate(r)] for r in inp['rows']]
    return inp


def _scale_case(rng, method=None, mode=None, kind=None, form=None, p=None, dof='random'):
    """an ordinary case whose channels are multiplied by exact powers of two (the values stay exact
    dyadic rationals, float64 represents them exactly; no under- / overflow: |e| <= 50)"""
    method = method or rng.choice(METHODS)
    mode = mode or rng.choice(['span', 'span', 'span', 'two-groups', 'uniform-tiny', 'moderate'])
    kind = kind or rng.choice(['residuals', 'residuals', 'dataset'])
    form = form or rng.choice(['single', 'single', 'list', 'array3'] if kind == 'residuals'
                              else ['single', 'single', 'list'])
    p = p or rng.choice([1, 2, 2, 3, 3, 4, 5, 6])
    k = 1 if form == 'single' else rng.randint(2, 3)
    roomy = rng.random() < 0.8               # enough rows for an invertible 'full' estimate
    inputs = []
    n3 = rng.randint(p + 3, p + 8) if roomy else rng.randint(2, 9)
    for _ in range(k):
        if kind == 'residuals':
            n = n3 if form == 'array3' else (rng.randint(p + 3, p + 8) if roomy else rng.randint(2, 12))
            inp = _residual_input(rng, n, p, method, const=(None if rng.random() < 0.3 else False))
        else:
            inp = _dataset_input(rng, p, method, rng.random() < 0.65,
                                 n_cond=rng.choice([2, 3]) if roomy else None,
                                 n_rep=rng.choice([p + 1, p + 2]) if roomy else None,
                                 const=(None if rng.random() < 0.3 else False))
        # list elements get their own scales (a common threshold across a list is then wrong)
        inputs.append(_rescale(inp, _scale_exps(rng, p, mode if rng.random() < 0.8 else 'span')))
    case = {'kind': kind, 'method': method, 'p': p, 'inputs': inputs, 'form': form,
            'dof': _dof_for(rng, inputs, kind, form) if dof == 'random' else
            [rng.randint(3, 9) for _ in inputs] if dof == 'list' else dof}
    return _decorate(rng, case, dtype='float64')


def _scale_structured(rng):
    for method in METHODS:
        for mode in ('span', 'two-groups', 'uniform-tiny', 'moderate'):
            yield _scale_case(rng, method, mode, 'residuals', 'single', p=4 if mode != 'moderate' else 3,
                              dof=None)
        yield _scale_case(rng, method, 'span', 'dataset', 'single', p=3, dof=None)
        yield _scale_case(rng, method, 'two-groups', 'residuals', 'list', p=3, dof='list')
        yield _scale_case(rng, method, 'span', 'dataset', 'list', p=2, dof=None)
        yield _scale_case(rng, method, 'uniform-tiny', 'residuals', 'array3', p=2, dof=6)
    # the demo of seeded C14-9 in miniature: two z-scored channels next to two in tesla
    rows = [[1, -1, 2, 1], [-2, 0, -1, 1], [0, 2, 1, -2], [1, 1, -2, 0], [-1, -2, 0, 1], [2, 0, 1, -1], [-1, 0, -1, 0]]
    for method in METHODS:
        yield {'kind': 'residuals', 'method': method, 'p': 4, 'form': 'single', 'dof': None,
               'inputs': [_rescale({'rows': [list(r) for r in rows]}, [0, 0, -43, -43])]}


def _scale_cases(rng, tier):
    yield from _scale_structured(rng)
    for _ in range(70 if tier == 'quick' else 1800):
        yield _scale_case(rng)


def generate(rng, tier):
    yield from _structured(rng)
    n = 280 if tier == 'quick' else 8000
    for _ in range(n):
        yield _random_case(rng)
    yield from SES.generate(rng, tier)        # round 4: sessions on one dataset object
    yield from _scale_cases(rng, tier)        # round 5: extreme channel scales (after: earlier streams unchanged)


def search(rng, tier):
    yield from _structured(rng)
    yield from SES.structured(rng)
    yield from _scale_structured(rng)
    while True:
        yield _random_case(rng)
        if rng.random() < 0.3:
            yield SES.random_session(rng)
        if rng.random() < 0.25:
            yield _scale_case(rng)


# ------------------------------------------------------------------ shrinking

def shrink(case, still_fails):
    """greedy: fewer inputs, fewer rows, fewer channels, simpler values"""
    if case['kind'] == 'session':
        return SES.shrink(case, still_fails)
    cur = copy.deepcopy(case)
    if case['kind'] == 'malformed':
        return cur

    def klass(c):
        """the kind of failure (round 5): a smaller input must fail in the same way -- otherwise every
        precision failure slips to the simplest one (a zero covariance) and the replay no longer shows the
        class of input that was found (an invertible, badly scaled covariance)"""
        o = oracle(c)
        return (o['features'].get('defect'), o['features'].get('singular')) if o else None

    k0 = klass(cur)

    def attempt(c):
        nonlocal cur
        try:
            if not _valid(c):
                return False
            if still_fails(c) and (k0 is None or klass(c) == k0):
                cur = c
                return True
        except Exception:      # noqa: BLE001
            pass
        return False

    for _ in range(3):
        # drop inputs
        i = 0
        while len(cur['inputs']) > 1 and i < len(cur['inputs']):
            c = copy.deepcopy(cur)
            del c['inputs'][i]
            if isinstance(c['dof'], list) and i < len(c['dof']):
                del c['dof'][i]
            if not attempt(c):
                i += 1
        # drop rows
        for q in range(len(cur['inputs'])):
            i = 0
            while i < len(cur['inputs'][q]['rows']) and len(cur['inputs'][q]['rows']) > 2:
                c = copy.deepcopy(cur)
                del c['inputs'][q]['rows'][i]
                if 'labels' in c['inputs'][q]:
                    del c['inputs'][q]['labels'][i]
                if cur['form'] == 'array3' or not attempt(c):
                    i += 1
        # drop channels
        j = 0
        while cur['p'] > 1 and j < cur['p'] and len(set(_ps(cur))) == 1:
            c = copy.deepcopy(cur)
            c['p'] -= 1
            for inp in c['inputs']:
                for r in inp['rows']:
                    del r[j]
            if not attempt(c):
                j += 1
        # simpler values
        for q in range(len(cur['inputs'])):
            for i in range(len(cur['inputs'][q]['rows'])):
                for j in range(cur['p']):
                    v = cur['inputs'][q]['rows'][i][j]
                    for simple in (0, 1):
                        if v != simple and v not in (0, 1):
                            c = copy.deepcopy(cur)
                            c['inputs'][q]['rows'][i][j] = simple
                            if attempt(c):
                                break
    return cur
