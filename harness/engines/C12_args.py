"""C12 helper — argument factories for the introspected public callables.

`build_call(qualname, kind, fn, owner, seed)` returns `(thunk_args, label)`:
   thunk_args = {'self': obj or None, 'args': [...], 'kwargs': {...}}
built deterministically from `seed` (every call builds *fresh* objects: the in-place
operations of a history destroy them).  Factories are keyed by parameter name and a small
context (module / class); a callable for which no factory applies is reported as uncovered
with the reason, never silently dropped.
"""
import inspect
import os
import random
import tempfile

import numpy as np


class Uncovered(Exception):
    pass


TMP = tempfile.mkdtemp(prefix='c12_')
_counter = [0]


def tmpfile(ext):
    _counter[0] += 1
    return os.path.join(TMP, f'f{os.getpid()}_{_counter[0]}.{ext}')


def classify(v):
    """value class of one descriptor entry: `<list|array>:<asc|unsorted|rep|const>:<int|str|float>`"""
    form = 'array' if isinstance(v, np.ndarray) else 'list'
    xs = list(np.asarray(v).ravel().tolist())
    x0 = xs[0] if xs else 0
    dt = 'str' if isinstance(x0, str) else 'float' if isinstance(x0, float) else 'int'
    if len(set(xs)) == 1 and len(xs) > 1:
        order = 'const'
    elif len(set(xs)) < len(xs):
        order = 'rep'
    elif all(a < b for a, b in zip(xs, xs[1:])):
        order = 'asc'
    else:
        order = 'unsorted'
    return f'{form}:{order}:{dt}'


# ---- degenerate-but-legitimate value classes (round 6) -----------------------------------
# A case may carry a value class `vc` (0 = generic values, the classes of rounds 1-5).  For vc != 0
# every factory that hands out numbers builds them so that one normalisation step of the library
# is *exactly* the identity on them ("nothing to do": centred already, unit length already, ranked
# already, ...), everything else about the values staying generic — one degenerate property per
# class, because two at once mask each other (on rows that are centred *and* of unit length an
# in-place division by the row norms changes nothing).  All values are small dyadic rationals:
# sums, means, sums of squares and their square roots are exact in float64 in any order of
# summation, so `mean == 0`, `norm == 1`, `rank == value` hold bit for bit.
#   vc   measurements (n_obs x n_channel [x n_time])     RDM vectors (valid entries of every row)
#    1   zero-row-mean   every pattern has mean 0        zero-mean
#    2   zero-col-mean   every channel has mean 0        sorted        ascending
#    3   unit-row-norm   every pattern has length 1      unit-norm     root sum of squares 1
#    4   zero-row        two patterns are all zero       nonneg        >= 0, two entries exactly 0
#    5   const-row       every pattern is constant       already-ranked  a permutation of 1..m
#    7   —                                               unit-rms      root mean square 1
#    6   auxiliary arguments: weights summing to 1 (per pair / per RDM), precision = identity,
#        sigma_k = identity / ones, theta = unit vector / convex weights, MDS weight with maximum 1
M_CLASS = {1: 'zero-row-mean', 2: 'zero-col-mean', 3: 'unit-row-norm', 4: 'zero-row', 5: 'const-row'}
D_CLASS = {1: 'zero-mean', 2: 'sorted', 3: 'unit-norm', 4: 'nonneg', 5: 'already-ranked', 7: 'unit-rms'}
AUX_VC = 6
VCLASSES = (1, 2, 3, 4, 5, 6, 7)
# value class -> substrings of the method names whose normalisation step is the identity on it
AFFINITY = {'zero-mean': ('corr',), 'unit-norm': ('cosine',), 'unit-rms': ('cosine', 'simple'),
            'already-ranked': ('spearman', 'rho', 'kendall', 'tau', 'average', 'min', 'dense'),
            'sorted': ('spearman', 'rho', 'kendall', 'tau'),
            'zero-row-mean': ('correlation',), 'unit-row-norm': ('correlation',), 'zero-row': ('correlation',),
            'aux': ('cov', 'mahalanobis', 'crossnobis', 'riem')}
_CAN = {}


def _can(rem, k):
    """is `rem` a sum of k integer squares?"""
    if k == 0:
        return rem == 0
    key = (rem, k)
    if key not in _CAN:
        a, ok = 0, False
        while a * a <= rem and not ok:
            ok = _can(rem - a * a, k - 1)
            a += 1
        _CAN[key] = ok
    return _CAN[key]


def sq_vector(rng, n, total):
    """n non-negative integers with the given sum of squares, spread over the entries where the
       arithmetic allows (drawn from `rng`)"""
    out, rem = [], total
    for k in range(n, 0, -1):
        cands = [a for a in range(int(rem ** 0.5) + 1) if a * a <= rem and _can(rem - a * a, k - 1)]
        # prefer entries of the typical size sqrt(rem / k): no row of zeros with a single 1
        typ = (rem / k) ** 0.5
        cands.sort(key=lambda a: abs(a - typ))
        a = rng.choice(cands[:3])
        out.append(a)
        rem -= a * a
    rng.shuffle(out)
    return out


class World:
    """small, seeded universe of rsatoolbox objects"""

    def __init__(self, seed, vc=0):
        self.rng = random.Random(seed)
        self.vrng = random.Random(seed * 31 + vc)    # draws of the value classes (keeps `rng` as it was)
        self.vc = vc
        self.used = set()               # which value-class hooks the recipe went through: m / d / dpos / aux
        self.seed = seed
        self._npick = 0
        self.tags = set()
        # missing dissimilarities: none / one pair missing in every RDM (common mask, as
        # subsample_pattern produces) / a different pair per RDM (as from_partials produces)
        self.nan_mode = ['none', 'common', 'per-rdm'][seed % 3]
        self.variant = seed % 2          # 0: list-valued descriptors, 1: numpy-array-valued
        # descriptor value classes (round 4): every object carries int / float / str descriptors that
        # are ascending without repeats, unsorted, or with repeats; which dtype has which order
        # rotates with `rot`, which of them a callable is told to *use* rotates with (rot, alt)
        self.rot = (seed // 2) % 3
        self.alt = (seed // 6) % 2       # 0: an ascending repeat-free descriptor is selected, random=True
        self.noauto = set()              # option names the recipe has already decided
        self.n_cond = 4 + (seed // 2) % 2
        self.n_rdm = 3

    def pick(self, options):
        """rotate through the options with the seed: consecutive seeds cover all of them"""
        options = list(options)
        k = (self.seed + 3 * self._npick) % len(options)
        self._npick += 1
        return options[k]

    def tag(self, t):
        self.tags.add(t)

    def size(self, options=(1, 2, 3, 0)):
        """length of a container argument (list of RDMs / datasets / models / selected values):
           rotates with the seed through one element, two, many and — where the callable accepts
           or cleanly rejects it — none"""
        n = self.pick(options)
        self.tag('container:' + ('many' if n >= 3 else str(n)))
        return n

    def stack(self, options=(3, 1, 2)):
        """number of RDMs in a stack argument (one / two / many): single-RDM shortcuts are a
           classic place to hand back the argument itself"""
        n = self.pick(options)
        self.tag('stack:' + ('many' if n >= 3 else str(n)))
        return n

    def form(self, items, forms=('list', 'tuple')):
        """the same elements as list / tuple (the library accepts any iterable)"""
        f = self.pick(forms)
        self.tag('form:' + f)
        return tuple(items) if f == 'tuple' else list(items)

    def with_nans(self, d, nan=None, positive=False):
        """put NaNs into a stack of RDM vectors according to the seed's mode; the valid entries of
           every row are then brought into the case's value class"""
        mode = nan or self.nan_mode
        self.tag('nan:' + mode)
        d = np.array(d, dtype=float)
        npair = d.shape[1]
        if not (mode == 'none' or npair < 3):
            j0 = self.seed % npair
            for r in range(d.shape[0]):
                d[r, j0 if mode == 'common' else (j0 + r) % npair] = np.nan
        return self.d_values(d, positive)

    # ---- value classes (round 6) ----------------------------------------------------------
    def d_values(self, d, positive=False):
        """RDM vectors of the case's value class: the class holds for the valid (non-NaN) entries of
           every row, exactly"""
        if getattr(self, '_no_vc', False):
            return d
        self.used.add('dpos' if positive else 'd')
        c = D_CLASS.get(self.vc)
        if c is None or (positive and c in ('zero-mean', 'nonneg')):
            return d
        for r in range(d.shape[0]):
            ok = ~np.isnan(d[r])
            v = d[r, ok]
            m = len(v)
            if m < 2:
                continue
            if c == 'zero-mean':
                v[-1] = -v[:-1].sum()
            elif c == 'sorted':
                v = np.sort(v)
            elif c == 'nonneg':
                v = np.abs(v)
                v[0] = v[-1] = 0.0
            elif c == 'already-ranked':
                v = np.argsort(np.argsort(v)) + 1.0
            else:
                # unit-norm: sum of squares 1 (entries k/16); unit-rms: mean square 1 (entries k/4)
                ints = sq_vector(self.vrng, m, 256 if c == 'unit-norm' else 16 * m)
                v = np.array(ints, dtype=float) / (16.0 if c == 'unit-norm' else 4.0)
                if not positive:
                    v[self.vrng.choice([i for i in range(m) if v[i] != 0])] *= -1.0
            d[r, ok] = v
        self.tag('values:rdm:' + c)
        return d

    def m_values(self, m):
        """measurements (patterns x channels [x time]) of the case's value class; patterns are rows,
           channels axis 1"""
        if getattr(self, '_no_vc', False):
            return m
        self.used.add('m')
        c = M_CLASS.get(self.vc)
        if c is None:
            return m
        m = np.array(m, dtype=float)
        if c == 'zero-row-mean':
            m[:, -1] = -m[:, :-1].sum(axis=1)
        elif c == 'zero-col-mean':
            m[-1] = -m[:-1].sum(axis=0)
        elif c == 'zero-row':
            m[0] = 0.0
            m[-1] = 0.0
        elif c == 'const-row':
            m[:] = m[:, :1]
        else:
            mm = np.moveaxis(m, 1, -1)          # view: channel axis last
            for idx in np.ndindex(mm.shape[:-1]):
                ints = sq_vector(self.vrng, mm.shape[-1], 256)
                mm[idx] = [(a * self.vrng.choice([1, -1])) / 16.0 for a in ints]
        self.tag('values:' + c)
        return m

    def as_is(self, generic):
        """option `descriptor` of the RDM estimators in a degenerate-value case: the values only
           matter where the caller's array is used as it is, so the aggregation step is switched
           off — no descriptor (every observation a pattern) or, by parity of the seed, a descriptor
           whose values are all distinct (`trial`: the average over one observation).  Generic
           cases keep the recipe's own rotation."""
        if self.vc not in M_CLASS:
            return generic
        d = [None, 'trial'][self.seed % 2]
        self.tag('values:as-is:' + ('none' if d is None else 'unique'))
        self.tag('values:' + M_CLASS[self.vc] + '+as-is')
        return d

    def pick_method(self, options):
        """a `method` option.  Generic cases: the seed's rotation.  Degenerate-value cases: the
           rotation among the methods whose normalisation step the value class makes the identity
           (zero mean <-> correlation, unit norm / RMS <-> cosine, ranked / sorted <-> the rank
           measures, identity precision / sigma_k <-> the whitened measures), so that the class
           is actually on the path of the call; the recipe's own rotation when no method matches"""
        o = self.pick(options)
        c = 'aux' if self.vc == AUX_VC else M_CLASS.get(self.vc) or D_CLASS.get(self.vc)
        keys = AFFINITY.get(c, ())
        name = lambda x: x if isinstance(x, str) else str(x.get('method', '')) if isinstance(x, dict) else ''  # noqa: E731
        match = [x for x in options if any(k in name(x) for k in keys)]
        if c in D_CLASS.values() or c in M_CLASS.values():
            match = [x for x in match if 'list' not in name(x)] or match
        if not match:
            return o
        self.tag('values:method-matched')
        return match[self.seed % len(match)]

    def aux(self, name):
        """True when the case's class makes the auxiliary argument `name` degenerate"""
        self.used.add('aux')
        if self.vc != AUX_VC:
            return False
        self.tag('values:' + name)
        return True

    def eval_nan(self):
        """compare() rejects differing NaN positions: models and data share the common mask"""
        return 'none' if self.nan_mode == 'none' or getattr(self, '_no_nan', False) else 'common'

    def sigma_k(self, n, vector_ok=True):
        """None / pattern covariance matrix / variance vector, as real float arrays"""
        k = self.pick(['none', 'matrix', 'vector'] if vector_ok else ['matrix', 'none'])
        if self.vc == AUX_VC and k == 'none':
            k = 'matrix'            # the auxiliary class is about the argument being there
        self.tag('sigma_k:' + k)
        self.used.add('aux')
        if k == 'none':
            return None
        ident = self.aux('sigma-identity')      # "nothing to whiten"
        if k == 'vector':
            return np.ones(n) if ident else np.linspace(0.5, 1.5, n)
        if ident:
            return np.eye(n)
        m = np.eye(n) * 1.5
        m[0, 1] = m[1, 0] = 0.25
        return m

    def weights_for(self, r):
        """argument `weights` of RDMs.mean: 2-D array of the vectors' shape, 1-D per-RDM array,
           a descriptor name holding either, or None; the arrays are real float ndarrays that a
           careless asarray + in-place write would corrupt"""
        k = self.pick(['2d', '1d', 'name-2d', 'name-1d', 'none'])
        if self.vc == AUX_VC and k == 'none':
            k = '1d'
        self.tag('weights:' + k)
        w2 = np.linspace(0.5, 2.0, r.dissimilarities.size).reshape(r.dissimilarities.shape)
        w1 = np.linspace(1.0, 2.0, r.n_rdm)
        if self.aux('weights-sum-1'):
            # normalised already: the weights of every pair (and the per-RDM weights) sum to 1
            n = r.n_rdm
            w1 = np.array([1.0] if n == 1 else [0.75, 0.25] if n == 2 else [0.5, 0.25] + [0.25 / (n - 2)] * (n - 2))
            w2 = np.repeat(w1.reshape(-1, 1), r.dissimilarities.shape[1], axis=1)
        if k == '2d':
            return w2
        if k == '1d':
            return w1
        if k == 'name-2d':
            r.rdm_descriptors['wts'] = w2
            return 'wts'
        if k == 'name-1d':
            r.rdm_descriptors['wts'] = w1
            return 'wts'
        return None

    def _vals(self, n, lo=-2, hi=40):
        # dyadic values, a few negative (crossnobis RDMs are signed), all distinct
        xs = self.rng.sample(range(lo * 8, hi * 8), n)
        a = np.array(xs, dtype=float) / 8.0
        if not (a < 0).any():
            a[self.rng.randrange(n)] = -0.375
        return a

    def _d(self, v):
        return np.array(v) if self.variant else list(v)

    # ---- descriptor value classes -------------------------------------------------------
    @staticmethod
    def _unsorted(vals):
        """a fixed non-ascending arrangement of distinct values (no random draw: a model and its
           data built from the same seed carry identical descriptors)"""
        vals = list(vals)
        return vals[1::2] + vals[::2] if len(vals) >= 2 else vals

    def ordered(self, vals, order):
        """`vals` ascending without repeats -> the requested order class"""
        vals = list(vals)
        if order == 'asc':
            return vals
        if order == 'unsorted':
            return self._unsorted(vals)
        return [vals[i // 2] for i in range(len(vals))]          # 'rep': sorted, with repeats

    def int_desc(self, n, base=10):
        """integer labels: ascending repeat-free (rot 0, 2) / unsorted (rot 1)"""
        return self._d(self.ordered([base + i for i in range(n)], ['asc', 'unsorted', 'asc'][self.rot]))

    def float_desc(self, n, base=0.5):
        """float labels: unsorted (rot 0) / ascending repeat-free (rot 1) / with repeats (rot 2)"""
        return self._d(self.ordered([base + 1.0 * i for i in range(n)], ['unsorted', 'asc', 'rep'][self.rot]))

    def note_desc(self, family, d):
        """coverage tags `desc:<family>:<list|array>:<asc|unsorted|rep|const>:<int|str|float>`"""
        for k, v in d.items():
            if k == 'index':
                continue
            self.tag(f'desc:{family}:' + classify(v))

    def pdesc(self, absent_ok=False):
        """name of the pattern descriptor a callable is told to group by.  alt 0: the ascending
           repeat-free one of the seed's dtype (int / float / str) — as an ndarray exactly what
           np.unique / np.sort / np.asarray would hand back *unchanged*; alt 1: the default / an
           unsorted one / one with repeats (int, float or str, flipping with seed // 12)"""
        self.noauto.add('pattern_descriptor')
        flip = (self.seed // 12) % 2
        name = [['stim', 'pos', 'cond'],
                [[None if absent_ok else 'cond', 'pos'][flip], 'stim', ['cat', 'pos'][flip]]][self.alt][self.rot]
        return name

    def rdesc(self, absent_ok=False):
        """name of the rdm descriptor a callable is told to group by (same scheme)"""
        self.noauto.add('rdm_descriptor')
        flip = (self.seed // 12) % 2
        name = [['sub', 'ses', 'name'],
                [[None if absent_ok else 'name', 'ses'][flip], 'sub', ['grp', 'ses'][flip]]][self.alt][self.rot]
        return name

    def random_opt(self):
        """option `random` of the set generators: True (alt 0), False / absent (alt 1)"""
        self.noauto.add('random')
        r = True if self.alt == 0 else [False, None][self.variant]
        self.tag('random:' + ('default' if r is None else str(r).lower()))
        return r

    def conds(self, n=None, order=None):
        n = n or self.n_cond
        c = [f'c{i}' for i in range(n)]
        if order == 'asc':
            return c
        self.rng.shuffle(c)
        if c == sorted(c):
            c[0], c[1] = c[1], c[0]
        return c

    def rdms(self, n_rdm=None, n_cond=None, conds=None, positive=False, nan=None):
        from rsatoolbox.rdm.rdms import RDMs
        n_rdm = n_rdm or self.n_rdm
        n_cond = n_cond or self.n_cond
        npair = n_cond * (n_cond - 1) // 2
        d = np.stack([self._vals(npair) for _ in range(n_rdm)])
        if positive:
            d = np.abs(d) + 0.125
        d = self.with_nans(d, nan, positive)
        # condition labels (str): unsorted and repeat-free, ascending for rot 2 
        if not conds:
            conds = self.conds(n_cond)
            if self.rot == 2:
                conds = sorted(conds)
        rd = {'name': self._d([f'r{i}' for i in range(n_rdm)]),
              'grp': self._d([i // 2 for i in range(n_rdm)]),
              'sub': self.int_desc(n_rdm, 20),
              'ses': self.float_desc(n_rdm, 1.25)}
        pd = {'cond': self._d(conds),
              'cat': self._d([i % 2 for i in range(n_cond)]),
              'stim': self.int_desc(n_cond, 10),
              'pos': self.float_desc(n_cond, 0.5)}
        self.note_desc('rdm', rd)
        self.note_desc('pattern', pd)
        r = RDMs(
            d, dissimilarity_measure='squared euclidean',
            descriptors={'session': 'sesA', 'subj': 7},
            rdm_descriptors=rd, pattern_descriptors=pd)
        if self.variant and self.rot == 0:
            # the library-managed `index` as an ndarray, as bootstrap_testset* leave it behind
            # (`data.pattern_descriptors['index'] = np.arange(n_cond)`) — same values
            r.pattern_descriptors['index'] = np.arange(r.n_cond)
            r.rdm_descriptors['index'] = np.arange(r.n_rdm)
            self.tag('desc:index:array')
        else:
            self.tag('desc:index:list')
        return r

    def euclid_rdms(self, n_rdm=2, conds=None, nan=None):
        """squared euclidean RDMs of random point clouds (valid distance matrices)"""
        r = self.rdms(n_rdm=n_rdm, conds=conds, nan='none')
        n = r.n_cond
        rows = []
        for _ in range(n_rdm):
            pts = self._vals(n * 6, 1, 60).reshape(n, 6) / 4.0
            d = ((pts[:, None, :] - pts[None, :, :]) ** 2).sum(-1)
            rows.append(d[np.triu_indices(n, 1)])
        r.dissimilarities = self.with_nans(np.stack(rows), nan)
        return r

    def dataset(self, n_cond=None, n_rep=2, n_ch=5):
        from rsatoolbox.data.dataset import Dataset
        n_cond = n_cond or self.n_cond
        n_obs = n_cond * n_rep
        m = self.m_values(self._vals(n_obs * n_ch, -20, 60).reshape(n_obs, n_ch))
        obs = [(c, r) for r in range(n_rep) for c in range(n_cond)]
        self.rng.shuffle(obs)
        od, cd = self._ds_desc(obs, n_obs, n_ch, ['V1', 'V1', 'V2', 'V2', 'IT'])
        return Dataset(
            m, descriptors={'subj': 3, 'task': 'view'}, obs_descriptors=od, channel_descriptors=cd)

    def _ds_desc(self, obs, n_obs, n_ch, rois):
        """observation / channel descriptors of a dataset: str with repeats (`conds`, `runs`,
           `rois`), constant (`sess`, `hemi`), ascending repeat-free int / str (`trial`, `vox`) and
           the rotating int / float classes (`blk`, `onset`, `chan`, `depth`)"""
        od = {'conds': self._d([f'c{c}' for c, _ in obs]),
              'runs': self._d([f'run{r}' for _, r in obs]),
              'trial': self._d(list(range(n_obs))),
              'sess': self._d(['s1'] * n_obs),
              'blk': self.int_desc(n_obs, 30),
              'onset': self.float_desc(n_obs, 0.25)}
        cd = {'rois': self._d(rois[:n_ch]),
              'hemi': self._d(['L'] * n_ch),
              'vox': self._d([f'v{i}' for i in range(n_ch)]),
              'chan': self.int_desc(n_ch, 40),
              'depth': self.float_desc(n_ch, 1.5)}
        self.note_desc('obs', od)
        self.note_desc('channel', cd)
        return od, cd

    def count_dataset(self):
        # counts are positive: no degenerate class of the table above applies
        no_vc, self._no_vc = getattr(self, '_no_vc', False), True
        ds = self.dataset()
        self._no_vc = no_vc
        ds.measurements = np.abs(ds.measurements) + 1.0
        return ds

    def tdataset(self, n_cond=3, n_rep=2, n_ch=3, n_time=4):
        from rsatoolbox.data.dataset import TemporalDataset
        n_obs = n_cond * n_rep
        m = self.m_values(self._vals(n_obs * n_ch * n_time, -20, 80).reshape(n_obs, n_ch, n_time))
        obs = [(c, r) for r in range(n_rep) for c in range(n_cond)]
        self.rng.shuffle(obs)
        od, cd = self._ds_desc(obs, n_obs, n_ch, ['V1', 'V2', 'V2'])
        return TemporalDataset(
            m, descriptors={'subj': 3}, obs_descriptors=od, channel_descriptors=cd,
            time_descriptors={'time': np.array([0.0, 0.5, 1.0, 1.5][:n_time])})  # bin_time needs an array

    def model(self, kind='fixed'):
        from rsatoolbox.model import ModelFixed, ModelWeighted, ModelSelect, ModelInterpolate
        r = self.rdms(n_rdm=1 if kind == 'fixed' else 2, positive=True, conds=sorted(self.conds()),
                      nan=self.eval_nan())
        cls = {'fixed': ModelFixed, 'weighted': ModelWeighted, 'select': ModelSelect,
               'interpolate': ModelInterpolate}[kind]
        return cls(kind, r)

    def models(self):
        return [self.model('fixed'), self.model('weighted')]

    def data_rdms(self, n_rdm=4):
        return self.euclid_rdms(n_rdm=n_rdm, conds=sorted(self.conds()), nan=self.eval_nan())

    def result(self):
        from rsatoolbox.inference import eval_fixed
        self._no_nan = True
        self._no_vc = True      # a Result is not an array argument: its methods see no value class
        return eval_fixed(self.models(), self.data_rdms(), method='cosine')

    def evaluations(self, n_boot=6, n_model=2):
        a = self._vals(n_boot * n_model, 1, 7).reshape(n_boot, n_model) / 8.0
        return np.abs(a)

    def prec(self, n=5):
        self.tag('noise:array')
        if self.aux('prec-identity'):
            return np.eye(n)
        a = np.eye(n) * 2.0
        a[0, 1] = a[1, 0] = 0.25
        return a

    # ---- per-fold noise containers (round 7) -----------------------------------------------
    def asym_prec(self, n, k=0):
        """a precision matrix as an estimator hands it out: np.linalg.inv of a random SPD matrix
           (symmetric only up to rounding), plus an explicit 1-ulp asymmetry in one off-diagonal
           pair, so that (p + p.T) / 2 differs from p at bit level whatever LAPACK did"""
        g = np.random.RandomState((self.seed * 7 + 1000 * k + n) % (2 ** 31))
        a = g.standard_normal((n + 3, n))
        p = np.linalg.inv(a.T @ a / (n + 3) + 0.5 * np.eye(n))
        i, j = (k % (n - 1)), n - 1
        p[i, j] = np.nextafter(p[j, i], np.inf)
        assert not np.array_equal(p, (p + p.T) / 2)
        return p

    def noise_folds(self, form, n, n_fold=2, fold_values=None):
        """the argument `noise` given *per cross-validation fold*: a container of n x n matrices.
           forms: list / tuple / dict keyed by fold index / dict keyed by fold value / 3-d stack of
           NOT exactly symmetric float64 matrices (`asym_prec`); `list-sym`: a list of exactly
           symmetric matrices (a normalisation of the entries is then the identity on the values
           and only the identity of the entries tells); `est-list` / `est-3d`: what the library's own
           estimator (prec_from_residuals on a list / 3-d stack of residuals) returns, fed back in"""
        mats = [self.asym_prec(n, k) for k in range(n_fold)]
        if form == 'list-asym':
            out = mats
        elif form == 'tuple-asym':
            out = tuple(mats)
        elif form == 'dict-asym':
            out = {k: m for k, m in enumerate(mats)}
        elif form == 'dict-fold-asym':
            out = {v: m for v, m in zip(fold_values, mats)}
        elif form == '3d-asym':
            out = np.stack(mats)
        elif form == 'list-sym':
            out = [self.prec(n) + 0.125 * k * np.eye(n) for k in range(n_fold)]
        elif form in ('est-list', 'est-3d'):
            from rsatoolbox.data.noise import prec_from_residuals
            g = np.random.RandomState((self.seed * 13 + n) % (2 ** 31))
            res = [g.standard_normal((4 * n, n)) for _ in range(n_fold)]
            out = prec_from_residuals(res if form == 'est-list' else np.stack(res),
                                      method=self.pick(['shrinkage_diag', 'full', 'shrinkage_eye']))
            if form == 'est-3d' and not isinstance(out, np.ndarray):
                out = np.stack(out)       # the estimator answers a stack of residuals with a list
            assert isinstance(out, list) if form == 'est-list' else out.ndim == 3
        else:
            raise ValueError(form)
        self.tag('noise:' + form)
        return out

    def theta(self, kind):
        """parameter vector of a model: generic / (class 6) a unit vector resp. convex weights"""
        th = {'fixed': None, 'weighted': np.array([0.5, 1.5]), 'select': 1,
              'interpolate': np.array([0.25, 0.75])}[kind]
        if isinstance(th, np.ndarray) and self.aux('theta-unit'):
            th = np.array([0.0, 1.0]) if kind == 'weighted' else np.array([0.5, 0.5])
        return th


# ---- per-callable argument recipes ----------------------------------------------------

def _recipes():
    R = {}

    def reg(suffix):
        def deco(f):
            R[suffix] = f
            return f
        return deco

    # --- rdm.rdms
    @reg('rdm.rdms.RDMs')
    def _(w):
        src = w.rdms()
        return None, [src.dissimilarities.copy()], dict(
            dissimilarity_measure='euclidean', descriptors={'session': 'sesA'},
            rdm_descriptors={'name': w._d(['r0', 'r1', 'r2']), 'scalar_like': w._d([5, 6, 7])},
            pattern_descriptors={'cond': w._d(w.conds()), 'cat': w._d([i % 2 for i in range(w.n_cond)])})

    @reg('rdm.rdms.RDMs.__getitem__')
    def _(w):
        return w.rdms(), [w.pick([0, 1, [0, 2], [1], np.array([2, 0, 1]), [2, 2]])], {}

    def names(w, pool, rep=False):
        k = w.size()
        sel = [pool[(w.seed + i) % len(pool)] for i in range(k)]
        if rep and k >= 2:
            sel[1] = sel[0]
        return sel
    L = lambda v: (lambda: v)  # noqa: E731

    def AV(by, vals):
        """selection values as an ndarray (unsorted, with repeats — what a bootstrap draw looks like)"""
        def f(w=None):
            return [by, np.array(vals)]
        f.array_value = True
        return f

    def chosen(w, options):
        o = w.pick(options)
        if getattr(o, 'array_value', False):
            w.tag('value:array')
        return o()
    for meth, mk in (('subset', lambda w: chosen(w, [L(['name', 'r1']), L(['grp', 0]), AV('name', ['r0', 'r2']),
                                                    lambda: ['name', names(w, ['r0', 'r1', 'r2'])],
                                                    L(['name', ['r0', 'r1', 'r2']]), L(['index', [0, 1, 2]]),
                                                    AV('sub', [22, 20])])),
                     ('subsample', lambda w: chosen(w, [L(['name', ['r1', 'r1', 'r2']]), L(['name', 'r2']),
                                                       lambda: ['name', names(w, ['r0', 'r1', 'r2'], rep=True)],
                                                       AV('sub', [21, 20, 21]), AV('ses', [2.25, 1.25]),
                                                       AV('name', ['r2', 'r0', 'r2'])])),
                     ('subset_pattern', lambda w: chosen(w, [L(['cond', ['c0', 'c2', 'c3']]), L(['cat', 1]),
                                                            lambda: ['cond', names(w, ['c0', 'c1', 'c2', 'c3'])],
                                                            L(['cond', 'c2']),
                                                            lambda: ['cond', [f'c{i}' for i in range(w.n_cond)]],
                                                            lambda: ['index', np.arange(w.n_cond)],
                                                            AV('stim', [13, 10, 11])])),
                     ('subsample_pattern', lambda w: chosen(w, [L(['cond', ['c1', 'c1', 'c3', 'c0']]), L(['cond', 'c3']),
                                                               lambda: ['cond', names(w, ['c0', 'c1', 'c2', 'c3'], rep=True)],
                                                               AV('cond', ['c3', 'c1', 'c1', 'c0']),
                                                               AV('stim', [12, 10, 12]), AV('pos', [1.5, 0.5])]))):
        R['rdm.rdms.RDMs.' + meth] = (lambda mk: lambda w: (w.rdms(), mk(w), {}))(mk)

    for meth in ('copy', 'get_matrices', 'get_vectors', 'to_df', 'to_dict'):
        R['rdm.rdms.RDMs.' + meth] = lambda w: (w.rdms(n_rdm=w.stack()), [], {})
    for fn_ in ('minmax_transform', 'positive_transform', 'sqrt_transform'):
        R['rdm.transform.' + fn_] = lambda w: (None, [w.rdms(n_rdm=w.stack())], {})
    R['rdm.transform.rank_transform'] = lambda w: (None, [w.rdms(n_rdm=w.stack())],
                                                   {'method': w.pick_method(['average', 'min', 'dense'])})
    R['inference.result.Result.summary'] = lambda w: (w.result(), [], {})

    @reg('rdm.rdms.RDMs.mean')
    def _(w):
        # weights only matter when dissimilarities are missing: every weights variant meets NaNs
        r = w.rdms(n_rdm=w.stack((3, 3, 1, 2)), nan='per-rdm' if w.nan_mode == 'none' else w.nan_mode)
        return r, [], {'weights': w.weights_for(r)}

    @reg('rdm.rdms.RDMs.save')
    def _(w):
        ft = w.pick(['hdf5', 'pkl'])
        return w.rdms(), [tmpfile(ft)], {'file_type': ft, 'overwrite': True}

    @reg('rdm.rdms.concat')
    def _(w):
        c = w.conds()
        n = w.size()
        items = []
        for i in range(n):
            ci = list(c)
            if i:
                w.rng.shuffle(ci)
                if ci == c:
                    ci.reverse()
            items.append(w.rdms(n_rdm=1 + (i + w.seed) % 2, conds=ci))
        how = w.pick(['list', 'varargs', 'tuple'])
        w.tag('form:' + how)
        kw = {'target_pdesc': 'cond'} if n and w.seed % 5 == 0 else {}
        if how == 'varargs':
            return None, items, kw
        return None, [tuple(items) if how == 'tuple' else items], kw

    @reg('rdm.rdms.permute_rdms')
    def _(w):
        r = w.rdms(n_rdm=w.stack())
        p = list(range(r.n_cond))
        w.rng.shuffle(p)
        return None, [r], {'p': np.array(p)}

    @reg('rdm.rdms.inverse_permute_rdms')
    def _(w):
        from rsatoolbox.rdm.rdms import permute_rdms
        r = w.rdms()
        p = list(range(r.n_cond))
        w.rng.shuffle(p)
        return None, [permute_rdms(r, np.array(p))], {}

    @reg('rdm.rdms.get_categorical_rdm')
    def _(w):
        return None, [w._d([0, 1, 0, 2, 1])], {}

    @reg('rdm.rdms.rdms_from_dict')
    def _(w):
        d = w.rdms().copy().to_dict()
        return None, [d], {}

    @reg('rdm.rdms.load_rdm')
    def _(w):
        f = tmpfile('pkl')
        w.rdms().save(f, file_type='pkl', overwrite=True)
        return None, [f], {}

    # --- rdm.transform
    @reg('rdm.transform.transform')
    def _(w):
        return None, [w.rdms(), lambda x: x * 2.0], {}

    @reg('rdm.transform.geotopological_transform')
    def _(w):
        return None, [w.rdms(), 0.25, 0.75], {}

    @reg('rdm.transform.geodesic_transform')
    def _(w):
        return None, [w.rdms(positive=True)], {}

    # --- rdm.combine
    @reg('rdm.combine.from_partials')
    def _(w):
        parts = [w.rdms(n_rdm=1, n_cond=3, conds=['c0', 'c2', 'c1']),
                 w.rdms(n_rdm=2, n_cond=3, conds=['c3', 'c1', 'c0']),
                 w.rdms(n_rdm=1, n_cond=4, conds=['c1', 'c0', 'c3', 'c2'])]
        return None, [w.form(parts[:w.size()])], {'descriptor': 'cond'}

    @reg('rdm.combine.rescale')
    def _(w):
        return None, [w.rdms(n_rdm=w.stack(), positive=True)], {'method': w.pick_method(['evidence', 'setsize', 'simple'])}

    # --- rdm.compare
    def cmp(w, sig=False, **kw):
        c = sorted(w.conds())
        # differing NaN positions are rejected by compare: both stacks use the common mask then
        nan = 'common' if w.nan_mode != 'none' else 'none'
        if sig:
            kw = dict(kw, sigma_k=w.sigma_k(w.n_cond))
        return None, [w.euclid_rdms(n_rdm=2, conds=c, nan=nan), w.euclid_rdms(n_rdm=3, conds=c, nan=nan)], kw
    for nm in ('compare', 'compare_bures_metric', 'compare_bures_similarity', 'compare_correlation',
               'compare_correlation_cov_weighted', 'compare_cosine', 'compare_cosine_cov_weighted',
               'compare_kendall_tau', 'compare_kendall_tau_a', 'compare_neg_riemannian_distance',
               'compare_rho_a', 'compare_spearman'):
        R['rdm.compare.' + nm] = (lambda sig: lambda w: cmp(w, sig=sig))('cov_weighted' in nm or 'riemann' in nm)
    R['rdm.compare.compare'] = lambda w: cmp(w, sig=True, method=w.pick_method(
        ['cosine_cov', 'cosine', 'corr_cov', 'corr', 'spearman', 'tau-a', 'rho-a', 'kendall']))

    @reg('rdm.pairs.pairs_by_percentile')
    def _(w):
        w.variant = 1
        return None, [w.rdms()], {'min': 0, 'max': 60, 'cond': 'c1'}

    # --- rdm.calc
    def rm_kw(w, kw):
        kw['remove_mean'] = w.pick([False, True])
        w.tag('remove_mean:' + str(kw['remove_mean']).lower())
        return kw

    def as_is(w, kw):
        """degenerate-value case: the estimator gets the caller's array without an averaging step"""
        kw['descriptor'] = w.as_is(kw.get('descriptor'))
        if kw['descriptor'] is None:
            kw.pop('cv_descriptor', None)
            w.tag('descriptor:none')
        return kw

    def calc(method=None, rm=False, **extra):
        def f(w):
            ds = w.count_dataset() if method and 'poisson' in method else w.dataset()
            kw = dict(extra)
            if method:
                kw['method'] = method
            if method in ('euclidean', 'mahalanobis', 'crossnobis') or (method is None and rm):
                kw['remove_mean'] = w.pick([False, True])
                w.tag('remove_mean:' + str(kw['remove_mean']).lower())
                if method != 'crossnobis' and w.pick([0, 1, 1]) == 0:
                    # no descriptor: every observation is a pattern, the measurements are used
                    # as they are (no averaging step in between)
                    kw['descriptor'] = None
                    kw.pop('cv_descriptor', None)
                    w.tag('descriptor:none')
            if method not in ('crossnobis', 'poisson', 'poisson_cv') and w.vc in M_CLASS:
                as_is(w, kw)
            return None, [ds], kw
        return f
    def calc_any(w):
        m = w.pick_method(['mahalanobis', 'crossnobis', 'euclidean', 'correlation', 'poisson', 'poisson_cv',
                           'list', 'list-nodesc', 'list-noise'])
        if m.startswith('list'):
            # the iterable branch: one RDM per dataset, merged by from_partials / concat
            n = w.size((1, 2, 3))
            dss = w.form([w.dataset() for _ in range(n)])
            if m == 'list-nodesc':
                for d in dss:
                    d.sort_by('trial')
                return None, [dss], rm_kw(w, {'method': 'euclidean', 'descriptor': None})
            if m == 'list-noise':
                w.tag('noise:array')
                return None, [dss], {'method': 'mahalanobis', 'descriptor': 'conds',
                                     'noise': [w.prec() for _ in range(n)]}
            return None, [dss], as_is(w, {'method': w.pick(['euclidean', 'correlation']), 'descriptor': 'conds'}) \
                if w.vc in M_CLASS else {'method': 'euclidean', 'descriptor': 'conds'}
        extra = {'descriptor': 'conds', 'cv_descriptor': 'runs'}
        if m in ('mahalanobis', 'crossnobis'):
            extra['noise'] = w.prec()
            w.tag('noise:array')
        return calc(m, **extra)(w)
    R['rdm.calc.calc_rdm'] = calc_any
    R['rdm.calc.calc_rdm_correlation'] = calc(descriptor='conds')
    R['rdm.calc.calc_rdm_euclidean'] = calc(rm=True, descriptor='conds')

    R['rdm.calc.calc_rdm_mahalanobis'] = lambda w: (w.tag('noise:array'), (None, [w.dataset()], rm_kw(
        w, as_is(w, {'descriptor': w.pick(['conds', None, 'conds']), 'noise': w.prec()}) if w.vc in M_CLASS else
        {'descriptor': w.pick(['conds', None, 'conds']), 'noise': w.prec()})))[1]
    R['rdm.calc.calc_rdm_crossnobis'] = lambda w: (None, [w.dataset(), 'conds'],
                                                  rm_kw(w, {'noise': w.prec(), 'cv_descriptor': 'runs'}))
    R['rdm.calc.calc_rdm_poisson'] = lambda w: (None, [w.count_dataset()], {'descriptor': 'conds'})
    R['rdm.calc.calc_rdm_poisson_cv'] = lambda w: (None, [w.count_dataset()],
                                                  {'descriptor': 'conds', 'cv_descriptor': 'runs'})
    R['rdm.calc.calc_rdm_movie'] = lambda w: (None, [w.tdataset()], w.pick_method([
        {'method': 'euclidean', 'descriptor': 'conds'},
        {'method': 'mahalanobis', 'descriptor': 'conds', 'noise': w.prec(3)}]))
    R['rdm.calc_unbalanced.calc_rdm_unbalanced'] = lambda w: (
        None, [w.dataset()], w.pick_method([
            {'method': 'crossnobis', 'descriptor': 'conds', 'cv_descriptor': 'runs', 'noise': w.prec()},
            {'method': 'euclidean', 'descriptor': 'conds', 'cv_descriptor': 'runs'},
            {'method': 'mahalanobis', 'descriptor': 'conds', 'noise': w.prec()}]))

    @reg('rdm.calc_unbalanced.calc_one_similarity')
    def _(w):
        ds = w.dataset()
        a = ds.subset_obs('conds', 'c0').copy()
        b = ds.subset_obs('conds', 'c1').copy()
        return None, [a, b, np.arange(a.n_obs), np.arange(b.n_obs) + 1], {'method': 'euclidean'}

    R['rdm.calc_unbalanced.ensure_double'] = lambda w: (None, [w._vals(6)], {})

    # --- data
    def ds_ctor(w):
        src = w.dataset()
        return None, [src.measurements.copy()], dict(
            descriptors={'subj': 3}, obs_descriptors={k: w._d(list(v)) for k, v in src.obs_descriptors.items()},
            channel_descriptors={k: w._d(list(v)) for k, v in src.channel_descriptors.items()})
    R['data.base.DatasetBase'] = ds_ctor
    R['data.dataset.Dataset'] = ds_ctor

    @reg('data.dataset.TemporalDataset')
    def _(w):
        src = w.tdataset()
        return None, [src.measurements.copy()], dict(
            descriptors={'subj': 3}, obs_descriptors={k: w._d(list(v)) for k, v in src.obs_descriptors.items()},
            channel_descriptors={k: w._d(list(v)) for k, v in src.channel_descriptors.items()},
            time_descriptors={k: w._d(list(v)) for k, v in src.time_descriptors.items()})

    def base_self(w):
        from rsatoolbox.data.base import DatasetBase
        d = w.dataset()
        return DatasetBase(d.measurements, d.descriptors, d.obs_descriptors, d.channel_descriptors)
    for cls, mk in (('data.base.DatasetBase', base_self), ('data.dataset.Dataset', lambda w: w.dataset()),
                    ('data.dataset.TemporalDataset', lambda w: w.tdataset())):
        def bind(cls, mk):
            R[cls + '.copy'] = lambda w: (mk(w), [], {})
            R[cls + '.to_dict'] = lambda w: (mk(w), [], {})
            # 'sess' / 'hemi' hold a single value: the split has one part, the whole object
            R[cls + '.split_obs'] = lambda w: (mk(w), [w.pick(['conds', 'sess', 'runs', 'blk', 'onset'])], {})
            R[cls + '.split_channel'] = lambda w: (mk(w), [w.pick(['rois', 'hemi', 'vox', 'chan', 'depth'])], {})
            R[cls + '.subset_obs'] = lambda w: (mk(w), w.pick(
                [L(['conds', 'c1']), L(['conds', ['c0', 'c2']]), L(['trial', 3]), L(['trial', [1, 4]]),
                 lambda: ['trial', list(range(w.size()))], L(['trial', [2]]),
                 L(['blk', np.array([31, 30])]), L(['onset', 1.25]), L(['onset', [0.25, 1.25]])])(), {})
            R[cls + '.subset_channel'] = lambda w: (mk(w), w.pick(
                [L(['rois', 'V2']), L(['rois', ['V1', 'V2']]), L(['vox', 'v1']), L(['vox', ['v2']]),
                 lambda: ['vox', [f'v{i}' for i in range(w.size())]],
                 L(['chan', [40, 42]]), L(['depth', 1.5]), L(['depth', np.array([2.5, 1.5])])])(), {})

            def save(w):
                ft = w.pick(['hdf5', 'pkl'])
                return mk(w), [tmpfile(ft)], {'file_type': ft, 'overwrite': True}
            R[cls + '.save'] = save
        bind(cls, mk)
    R['data.dataset.Dataset.get_measurements'] = lambda w: (w.dataset(), [], {})
    R['data.dataset.Dataset.get_measurements_tensor'] = lambda w: (w.dataset(), ['conds'], {})
    R['data.dataset.Dataset.odd_even_split'] = lambda w: (w.dataset(), ['runs'], {})
    R['data.dataset.Dataset.nested_odd_even_split'] = lambda w: (w.dataset(), ['conds', 'runs'], {})
    R['data.dataset.Dataset.to_df'] = lambda w: (w.dataset(), [], {'channel_descriptor': 'vox'})

    @reg('data.dataset.Dataset.from_df')
    def _(w):
        return None, [w.dataset().to_df(channel_descriptor='vox')], {}

    R['data.dataset.TemporalDataset.split_time'] = lambda w: (w.tdataset(), ['time'], {})
    R['data.dataset.TemporalDataset.subset_time'] = lambda w: (w.tdataset(), ['time', 0.5, 1.0], {})
    R['data.dataset.TemporalDataset.bin_time'] = lambda w: (
        w.tdataset(), ['time', [np.array([0.0, 0.5]), np.array([1.0, 1.5])]], {})
    R['data.dataset.TemporalDataset.convert_to_dataset'] = lambda w: (w.tdataset(), ['time'], {})
    R['data.dataset.TemporalDataset.time_as_channels'] = lambda w: (w.tdataset(), [], {})
    R['data.dataset.TemporalDataset.time_as_observations'] = lambda w: (w.tdataset(), ['time'], {})
    R['data.dataset.dataset_from_dict'] = lambda w: (
        None, [(w.tdataset() if w.pick([0, 0, 1]) else w.dataset()).copy().to_dict()], {})

    @reg('data.dataset.load_dataset')
    def _(w):
        f = tmpfile('pkl')
        w.dataset().save(f, file_type='pkl', overwrite=True)
        return None, [f], {}

    R['data.dataset.merge_subsets'] = lambda w: (
        None, [w.form(w.dataset().split_obs(w.pick(['runs', 'conds']))[:w.size((2, 1, 3))])], {})
    R['data.ops.merge_datasets'] = lambda w: (None, [w.form([w.dataset() for _ in range(w.size())])], {})
    R['data.computations.average_dataset'] = lambda w: (None, [w.dataset()], {})
    R['data.computations.average_dataset_by'] = lambda w: (None, [w.dataset(), 'conds'], {})

    def resid(w):
        return w.m_values(w._vals(40, -20, 60).reshape(8, 5))
    for nm in ('cov_from_residuals', 'prec_from_residuals'):
        R['data.noise.' + nm] = lambda w: (
            None, [w.pick([lambda: resid(w), lambda: [resid(w) for _ in range(w.size((2, 1, 3)))],
                           lambda: w._vals(4 * 5 * 6, -20, 300).reshape(4, 5, 6)])()],
            {'method': w.pick(['shrinkage_diag', 'shrinkage_eye', 'diag', 'full'])})
    for nm in ('cov_from_measurements', 'prec_from_measurements', 'cov_from_unbalanced', 'prec_from_unbalanced'):
        R['data.noise.' + nm] = lambda w: (
            None, [w.dataset(), 'conds'], {'method': w.pick(['shrinkage_diag', 'shrinkage_eye', 'diag'])})

    # --- model
    for k, cls in (('fixed', 'ModelFixed'), ('weighted', 'ModelWeighted'), ('select', 'ModelSelect'),
                   ('interpolate', 'ModelInterpolate')):
        def bindm(k, cls):
            def ctor(w):
                r = w.rdms(n_rdm=1 if k == 'fixed' else 2, positive=True)
                if w.pick([0, 1, 0]) == 0:
                    return None, ['m', r], {}
                if k == 'fixed':
                    return None, ['m', r.dissimilarities[0].copy()], {}
                return None, ['m', r.dissimilarities.copy()], {}
            R['model.model.' + cls] = ctor
            R[f'model.model.{cls}.predict'] = lambda w: (w.model(k), [], {'theta': w.theta(k)})
            R[f'model.model.{cls}.predict_rdm'] = lambda w: (w.model(k), [], {'theta': w.theta(k)})
        bindm(k, cls)
    R['model.model.Model'] = lambda w: (None, ['m'], {})

    def base_model(w):
        from rsatoolbox.model.model import Model
        return Model('base')
    R['model.model.Model.predict'] = lambda w: (base_model(w), [], {})
    R['model.model.Model.predict_rdm'] = lambda w: (base_model(w), [], {})
    R['model.model.Model.fit'] = lambda w: (w.model(w.pick(['fixed', 'weighted', 'select', 'interpolate'])),
                                            [w.data_rdms()], w.pick_method([
                                                {'method': 'cosine'},
                                                {'method': 'cosine_cov', 'sigma_k': w.sigma_k(w.n_cond)}]))
    R['model.model.Model.to_dict'] = lambda w: (w.model(w.pick(['fixed', 'weighted'])), [], {})
    R['model.model.model_from_dict'] = lambda w: (None, [w.model(w.pick(['fixed', 'weighted', 'select',
                                                                               'interpolate'])).to_dict()], {})
    R['model.model_family.ModelFamily'] = lambda w: (
        None, [w.form([w.model('fixed') for _ in range(w.size((2, 1, 3)))])], {})

    def family(w):
        from rsatoolbox.model.model_family import ModelFamily
        return ModelFamily([w.model('fixed'), w.model('fixed')])
    R['model.model_family.ModelFamily.get_all_family_members'] = lambda w: (family(w), [], {})
    R['model.model_family.ModelFamily.get_family_member'] = lambda w: (family(w), [2], {})
    R['model.fitter.Fitter'] = lambda w: (None, [__import__('rsatoolbox').model.fitter.fit_mock], {'method': 'cosine'})
    for nm, k in (('fit_mock', 'fixed'), ('fit_select', 'select'), ('fit_interpolate', 'interpolate'),
                  ('fit_optimize', 'weighted'), ('fit_optimize_positive', 'weighted'),
                  ('fit_regress', 'weighted'), ('fit_regress_nn', 'weighted')):
        def fitrec(k):
            def f(w):
                kw = {'method': w.pick_method(['cosine_cov', 'cosine', 'corr_cov', 'corr'])}
                if 'cov' in kw['method']:
                    kw['sigma_k'] = w.sigma_k(w.n_cond, vector_ok=False)
                data = w.data_rdms()
                if (w.seed // 3) % 2 == 0:
                    # as crossval does: the data hold a subset of the patterns, the model is
                    # restricted with a real index array
                    # (crossval: `rdms.subsample_pattern(by=pattern_descriptor, value=pattern_idx)`)
                    pd = w.pdesc(absent_ok=True)
                    if pd in (None, 'cat'):
                        pd = 'index'
                    idx = np.unique(data.pattern_descriptors[pd])[1:]      # a fresh, ascending ndarray
                    data = data.subsample_pattern(pd, idx)
                    if kw.get('sigma_k') is not None:
                        kw['sigma_k'] = kw['sigma_k'][1:, 1:].copy()
                    kw['pattern_idx'] = idx
                    kw['pattern_descriptor'] = pd
                    w.tag('pattern_idx:array')
                return None, [w.model(k), data], kw
            return f
        R['model.fitter.' + nm] = fitrec(k)

    # --- inference
    def models_arg(w, with_theta=False):
        """the `models` argument: two models in a list (with theta when asked), one model in a
           list, one bare model, a tuple of models"""
        how = 'two' if with_theta else w.pick(['two', 'one-in-list', 'bare', 'tuple'])
        ms = w.models()
        if how == 'two':
            w.tag('container:2')
            return ms
        if how == 'tuple':
            w.tag('container:2'); w.tag('form:tuple')
            return tuple(ms)
        w.tag('container:1' if how == 'one-in-list' else 'container:bare')
        return [ms[1]] if how == 'one-in-list' else ms[1]
    def ev(**kw):
        return lambda w: (None, [models_arg(w), w.data_rdms()], dict(kw))
    def ev_theta(**kw):
        def f(w):
            k = dict(kw)
            th = (w.seed // 2) % 2 == 0 or w.vc == AUX_VC
            w.used.add('aux')
            if th:
                # one parameter vector per model (fixed: none, weighted: 2 weights), float arrays
                k['theta'] = [None, np.array([0.0, 1.0]) if w.aux('theta-unit') else np.array([0.75, 1.25])]
                w.tag('theta:array')
            return None, [models_arg(w, th), w.data_rdms()], k
        return f
    R['inference.evaluate.eval_fixed'] = ev_theta(method='cosine')
    R['inference.evaluate.eval_bootstrap'] = ev_theta(N=3)
    R['inference.evaluate.eval_bootstrap_pattern'] = ev_theta(N=3)
    R['inference.evaluate.eval_bootstrap_rdm'] = ev_theta(N=3)
    R['inference.evaluate.bootstrap_crossval'] = ev(N=2, k_pattern=2, k_rdm=2)
    R['inference.evaluate.eval_dual_bootstrap'] = ev(N=2, k_pattern=2, k_rdm=2)
    R['inference.evaluate.eval_dual_bootstrap_random'] = ev(N=2, n_pattern=2, n_rdm=2)
    R['inference.boot_testset.bootstrap_testset'] = ev(N=3)
    R['inference.boot_testset.bootstrap_testset_pattern'] = ev(N=3)
    R['inference.boot_testset.bootstrap_testset_rdm'] = ev(N=3)

    @reg('inference.evaluate.crossval')
    def _(w):
        from rsatoolbox.inference import sets_k_fold
        data = w.data_rdms()
        pd = w.pdesc(absent_ok=True)
        if pd == 'cat':
            pd = 'stim'      # two groups of patterns cannot be split into two folds with >= 2 groups
        kw = {} if pd is None else {'pattern_descriptor': pd}
        # random=True (alt 0): the index arrays inside the sets are unsorted ndarrays
        tr, te, ce = sets_k_fold(data, k_pattern=2, k_rdm=2, random=bool(w.random_opt()), **kw)
        return None, [models_arg(w), data, tr, te], dict(kw, ceil_set=ce, method='cosine')

    @reg('inference.noise_ceiling.cv_noise_ceiling')
    def _(w):
        from rsatoolbox.inference import sets_k_fold
        data = w.data_rdms()
        pd = w.pdesc(absent_ok=True)
        if pd == 'cat':
            pd = 'stim'
        kw = {} if pd is None else {'pattern_descriptor': pd}
        tr, te, ce = sets_k_fold(data, k_pattern=2, k_rdm=2, random=bool(w.random_opt()), **kw)
        return None, [data, ce, te], dict(kw, method='cosine')

    R['inference.noise_ceiling.boot_noise_ceiling'] = lambda w: (None, [w.data_rdms()], {'method': 'cosine'})
    for nm in ('bootstrap_sample', 'bootstrap_sample_pattern', 'bootstrap_sample_rdm'):
        R['inference.bootstrap.' + nm] = lambda w: (None, [w.rdms(n_rdm=w.stack())], {})
    R['inference.crossvalsets.sets_k_fold'] = lambda w: (None, [w.rdms(n_rdm=4)], {'k_rdm': 2, 'k_pattern': 2})
    R['inference.crossvalsets.sets_k_fold_pattern'] = lambda w: (None, [w.rdms()], {'k': 2})
    R['inference.crossvalsets.sets_k_fold_rdm'] = lambda w: (None, [w.rdms(n_rdm=4)], {'k_rdm': 2})
    R['inference.crossvalsets.sets_leave_one_out_pattern'] = lambda w: (None, [w.rdms(), w.pdesc()], {})
    R['inference.crossvalsets.sets_leave_one_out_rdm'] = lambda w: (None, [w.rdms()], {})
    R['inference.crossvalsets.sets_of_k_pattern'] = lambda w: (None, [w.rdms()], {'k': 2})
    R['inference.crossvalsets.sets_of_k_rdm'] = lambda w: (None, [w.rdms(n_rdm=4)], {'k': 2})
    R['inference.crossvalsets.sets_random'] = lambda w: (None, [w.rdms(n_rdm=4)], {'n_rdm': 2, 'n_pattern': 2})

    @reg('inference.result.Result')
    def _(w):
        ev_ = w.evaluations()
        return None, [w.models(), ev_, 'cosine', 'fixed', np.array([0.5, 0.9])], \
            {'variances': np.eye(4) * 0.01, 'dof': 5}

    for nm, a in (('get_ci', [0.9]), ('get_errorbars', []), ('get_means', []), ('get_model_var', []),
                  ('get_noise_ceil', []), ('get_sem', []), ('test_all', []),
                  ('test_noise', []), ('test_pairwise', []), ('test_zero', []), ('to_dict', [])):
        R['inference.result.Result.' + nm] = (lambda a: lambda w: (w.result(), list(a), {}))(a)

    @reg('inference.result.Result.save')
    def _(w):
        ft = w.pick(['hdf5', 'pkl'])
        return w.result(), [tmpfile(ft)], {'file_type': ft, 'overwrite': True}

    R['inference.result.result_from_dict'] = lambda w: (None, [w.result().to_dict()], {})

    @reg('inference.result.load_results')
    def _(w):
        f = tmpfile('pkl')
        w.result().save(f, file_type='pkl', overwrite=True)
        return None, [f], {}

    # --- util
    R['util.data_utils.extract_dict'] = lambda w: (None, [w.rdms().pattern_descriptors, [0, 2]], {})
    def label_arg(w):
        """a label sequence as the library's own callers pass it (an obs descriptor of a dataset): str
           with repeats / ascending repeat-free int / the seed's int and float classes; list or ndarray"""
        # keyed by `rot` (independent of the list / ndarray parity of the seed): str with repeats,
        # unsorted int (or the seed's float class), ascending repeat-free int
        v = w.dataset().obs_descriptors[['conds', ['blk', 'onset'][w.alt], 'trial'][w.rot]]
        w.tag('label-arg:' + classify(v))
        return v
    R['util.data_utils.get_unique_inverse'] = lambda w: (None, [label_arg(w)], {})
    R['util.data_utils.get_unique_unsorted'] = lambda w: (None, [label_arg(w)], {})
    R['util.descriptor_utils.bool_index'] = lambda w: (None, [w._d(w.conds()), w.pick(['c1', ['c1', 'c0'], np.array(['c2', 'c1'])])], {})
    R['util.descriptor_utils.num_index'] = lambda w: (None, [w._d(w.conds()), w.pick([['c1', 'c2'], np.array(['c2', 'c1', 'c2'])])], {})
    R['util.descriptor_utils.check_descriptor_length'] = lambda w: (None, [w.rdms().pattern_descriptors, w.n_cond], {})
    R['util.descriptor_utils.check_descriptor_length_error'] = lambda w: (
        None, [w.rdms().pattern_descriptors, 'pattern_descriptors', w.n_cond], {})
    R['util.descriptor_utils.desc_eq'] = lambda w: (None, [w.rdms().pattern_descriptors,
                                                           w.rdms().pattern_descriptors], {})
    R['util.descriptor_utils.format_descriptor'] = lambda w: (None, [w.rdms().pattern_descriptors], {})
    R['util.descriptor_utils.parse_input_descriptor'] = lambda w: (None, [w.rdms().descriptors], {})
    R['util.descriptor_utils.subset_descriptor'] = lambda w: (None, [w.rdms().pattern_descriptors, [0, 2]], {})
    R['util.inference_util.all_tests'] = lambda w: (
        None, [w.evaluations(), np.array([0.5, 0.9])],
        {'model_var': np.array([0.01, 0.02]), 'diff_var': np.array([0.02]),
         'noise_ceil_var': np.array([[0.01, 0.01], [0.01, 0.01]]), 'dof': 5})
    R['util.inference_util.bootstrap_pair_tests'] = lambda w: (None, [w.evaluations()], {})
    R['util.inference_util.default_k_pattern'] = lambda w: (None, [12], {})
    R['util.inference_util.default_k_rdm'] = lambda w: (None, [12], {})
    R['util.inference_util.extract_variances'] = lambda w: (None, [np.eye(4) * 0.01], {'nc_included': True})
    R['util.inference_util.get_errorbars'] = lambda w: (
        None, [np.array([0.01, 0.02]), w.evaluations(), 5], {})
    R['util.inference_util.input_check_model'] = lambda w: (None, [models_arg(w)], {})
    R['util.inference_util.nc_tests'] = lambda w: (
        None, [w.evaluations(), np.array([0.5, 0.9])],
        {'noise_ceil_var': np.array([[0.01, 0.02], [0.01, 0.02]]), 'dof': 5})
    R['util.inference_util.pair_tests'] = lambda w: (
        None, [w.evaluations()], {'diff_var': np.array([0.02]), 'dof': 5})
    R['util.inference_util.pool_rdm'] = lambda w: (None, [w.data_rdms(n_rdm=w.stack((4, 1, 2)))], {'method': w.pick_method(
        ['cosine', 'corr', 'spearman', 'rho-a', 'cosine_cov', 'neg_riem_dist'])})
    def pool(w):
        m = w.pick_method(['cosine_cov', 'euclid', 'corr_cov', 'cosine', 'corr', 'spearman', 'rho-a', 'kendall'])
        kw = {'method': m}
        if 'cov' in m:
            kw['sigma_k'] = w.sigma_k(w.n_cond, vector_ok=False)
        return None, [w.data_rdms(n_rdm=w.stack((4, 1, 2)))], kw
    R['util.pooling.pool_rdm'] = pool
    ev3 = lambda w: np.abs(w._vals(4 * 2 * 5, 1, 60).reshape(4, 2, 5)) / 64.0  # noqa: E731
    R['util.inference_util.ranksum_pair_test'] = lambda w: (None, [ev3(w)], {})
    R['util.inference_util.ranksum_value_test'] = lambda w: (None, [ev3(w)], {})
    for nm in ('t_test_0', 't_tests'):
        R['util.inference_util.' + nm] = lambda w: (None, [w.evaluations(), np.array([0.01, 0.02])], {'dof': 5})
    R['util.inference_util.t_tests'] = lambda w: (None, [w.evaluations(), np.array([0.02])], {'dof': 5})
    R['util.inference_util.t_test_nc'] = lambda w: (
        None, [w.evaluations(), np.array([0.01, 0.02]), 0.8], {'dof': 5})
    R['util.inference_util.zero_tests'] = lambda w: (None, [w.evaluations()],
                                                     {'model_var': np.array([0.01, 0.02]), 'dof': 5})
    R['util.matrix.centering'] = lambda w: (None, [4], {})
    R['util.matrix.get_v'] = lambda w: (None, [4, w.sigma_k(4, vector_ok=False)], {})
    R['util.matrix.indicator'] = lambda w: (None, [np.array([0, 1, 0, 2, 1])], {})
    R['util.matrix.pairwise_contrast'] = lambda w: (None, [np.array([0, 1, 0, 2, 1])], {})
    R['util.matrix.pairwise_contrast_sparse'] = lambda w: (None, [np.array([0, 1, 0, 2, 1])], {})
    R['util.matrix.row_col_indicator_g'] = lambda w: (None, [4], {})
    R['util.matrix.row_col_indicator_rdm'] = lambda w: (None, [4], {})
    R['util.matrix.square_between_category_binary_mask'] = lambda w: (None, [[0, 1], [2, 3]], {'size': 5})
    R['util.matrix.square_category_binary_mask'] = lambda w: (None, [[0, 2]], {'size': 5})
    R['util.rdm_utils.add_pattern_index'] = lambda w: (None, [w.rdms(), w.pdesc(absent_ok=True)], {})
    R['util.rdm_utils.batch_to_matrices'] = lambda w: (
        None, [w.rdms().dissimilarities.copy() if w.pick([0, 1]) else w.rdms().get_matrices()], {})
    R['util.rdm_utils.batch_to_vectors'] = lambda w: (
        None, [w.pick([lambda: w.rdms().dissimilarities.copy(), lambda: w.rdms().get_matrices(),
                             lambda: w.rdms().dissimilarities[0].copy()])()], {})
    R['util.rdm_utils.category_condition_idxs'] = lambda w: (None, [w.rdms(), 'cat'], {})
    R['util.vis_utils.weight_to_matrices'] = lambda w: (
        None, [np.abs(w.rdms().dissimilarities) if w.pick([0, 1]) else np.abs(w.rdms().get_matrices())], {})

    @reg('util.searchlight.get_volume_searchlight')
    def _(w):
        return None, [np.ones((3, 3, 3), dtype=int)], {'radius': 1, 'threshold': 0.5}

    @reg('util.searchlight.get_searchlight_RDMs')
    def _(w):
        data = w.m_values(w._vals(8 * 27, -20, 400).reshape(8, 27))
        centers = np.array([13, 14])
        neighbors = [np.array([4, 10, 12, 13, 14, 16, 22]), np.array([5, 11, 13, 14, 17, 23])]
        events = np.array([0, 1, 2, 3, 0, 1, 2, 3])
        return None, [data, centers, neighbors, events], {'method': 'correlation', 'verbose': False}

    @reg('util.searchlight.evaluate_models_searchlight')
    def _(w):
        from rsatoolbox.inference import eval_fixed
        return None, [w.data_rdms(), w.model('fixed'), eval_fixed], {'method': 'corr', 'n_jobs': 1}

    def dist_matrix(w, n=5):
        pts = w._vals(n * 3, 1, 60).reshape(n, 3) / 4.0
        return np.sqrt(((pts[:, None, :] - pts[None, :, :]) ** 2).sum(-1))

    def mds_kw(w, n=5):
        kw = {}
        k = w.pick(['none', 'weight', 'weight+init'])
        w.used.add('aux')
        if k == 'none' and w.vc == AUX_VC:
            k = 'weight'
        if k != 'none':
            # maximum is not 1: a normalisation shows (class 6: maximum exactly 1, "nothing to do")
            wt = (np.ones((n, n)) - np.eye(n)) * (1.0 if w.aux('weight-max-1') else 2.0)
            wt[0, 1] = wt[1, 0] = 0.5
            kw['weight'] = wt
        if k == 'weight+init':
            kw['init'] = w._vals(n * 2, 1, 60).reshape(n, 2) / 8.0
        return kw
    R['util.vis_utils.smacof'] = lambda w: (
        None, [dist_matrix(w)], dict(mds_kw(w), n_init=1, max_iter=5, random_state=w.seed % 7,
                                     metric=w.pick([True, False, True])))
    R['util.vis_utils.Weighted_MDS'] = lambda w: (
        None, [], {'n_components': 2, 'dissimilarity': 'precomputed', 'n_init': 1, 'random_state': 0})

    def wmds(w):
        from rsatoolbox.util.vis_utils import Weighted_MDS
        return Weighted_MDS(n_components=2, dissimilarity='precomputed', n_init=1, max_iter=5, random_state=0)
    R['util.vis_utils.Weighted_MDS.fit'] = lambda w: (wmds(w), [dist_matrix(w)], mds_kw(w))
    R['util.vis_utils.Weighted_MDS.fit_transform'] = lambda w: (wmds(w), [dist_matrix(w)], mds_kw(w))
    R['util.matrix.run'] = lambda w: (None, [], {})
    # helpers whose documented contract is to update their *first* argument: everything else
    # (the second dictionary, arrays held in either) is still checked
    R['util.descriptor_utils.append_descriptor'] = lambda w: (
        None, [dict(w.rdms().rdm_descriptors), w.rdms(n_rdm=w.size((1, 2, 3))).rdm_descriptors], {})
    R['util.descriptor_utils.dict_to_list'] = lambda w: (
        None, [{'cond': np.array(w.conds()), 'cat': {'0': 1, '1': 0, '2': 1}, 'wts': w._vals(3)}], {})

    @reg('util.file_io.remove_file')
    def _(w):
        import io
        f = tmpfile('tmp')
        open(f, 'w').write('x')
        return None, [w.pick([f, io.BytesIO(b'abc'), tmpfile('missing')])], {}

    return R


RECIPES = _recipes()

NO_FACTORY = {}


_PARAMS = {}
DESC_OPTIONS = ('pattern_descriptor', 'rdm_descriptor', 'random')


def params_of(qualname):
    """parameter names of a public callable (by introspection, cached)"""
    if not _PARAMS:
        from engines import C12_heap
        for q, (kind, fn, owner) in C12_heap.discover().items():
            try:
                _PARAMS[q] = list(inspect.signature(fn).parameters)
            except (TypeError, ValueError):
                _PARAMS[q] = []
    return _PARAMS.get(qualname, [])


def has_desc_options(qualname):
    """does the callable take a grouping descriptor / the `random` switch?  (these get twice the
       argument seeds: 12 consecutive seeds cover every (list | array) x dtype x selection class)"""
    return any(p in DESC_OPTIONS for p in params_of(qualname))


def _auto_options(w, qualname, kind, args, kwargs):
    """every callable that has a `pattern_descriptor` / `rdm_descriptor` / `random` parameter the
       recipe did not decide gets it from the seed's rotation (found from the signature, so a new
       function with such a parameter is covered as soon as it has a recipe)"""
    names = params_of(qualname)
    if kind == 'method' and names[:1] == ['self']:
        names = names[1:]
    for opt, choose in (('pattern_descriptor', w.pdesc), ('rdm_descriptor', w.rdesc), ('random', w.random_opt)):
        if opt not in names or opt in kwargs or opt in w.noauto or names.index(opt) < len(args):
            continue
        v = choose(True) if opt != 'random' else choose()
        if v is not None:
            kwargs[opt] = v


def _tag_selection(w, qualname, self_obj, args, kwargs):
    """coverage tags `sel:<pattern|rdm>:<value class of the descriptor the callable groups by>`
       (`default` when the option is left out), and `sel:pattern:array:asc+shuffle` for the class
       "ascending repeat-free ndarray selected and the randomised branch requested"""
    names = [n for n in params_of(qualname) if n != 'self']
    if not any(o in names for o in DESC_OPTIONS[:2]):
        return
    bound = dict(zip(names, args))
    bound.update(kwargs)
    from rsatoolbox.rdm.rdms import RDMs
    objs = [x for x in [self_obj] + list(args) + list(kwargs.values()) if isinstance(x, RDMs)]
    for opt, fam, attr in (('pattern_descriptor', 'pattern', 'pattern_descriptors'),
                           ('rdm_descriptor', 'rdm', 'rdm_descriptors')):
        if opt not in names:
            continue
        name = bound.get(opt)
        if name is None or not objs or name not in getattr(objs[0], attr):
            w.tag(f'sel:{fam}:default')
            continue
        cls = classify(getattr(objs[0], attr)[name])
        w.tag(f'sel:{fam}:{cls}')
        if fam == 'pattern' and cls.startswith('array:asc') and bound.get('random') is True:
            w.tag('sel:pattern:array:asc+shuffle')


def build_call(qualname, seed, vc=0, nz=None):
    key = qualname[len('rsatoolbox.'):]
    if qualname in NO_FACTORY:
        raise Uncovered(NO_FACTORY[qualname])
    if key not in RECIPES:
        raise Uncovered('no argument factory')
    w = World(seed, vc or 0)
    self_obj, args, kwargs = RECIPES[key](w)
    args, kwargs = list(args), dict(kwargs)
    if nz:
        args, kwargs = _noise_form(w, qualname, args, kwargs, nz)
    _auto_options(w, qualname, 'method' if self_obj is not None else 'function', args, kwargs)
    _tag_selection(w, qualname, self_obj, args, kwargs)
    build_call.last_tags = sorted(w.tags)
    build_call.last_used = set(w.used)
    return self_obj, args, kwargs


# forms of a per-fold `noise` argument (case key `nz`); '+nested': a list of datasets with a list
# (one entry per dataset) of per-fold lists
NOISE_FORMS = ['list-asym', 'tuple-asym', 'dict-asym', 'dict-fold-asym', '3d-asym', 'list-sym',
               'est-list', 'est-3d', 'nested-list-asym']


def noise_callables(quals):
    """public callables with a `noise` parameter (by signature: a new estimator is included)"""
    return [q for q in quals if 'noise' in params_of(q)]


def _noise_form(w, qualname, args, kwargs, nz):
    """round 7: the callable's `noise` argument given per cross-validation fold (form `nz`), with
       the options that make the library read it that way (method crossnobis, a grouping and a
       fold descriptor).  Built from the signature, so that every callable with a `noise`
       parameter — also one that accepts only a single matrix and must then reject the container
       without touching it — gets every container form"""
    names = params_of(qualname)
    if 'dataset' in names:
        ds = w.tdataset() if 'time_descriptor' in names else w.dataset()
        folds = sorted(set(np.asarray(ds.obs_descriptors['runs']).tolist()))
        if nz == 'dict-asym':
            # integer fold labels 0..k-1: "keyed by fold value" and "keyed by fold index" coincide
            ds.obs_descriptors['fold'] = w._d([folds.index(r) for r in np.asarray(ds.obs_descriptors['runs']).tolist()])
        cv = 'fold' if nz == 'dict-asym' else 'runs'
        kw = {'noise': None}
        if 'method' in names:
            kw['method'] = 'crossnobis'
        pos = [ds]
        if names[:2] == ['dataset', 'descriptor'] and 'method' not in names and w.seed % 2:
            pos.append('conds')         # positional descriptor
        else:
            kw['descriptor'] = 'conds'
        if 'cv_descriptor' in names:
            kw['cv_descriptor'] = cv
        if 'remove_mean' in names:
            kw['remove_mean'] = w.pick([False, True])
        if nz == 'nested-list-asym':
            ds2 = w.tdataset() if 'time_descriptor' in names else w.dataset()
            pos[0] = w.form([ds, ds2])
            kw['noise'] = [w.noise_folds('list-asym', ds.n_channel, len(folds)),
                           w.noise_folds('list-asym', ds2.n_channel, len(folds))]
            w.tag('noise:nested-list-asym')
        else:
            kw['noise'] = w.noise_folds(nz.replace('nested-', ''), ds.n_channel, len(folds), folds)
        return pos, kw
    # no `dataset` parameter (calc_one_similarity): the recipe's arguments, noise replaced
    n_ch = next((a.n_channel for a in args if hasattr(a, 'n_channel')), 5)
    kw = dict(kwargs)
    if 'method' in names:
        kw['method'] = 'crossnobis'
    form = 'list-asym' if nz == 'nested-list-asym' else nz
    kw['noise'] = w.noise_folds(form, n_ch, 2, ['run0', 'run1'])
    return args, kw


def invoke(kind, fn, owner, qualname, self_obj, args, kwargs):
    if kind == 'method':
        return getattr(self_obj, qualname.rsplit('.', 1)[1])(*args, **kwargs)
    return fn(*args, **kwargs)
