"""C12 helper — argument factories for the introspected public callables.

`build_call(qualname, kind, fn, owner, seed)` returns `(thunk_args, label)`:
   thunk_args = {'self': obj or None, 'args': [...], 'kwargs': {...}}
built deterministically from `seed` (every call builds *fresh* objects: the in-place
operations of a history destroy them).  Factories are keyed by parameter name and a small
context (module / class); a callable for which no factory applies is reported as uncovered
with the reason, never silently dropped.
"""
import inspect
import os
import random
import tempfile

import numpy as np


class Uncovered(Exception):
    pass


TMP = tempfile.mkdtemp(prefix='c12_')
_counter = [0]


def tmpfile(ext):
    _counter[0] += 1
    return os.path.join(TMP, f'f{os.getpid()}_{_counter[0]}.{ext}')


class World:
    """small, seeded universe of rsatoolbox objects"""

    def __init__(self, seed):
        self.rng = random.Random(seed)
        self.seed = seed
        self._npick = 0
        self.tags = set()
        # missing dissimilarities: none / one pair missing in every RDM (common mask, as
        # subsample_pattern produces) / a different pair per RDM (as from_partials produces)
        self.nan_mode = ['none', 'common', 'per-rdm'][seed % 3]
        self.variant = seed % 2          # 0: list-valued descriptors, 1: numpy-array-valued
        self.n_cond = 4 + (seed // 2) % 2
        self.n_rdm = 3

    def pick(self, options):
        """rotate through the options with the seed: consecutive seeds cover all of them"""
        options = list(options)
        k = (self.seed + 3 * self._npick) % len(options)
        self._npick += 1
        return options[k]

    def tag(self, t):
        self.tags.add(t)

    def with_nans(self, d, nan=None):
        """put NaNs into a stack of RDM vectors according to the seed's mode"""
        mode = nan or self.nan_mode
        self.tag('nan:' + mode)
        d = np.array(d, dtype=float)
        npair = d.shape[1]
        if mode == 'none' or npair < 3:
            return d
        j0 = self.seed % npair
        for r in range(d.shape[0]):
            d[r, j0 if mode == 'common' else (j0 + r) % npair] = np.nan
        return d

    def eval_nan(self):
        """compare() rejects differing NaN positions: models and data share the common mask"""
        return 'none' if self.nan_mode == 'none' or getattr(self, '_no_nan', False) else 'common'

    def sigma_k(self, n, vector_ok=True):
        """None / pattern covariance matrix / variance vector, as real float arrays"""
        k = self.pick(['none', 'matrix', 'vector'] if vector_ok else ['matrix', 'none'])
        self.tag('sigma_k:' + k)
        if k == 'none':
            return None
        if k == 'vector':
            return np.linspace(0.5, 1.5, n)
        m = np.eye(n) * 1.5
        m[0, 1] = m[1, 0] = 0.25
        return m

    def weights_for(self, r):
        """argument `weights` of RDMs.mean: 2-D array of the vectors' shape, 1-D per-RDM array,
           a descriptor name holding either, or None; the arrays are real float ndarrays that a
           careless asarray + in-place write would corrupt"""
        k = self.pick(['2d', '1d', 'name-2d', 'name-1d', 'none'])
        self.tag('weights:' + k)
        w2 = np.linspace(0.5, 2.0, r.dissimilarities.size).reshape(r.dissimilarities.shape)
        w1 = np.linspace(1.0, 2.0, r.n_rdm)
        if k == '2d':
            return w2
        if k == '1d':
            return w1
        if k == 'name-2d':
            r.rdm_descriptors['wts'] = w2
            return 'wts'
        if k == 'name-1d':
            r.rdm_descriptors['wts'] = w1
            return 'wts'
        return None

    def _vals(self, n, lo=-2, hi=40):
        # dyadic values, a few negative (crossnobis RDMs are signed), all distinct
        xs = self.rng.sample(range(lo * 8, hi * 8), n)
        a = np.array(xs, dtype=float) / 8.0
        if not (a < 0).any():
            a[self.rng.randrange(n)] = -0.375
        return a

    def _d(self, v):
        return np.array(v) if self.variant else list(v)

    def conds(self, n=None):
        n = n or self.n_cond
        c = [f'c{i}' for i in range(n)]
        self.rng.shuffle(c)
        if c == sorted(c):
            c[0], c[1] = c[1], c[0]
        return c

    def rdms(self, n_rdm=None, n_cond=None, conds=None, positive=False, nan=None):
        from rsatoolbox.rdm.rdms import RDMs
        n_rdm = n_rdm or self.n_rdm
        n_cond = n_cond or self.n_cond
        npair = n_cond * (n_cond - 1) // 2
        d = np.stack([self._vals(npair) for _ in range(n_rdm)])
        if positive:
            d = np.abs(d) + 0.125
        d = self.with_nans(d, nan)
        conds = conds or self.conds(n_cond)
        return RDMs(
            d, dissimilarity_measure='squared euclidean',
            descriptors={'session': 'sesA', 'subj': 7},
            rdm_descriptors={'name': self._d([f'r{i}' for i in range(n_rdm)]),
                             'grp': self._d([i // 2 for i in range(n_rdm)])},
            pattern_descriptors={'cond': self._d(conds),
                                 'cat': self._d([i % 2 for i in range(n_cond)])})

    def euclid_rdms(self, n_rdm=2, conds=None, nan=None):
        """squared euclidean RDMs of random point clouds (valid distance matrices)"""
        r = self.rdms(n_rdm=n_rdm, conds=conds, nan='none')
        n = r.n_cond
        rows = []
        for _ in range(n_rdm):
            pts = self._vals(n * 6, 1, 60).reshape(n, 6) / 4.0
            d = ((pts[:, None, :] - pts[None, :, :]) ** 2).sum(-1)
            rows.append(d[np.triu_indices(n, 1)])
        r.dissimilarities = self.with_nans(np.stack(rows), nan)
        return r

    def dataset(self, n_cond=None, n_rep=2, n_ch=5):
        from rsatoolbox.data.dataset import Dataset
        n_cond = n_cond or self.n_cond
        n_obs = n_cond * n_rep
        m = self._vals(n_obs * n_ch, -20, 60).reshape(n_obs, n_ch)
        obs = [(c, r) for r in range(n_rep) for c in range(n_cond)]
        self.rng.shuffle(obs)
        return Dataset(
            m, descriptors={'subj': 3, 'task': 'view'},
            obs_descriptors={'conds': self._d([f'c{c}' for c, _ in obs]),
                             'runs': self._d([f'run{r}' for _, r in obs]),
                             'trial': self._d(list(range(n_obs)))},
            channel_descriptors={'rois': self._d(['V1', 'V1', 'V2', 'V2', 'IT'][:n_ch]),
                                 'vox': self._d([f'v{i}' for i in range(n_ch)])})

    def count_dataset(self):
        ds = self.dataset()
        ds.measurements = np.abs(ds.measurements) + 1.0
        return ds

    def tdataset(self, n_cond=3, n_rep=2, n_ch=3, n_time=4):
        from rsatoolbox.data.dataset import TemporalDataset
        n_obs = n_cond * n_rep
        m = self._vals(n_obs * n_ch * n_time, -20, 80).reshape(n_obs, n_ch, n_time)
        obs = [(c, r) for r in range(n_rep) for c in range(n_cond)]
        self.rng.shuffle(obs)
        return TemporalDataset(
            m, descriptors={'subj': 3},
            obs_descriptors={'conds': self._d([f'c{c}' for c, _ in obs]),
                             'runs': self._d([f'run{r}' for _, r in obs]),
                             'trial': self._d(list(range(n_obs)))},
            channel_descriptors={'rois': self._d(['V1', 'V2', 'V2'][:n_ch]),
                                 'vox': self._d([f'v{i}' for i in range(n_ch)])},
            time_descriptors={'time': np.array([0.0, 0.5, 1.0, 1.5][:n_time])})  # bin_time needs an array

    def model(self, kind='fixed'):
        from rsatoolbox.model import ModelFixed, ModelWeighted, ModelSelect, ModelInterpolate
        r = self.rdms(n_rdm=1 if kind == 'fixed' else 2, positive=True, conds=sorted(self.conds()),
                      nan=self.eval_nan())
        cls = {'fixed': ModelFixed, 'weighted': ModelWeighted, 'select': ModelSelect,
               'interpolate': ModelInterpolate}[kind]
        return cls(kind, r)

    def models(self):
        return [self.model('fixed'), self.model('weighted')]

    def data_rdms(self, n_rdm=4):
        return self.euclid_rdms(n_rdm=n_rdm, conds=sorted(self.conds()), nan=self.eval_nan())

    def result(self):
        from rsatoolbox.inference import eval_fixed
        self._no_nan = True
        return eval_fixed(self.models(), self.data_rdms(), method='cosine')

    def evaluations(self, n_boot=6, n_model=2):
        a = self._vals(n_boot * n_model, 1, 7).reshape(n_boot, n_model) / 8.0
        return np.abs(a)

    def prec(self, n=5):
        self.tag('noise:array')
        a = np.eye(n) * 2.0
        a[0, 1] = a[1, 0] = 0.25
        return a


# ---- per-callable argument recipes ----------------------------------------------------

def _recipes():
    R = {}

    def reg(suffix):
        def deco(f):
            R[suffix] = f
            return f
        return deco

    # --- rdm.rdms
    @reg('rdm.rdms.RDMs')
    def _(w):
        src = w.rdms()
        return None, [src.dissimilarities.copy()], dict(
            dissimilarity_measure='euclidean', descriptors={'session': 'sesA'},
            rdm_descriptors={'name': w._d(['r0', 'r1', 'r2']), 'scalar_like': w._d([5, 6, 7])},
            pattern_descriptors={'cond': w._d(w.conds()), 'cat': w._d([i % 2 for i in range(w.n_cond)])})

    @reg('rdm.rdms.RDMs.__getitem__')
    def _(w):
        return w.rdms(), [w.pick([0, 1, [0, 2]])], {}

    for meth, mk in (('subset', lambda w: w.pick([['name', 'r1'], ['grp', 0], ['name', np.array(['r0', 'r2'])]])),
                     ('subsample', lambda w: ['name', ['r1', 'r1', 'r2']]),
                     ('subset_pattern', lambda w: ['cond', ['c0', 'c2', 'c3']] if w.rng.random() < .6 else ['cat', 1]),
                     ('subsample_pattern', lambda w: ['cond', ['c1', 'c1', 'c3', 'c0']])):
        R['rdm.rdms.RDMs.' + meth] = (lambda mk: lambda w: (w.rdms(), mk(w), {}))(mk)

    for meth in ('copy', 'get_matrices', 'get_vectors', 'to_df', 'to_dict'):
        R['rdm.rdms.RDMs.' + meth] = lambda w: (w.rdms(), [], {})
    for fn_ in ('minmax_transform', 'positive_transform', 'sqrt_transform'):
        R['rdm.transform.' + fn_] = lambda w: (None, [w.rdms()], {})
    R['rdm.transform.rank_transform'] = lambda w: (None, [w.rdms()], {'method': w.pick(['average', 'min', 'dense'])})
    R['inference.result.Result.summary'] = lambda w: (w.result(), [], {})

    @reg('rdm.rdms.RDMs.mean')
    def _(w):
        # weights only matter when dissimilarities are missing: every weights variant meets NaNs
        r = w.rdms(nan='per-rdm' if w.nan_mode == 'none' else w.nan_mode)
        return r, [], {'weights': w.weights_for(r)}

    @reg('rdm.rdms.RDMs.save')
    def _(w):
        ft = w.pick(['hdf5', 'pkl'])
        return w.rdms(), [tmpfile(ft)], {'file_type': ft, 'overwrite': True}

    @reg('rdm.rdms.concat')
    def _(w):
        c = w.conds()
        a = w.rdms(n_rdm=2, conds=c)
        c2 = list(c)
        w.rng.shuffle(c2)
        if c2 == c:
            c2.reverse()
        b = w.rdms(n_rdm=2, conds=c2)
        if w.rng.random() < .5:
            return None, [a, b], {}
        return None, [[a, b]], {}

    @reg('rdm.rdms.permute_rdms')
    def _(w):
        r = w.rdms()
        p = list(range(r.n_cond))
        w.rng.shuffle(p)
        return None, [r], {'p': np.array(p)}

    @reg('rdm.rdms.inverse_permute_rdms')
    def _(w):
        from rsatoolbox.rdm.rdms import permute_rdms
        r = w.rdms()
        p = list(range(r.n_cond))
        w.rng.shuffle(p)
        return None, [permute_rdms(r, np.array(p))], {}

    @reg('rdm.rdms.get_categorical_rdm')
    def _(w):
        return None, [w._d([0, 1, 0, 2, 1])], {}

    @reg('rdm.rdms.rdms_from_dict')
    def _(w):
        d = w.rdms().copy().to_dict()
        return None, [d], {}

    @reg('rdm.rdms.load_rdm')
    def _(w):
        f = tmpfile('pkl')
        w.rdms().save(f, file_type='pkl', overwrite=True)
        return None, [f], {}

    # --- rdm.transform
    @reg('rdm.transform.transform')
    def _(w):
        return None, [w.rdms(), lambda x: x * 2.0], {}

    @reg('rdm.transform.geotopological_transform')
    def _(w):
        return None, [w.rdms(), 0.25, 0.75], {}

    @reg('rdm.transform.geodesic_transform')
    def _(w):
        return None, [w.rdms(positive=True)], {}

    # --- rdm.combine
    @reg('rdm.combine.from_partials')
    def _(w):
        a = w.rdms(n_rdm=1, n_cond=3, conds=['c0', 'c2', 'c1'])
        b = w.rdms(n_rdm=2, n_cond=3, conds=['c3', 'c1', 'c0'])
        return None, [[a, b]], {'descriptor': 'cond'}

    @reg('rdm.combine.rescale')
    def _(w):
        return None, [w.rdms(positive=True)], {'method': w.pick(['evidence', 'setsize', 'simple'])}

    # --- rdm.compare
    def cmp(w, sig=False, **kw):
        c = sorted(w.conds())
        # differing NaN positions are rejected by compare: both stacks use the common mask then
        nan = 'common' if w.nan_mode != 'none' else 'none'
        if sig:
            kw = dict(kw, sigma_k=w.sigma_k(w.n_cond))
        return None, [w.euclid_rdms(n_rdm=2, conds=c, nan=nan), w.euclid_rdms(n_rdm=3, conds=c, nan=nan)], kw
    for nm in ('compare', 'compare_bures_metric', 'compare_bures_similarity', 'compare_correlation',
               'compare_correlation_cov_weighted', 'compare_cosine', 'compare_cosine_cov_weighted',
               'compare_kendall_tau', 'compare_kendall_tau_a', 'compare_neg_riemannian_distance',
               'compare_rho_a', 'compare_spearman'):
        R['rdm.compare.' + nm] = (lambda sig: lambda w: cmp(w, sig=sig))('cov_weighted' in nm or 'riemann' in nm)
    R['rdm.compare.compare'] = lambda w: cmp(w, sig=True, method=w.pick(
        ['cosine_cov', 'cosine', 'corr_cov', 'corr', 'spearman', 'tau-a', 'rho-a', 'kendall']))

    @reg('rdm.pairs.pairs_by_percentile')
    def _(w):
        w.variant = 1
        return None, [w.rdms()], {'min': 0, 'max': 60, 'cond': 'c1'}

    # --- rdm.calc
    def calc(method=None, **extra):
        def f(w):
            ds = w.count_dataset() if method and 'poisson' in method else w.dataset()
            kw = dict(extra)
            if method:
                kw['method'] = method
            return None, [ds], kw
        return f
    def calc_any(w):
        m = w.pick(['mahalanobis', 'crossnobis', 'euclidean', 'correlation', 'poisson', 'poisson_cv'])
        extra = {'descriptor': 'conds', 'cv_descriptor': 'runs'}
        if m in ('mahalanobis', 'crossnobis'):
            extra['noise'] = w.prec()
            w.tag('noise:array')
        return calc(m, **extra)(w)
    R['rdm.calc.calc_rdm'] = calc_any
    R['rdm.calc.calc_rdm_correlation'] = calc(descriptor='conds')
    R['rdm.calc.calc_rdm_euclidean'] = calc(descriptor='conds')
    R['rdm.calc.calc_rdm_mahalanobis'] = lambda w: (w.tag('noise:array'), (None, [w.dataset()], {'descriptor': 'conds', 'noise': w.prec()}))[1]
    R['rdm.calc.calc_rdm_crossnobis'] = lambda w: (None, [w.dataset(), 'conds'],
                                                  {'noise': w.prec(), 'cv_descriptor': 'runs'})
    R['rdm.calc.calc_rdm_poisson'] = lambda w: (None, [w.count_dataset()], {'descriptor': 'conds'})
    R['rdm.calc.calc_rdm_poisson_cv'] = lambda w: (None, [w.count_dataset()],
                                                  {'descriptor': 'conds', 'cv_descriptor': 'runs'})
    R['rdm.calc.calc_rdm_movie'] = lambda w: (None, [w.tdataset()], w.pick([
        {'method': 'euclidean', 'descriptor': 'conds'},
        {'method': 'mahalanobis', 'descriptor': 'conds', 'noise': w.prec(3)}]))
    R['rdm.calc_unbalanced.calc_rdm_unbalanced'] = lambda w: (
        None, [w.dataset()], w.pick([
            {'method': 'crossnobis', 'descriptor': 'conds', 'cv_descriptor': 'runs', 'noise': w.prec()},
            {'method': 'euclidean', 'descriptor': 'conds', 'cv_descriptor': 'runs'},
            {'method': 'mahalanobis', 'descriptor': 'conds', 'noise': w.prec()}]))

    @reg('rdm.calc_unbalanced.calc_one_similarity')
    def _(w):
        ds = w.dataset()
        a = ds.subset_obs('conds', 'c0').copy()
        b = ds.subset_obs('conds', 'c1').copy()
        return None, [a, b, np.arange(a.n_obs), np.arange(b.n_obs) + 1], {'method': 'euclidean'}

    R['rdm.calc_unbalanced.ensure_double'] = lambda w: (None, [w._vals(6)], {})

    # --- data
    def ds_ctor(w):
        src = w.dataset()
        return None, [src.measurements.copy()], dict(
            descriptors={'subj': 3}, obs_descriptors={k: w._d(list(v)) for k, v in src.obs_descriptors.items()},
            channel_descriptors={k: w._d(list(v)) for k, v in src.channel_descriptors.items()})
    R['data.base.DatasetBase'] = ds_ctor
    R['data.dataset.Dataset'] = ds_ctor

    @reg('data.dataset.TemporalDataset')
    def _(w):
        src = w.tdataset()
        return None, [src.measurements.copy()], dict(
            descriptors={'subj': 3}, obs_descriptors={k: w._d(list(v)) for k, v in src.obs_descriptors.items()},
            channel_descriptors={k: w._d(list(v)) for k, v in src.channel_descriptors.items()},
            time_descriptors={k: w._d(list(v)) for k, v in src.time_descriptors.items()})

    def base_self(w):
        from rsatoolbox.data.base import DatasetBase
        d = w.dataset()
        return DatasetBase(d.measurements, d.descriptors, d.obs_descriptors, d.channel_descriptors)
    for cls, mk in (('data.base.DatasetBase', base_self), ('data.dataset.Dataset', lambda w: w.dataset()),
                    ('data.dataset.TemporalDataset', lambda w: w.tdataset())):
        def bind(cls, mk):
            R[cls + '.copy'] = lambda w: (mk(w), [], {})
            R[cls + '.to_dict'] = lambda w: (mk(w), [], {})
            R[cls + '.split_obs'] = lambda w: (mk(w), ['conds'], {})
            R[cls + '.split_channel'] = lambda w: (mk(w), ['rois'], {})
            R[cls + '.subset_obs'] = lambda w: (mk(w), w.pick(
                [['conds', 'c1'], ['conds', ['c0', 'c2']], ['trial', 3], ['trial', [1, 4]]]), {})
            R[cls + '.subset_channel'] = lambda w: (mk(w), w.pick(
                [['rois', 'V2'], ['rois', ['V1', 'V2']], ['vox', 'v1']]), {})

            def save(w):
                ft = w.pick(['hdf5', 'pkl'])
                return mk(w), [tmpfile(ft)], {'file_type': ft, 'overwrite': True}
            R[cls + '.save'] = save
        bind(cls, mk)
    R['data.dataset.Dataset.get_measurements'] = lambda w: (w.dataset(), [], {})
    R['data.dataset.Dataset.get_measurements_tensor'] = lambda w: (w.dataset(), ['conds'], {})
    R['data.dataset.Dataset.odd_even_split'] = lambda w: (w.dataset(), ['runs'], {})
    R['data.dataset.Dataset.nested_odd_even_split'] = lambda w: (w.dataset(), ['conds', 'runs'], {})
    R['data.dataset.Dataset.to_df'] = lambda w: (w.dataset(), [], {'channel_descriptor': 'vox'})

    @reg('data.dataset.Dataset.from_df')
    def _(w):
        return None, [w.dataset().to_df(channel_descriptor='vox')], {}

    R['data.dataset.TemporalDataset.split_time'] = lambda w: (w.tdataset(), ['time'], {})
    R['data.dataset.TemporalDataset.subset_time'] = lambda w: (w.tdataset(), ['time', 0.5, 1.0], {})
    R['data.dataset.TemporalDataset.bin_time'] = lambda w: (
        w.tdataset(), ['time', [np.array([0.0, 0.5]), np.array([1.0, 1.5])]], {})
    R['data.dataset.TemporalDataset.convert_to_dataset'] = lambda w: (w.tdataset(), ['time'], {})
    R['data.dataset.TemporalDataset.time_as_channels'] = lambda w: (w.tdataset(), [], {})
    R['data.dataset.TemporalDataset.time_as_observations'] = lambda w: (w.tdataset(), ['time'], {})
    R['data.dataset.dataset_from_dict'] = lambda w: (
        None, [(w.tdataset() if w.rng.random() < .3 else w.dataset()).copy().to_dict()], {})

    @reg('data.dataset.load_dataset')
    def _(w):
        f = tmpfile('pkl')
        w.dataset().save(f, file_type='pkl', overwrite=True)
        return None, [f], {}

    R['data.dataset.merge_subsets'] = lambda w: (None, [w.dataset().split_obs('runs')], {})
    R['data.ops.merge_datasets'] = lambda w: (None, [[w.dataset(), w.dataset()]], {})
    R['data.computations.average_dataset'] = lambda w: (None, [w.dataset()], {})
    R['data.computations.average_dataset_by'] = lambda w: (None, [w.dataset(), 'conds'], {})

    def resid(w):
        return w._vals(40, -20, 60).reshape(8, 5)
    for nm in ('cov_from_residuals', 'prec_from_residuals'):
        R['data.noise.' + nm] = lambda w: (
            None, [w.pick([lambda: resid(w), lambda: [resid(w), resid(w)],
                           lambda: w._vals(4 * 5 * 6, -20, 300).reshape(4, 5, 6)])()],
            {'method': w.pick(['shrinkage_diag', 'shrinkage_eye', 'diag', 'full'])})
    for nm in ('cov_from_measurements', 'prec_from_measurements', 'cov_from_unbalanced', 'prec_from_unbalanced'):
        R['data.noise.' + nm] = lambda w: (
            None, [w.dataset(), 'conds'], {'method': w.pick(['shrinkage_diag', 'shrinkage_eye', 'diag'])})

    # --- model
    for k, cls in (('fixed', 'ModelFixed'), ('weighted', 'ModelWeighted'), ('select', 'ModelSelect'),
                   ('interpolate', 'ModelInterpolate')):
        def bindm(k, cls):
            def ctor(w):
                r = w.rdms(n_rdm=1 if k == 'fixed' else 2, positive=True)
                c = w.rng.random()
                if c < .6:
                    return None, ['m', r], {}
                if k == 'fixed':
                    return None, ['m', r.dissimilarities[0].copy()], {}
                return None, ['m', r.dissimilarities.copy()], {}
            R['model.model.' + cls] = ctor
            th = {'fixed': None, 'weighted': np.array([0.5, 1.5]), 'select': 1,
                  'interpolate': np.array([0.25, 0.75])}[k]
            R[f'model.model.{cls}.predict'] = lambda w: (w.model(k), [], {'theta': th})
            R[f'model.model.{cls}.predict_rdm'] = lambda w: (w.model(k), [], {'theta': th})
        bindm(k, cls)
    R['model.model.Model'] = lambda w: (None, ['m'], {})

    def base_model(w):
        from rsatoolbox.model.model import Model
        return Model('base')
    R['model.model.Model.predict'] = lambda w: (base_model(w), [], {})
    R['model.model.Model.predict_rdm'] = lambda w: (base_model(w), [], {})
    R['model.model.Model.fit'] = lambda w: (w.model(w.pick(['fixed', 'weighted', 'select', 'interpolate'])),
                                            [w.data_rdms()], w.pick([
                                                {'method': 'cosine'},
                                                {'method': 'cosine_cov', 'sigma_k': w.sigma_k(w.n_cond)}]))
    R['model.model.Model.to_dict'] = lambda w: (w.model(w.pick(['fixed', 'weighted'])), [], {})
    R['model.model.model_from_dict'] = lambda w: (None, [w.model(w.pick(['fixed', 'weighted', 'select',
                                                                               'interpolate'])).to_dict()], {})
    R['model.model_family.ModelFamily'] = lambda w: (None, [[w.model('fixed'), w.model('fixed')]], {})

    def family(w):
        from rsatoolbox.model.model_family import ModelFamily
        return ModelFamily([w.model('fixed'), w.model('fixed')])
    R['model.model_family.ModelFamily.get_all_family_members'] = lambda w: (family(w), [], {})
    R['model.model_family.ModelFamily.get_family_member'] = lambda w: (family(w), [2], {})
    R['model.fitter.Fitter'] = lambda w: (None, [__import__('rsatoolbox').model.fitter.fit_mock], {'method': 'cosine'})
    for nm, k in (('fit_mock', 'fixed'), ('fit_select', 'select'), ('fit_interpolate', 'interpolate'),
                  ('fit_optimize', 'weighted'), ('fit_optimize_positive', 'weighted'),
                  ('fit_regress', 'weighted'), ('fit_regress_nn', 'weighted')):
        def fitrec(k):
            def f(w):
                kw = {'method': w.pick(['cosine_cov', 'cosine', 'corr_cov', 'corr'])}
                if 'cov' in kw['method']:
                    kw['sigma_k'] = w.sigma_k(w.n_cond, vector_ok=False)
                data = w.data_rdms()
                if (w.seed // 3) % 2 == 0:
                    # as crossval does: the data hold a subset of the patterns, the model is
                    # restricted with a real index array
                    idx = np.arange(1, w.n_cond)
                    data = data.subset_pattern('index', idx)
                    if kw.get('sigma_k') is not None:
                        kw['sigma_k'] = kw['sigma_k'][1:, 1:].copy()
                    kw['pattern_idx'] = idx
                    kw['pattern_descriptor'] = 'index'
                    w.tag('pattern_idx:array')
                return None, [w.model(k), data], kw
            return f
        R['model.fitter.' + nm] = fitrec(k)

    # --- inference
    def ev(**kw):
        return lambda w: (None, [w.models(), w.data_rdms()], dict(kw))
    def ev_theta(**kw):
        def f(w):
            k = dict(kw)
            if (w.seed // 2) % 2 == 0:
                # one parameter vector per model (fixed: none, weighted: 2 weights), float arrays
                k['theta'] = [None, np.array([0.75, 1.25])]
                w.tag('theta:array')
            return None, [w.models(), w.data_rdms()], k
        return f
    R['inference.evaluate.eval_fixed'] = ev_theta(method='cosine')
    R['inference.evaluate.eval_bootstrap'] = ev_theta(N=3)
    R['inference.evaluate.eval_bootstrap_pattern'] = ev_theta(N=3)
    R['inference.evaluate.eval_bootstrap_rdm'] = ev_theta(N=3)
    R['inference.evaluate.bootstrap_crossval'] = ev(N=2, k_pattern=2, k_rdm=2)
    R['inference.evaluate.eval_dual_bootstrap'] = ev(N=2, k_pattern=2, k_rdm=2)
    R['inference.evaluate.eval_dual_bootstrap_random'] = ev(N=2, n_pattern=2, n_rdm=2)
    R['inference.boot_testset.bootstrap_testset'] = ev(N=3)
    R['inference.boot_testset.bootstrap_testset_pattern'] = ev(N=3)
    R['inference.boot_testset.bootstrap_testset_rdm'] = ev(N=3)

    @reg('inference.evaluate.crossval')
    def _(w):
        from rsatoolbox.inference import sets_k_fold
        data = w.data_rdms()
        tr, te, ce = sets_k_fold(data, k_pattern=2, k_rdm=2, random=False)
        return None, [w.models(), data, tr, te], {'ceil_set': ce, 'method': 'cosine'}

    @reg('inference.noise_ceiling.cv_noise_ceiling')
    def _(w):
        from rsatoolbox.inference import sets_k_fold
        data = w.data_rdms()
        tr, te, ce = sets_k_fold(data, k_pattern=2, k_rdm=2, random=False)
        return None, [data, ce, te], {'method': 'cosine'}

    R['inference.noise_ceiling.boot_noise_ceiling'] = lambda w: (None, [w.data_rdms()], {'method': 'cosine'})
    for nm in ('bootstrap_sample', 'bootstrap_sample_pattern', 'bootstrap_sample_rdm'):
        R['inference.bootstrap.' + nm] = lambda w: (None, [w.rdms()], {})
    R['inference.crossvalsets.sets_k_fold'] = lambda w: (None, [w.rdms(n_rdm=4)], {'k_rdm': 2, 'k_pattern': 2})
    R['inference.crossvalsets.sets_k_fold_pattern'] = lambda w: (None, [w.rdms()], {'k': 2})
    R['inference.crossvalsets.sets_k_fold_rdm'] = lambda w: (None, [w.rdms(n_rdm=4)], {'k_rdm': 2})
    R['inference.crossvalsets.sets_leave_one_out_pattern'] = lambda w: (None, [w.rdms(), 'cond'], {})
    R['inference.crossvalsets.sets_leave_one_out_rdm'] = lambda w: (None, [w.rdms()], {})
    R['inference.crossvalsets.sets_of_k_pattern'] = lambda w: (None, [w.rdms()], {'pattern_descriptor': 'cond', 'k': 2})
    R['inference.crossvalsets.sets_of_k_rdm'] = lambda w: (None, [w.rdms(n_rdm=4)], {'k': 2})
    R['inference.crossvalsets.sets_random'] = lambda w: (None, [w.rdms(n_rdm=4)], {'n_rdm': 2, 'n_pattern': 2})

    @reg('inference.result.Result')
    def _(w):
        ev_ = w.evaluations()
        return None, [w.models(), ev_, 'cosine', 'fixed', np.array([0.5, 0.9])], \
            {'variances': np.eye(4) * 0.01, 'dof': 5}

    for nm, a in (('get_ci', [0.9]), ('get_errorbars', []), ('get_means', []), ('get_model_var', []),
                  ('get_noise_ceil', []), ('get_sem', []), ('test_all', []),
                  ('test_noise', []), ('test_pairwise', []), ('test_zero', []), ('to_dict', [])):
        R['inference.result.Result.' + nm] = (lambda a: lambda w: (w.result(), list(a), {}))(a)

    @reg('inference.result.Result.save')
    def _(w):
        ft = w.pick(['hdf5', 'pkl'])
        return w.result(), [tmpfile(ft)], {'file_type': ft, 'overwrite': True}

    R['inference.result.result_from_dict'] = lambda w: (None, [w.result().to_dict()], {})

    @reg('inference.result.load_results')
    def _(w):
        f = tmpfile('pkl')
        w.result().save(f, file_type='pkl', overwrite=True)
        return None, [f], {}

    # --- util
    R['util.data_utils.extract_dict'] = lambda w: (None, [w.rdms().pattern_descriptors, [0, 2]], {})
    R['util.data_utils.get_unique_inverse'] = lambda w: (None, [np.array(w.dataset().obs_descriptors['conds'])], {})
    R['util.data_utils.get_unique_unsorted'] = lambda w: (None, [np.array(w.dataset().obs_descriptors['conds'])], {})
    R['util.descriptor_utils.bool_index'] = lambda w: (None, [w._d(w.conds()), 'c1'], {})
    R['util.descriptor_utils.num_index'] = lambda w: (None, [w._d(w.conds()), ['c1', 'c2']], {})
    R['util.descriptor_utils.check_descriptor_length'] = lambda w: (None, [w.rdms().pattern_descriptors, w.n_cond], {})
    R['util.descriptor_utils.check_descriptor_length_error'] = lambda w: (
        None, [w.rdms().pattern_descriptors, 'pattern_descriptors', w.n_cond], {})
    R['util.descriptor_utils.desc_eq'] = lambda w: (None, [w.rdms().pattern_descriptors,
                                                           w.rdms().pattern_descriptors], {})
    R['util.descriptor_utils.format_descriptor'] = lambda w: (None, [w.rdms().pattern_descriptors], {})
    R['util.descriptor_utils.parse_input_descriptor'] = lambda w: (None, [w.rdms().descriptors], {})
    R['util.descriptor_utils.subset_descriptor'] = lambda w: (None, [w.rdms().pattern_descriptors, [0, 2]], {})
    R['util.inference_util.all_tests'] = lambda w: (
        None, [w.evaluations(), np.array([0.5, 0.9])],
        {'model_var': np.array([0.01, 0.02]), 'diff_var': np.array([0.02]),
         'noise_ceil_var': np.array([[0.01, 0.01], [0.01, 0.01]]), 'dof': 5})
    R['util.inference_util.bootstrap_pair_tests'] = lambda w: (None, [w.evaluations()], {})
    R['util.inference_util.default_k_pattern'] = lambda w: (None, [12], {})
    R['util.inference_util.default_k_rdm'] = lambda w: (None, [12], {})
    R['util.inference_util.extract_variances'] = lambda w: (None, [np.eye(4) * 0.01], {'nc_included': True})
    R['util.inference_util.get_errorbars'] = lambda w: (
        None, [np.array([0.01, 0.02]), w.evaluations(), 5], {})
    R['util.inference_util.input_check_model'] = lambda w: (None, [w.models()], {})
    R['util.inference_util.nc_tests'] = lambda w: (
        None, [w.evaluations(), np.array([0.5, 0.9])],
        {'noise_ceil_var': np.array([[0.01, 0.02], [0.01, 0.02]]), 'dof': 5})
    R['util.inference_util.pair_tests'] = lambda w: (
        None, [w.evaluations()], {'diff_var': np.array([0.02]), 'dof': 5})
    R['util.inference_util.pool_rdm'] = lambda w: (None, [w.data_rdms()], {'method': w.pick(
        ['cosine', 'corr', 'spearman', 'rho-a', 'cosine_cov', 'neg_riem_dist'])})
    def pool(w):
        m = w.pick(['cosine_cov', 'euclid', 'corr_cov', 'cosine', 'corr', 'spearman', 'rho-a', 'kendall'])
        kw = {'method': m}
        if 'cov' in m:
            kw['sigma_k'] = w.sigma_k(w.n_cond, vector_ok=False)
        return None, [w.data_rdms()], kw
    R['util.pooling.pool_rdm'] = pool
    ev3 = lambda w: np.abs(w._vals(4 * 2 * 5, 1, 60).reshape(4, 2, 5)) / 64.0  # noqa: E731
    R['util.inference_util.ranksum_pair_test'] = lambda w: (None, [ev3(w)], {})
    R['util.inference_util.ranksum_value_test'] = lambda w: (None, [ev3(w)], {})
    for nm in ('t_test_0', 't_tests'):
        R['util.inference_util.' + nm] = lambda w: (None, [w.evaluations(), np.array([0.01, 0.02])], {'dof': 5})
    R['util.inference_util.t_tests'] = lambda w: (None, [w.evaluations(), np.array([0.02])], {'dof': 5})
    R['util.inference_util.t_test_nc'] = lambda w: (
        None, [w.evaluations(), np.array([0.01, 0.02]), 0.8], {'dof': 5})
    R['util.inference_util.zero_tests'] = lambda w: (None, [w.evaluations()],
                                                     {'model_var': np.array([0.01, 0.02]), 'dof': 5})
    R['util.matrix.centering'] = lambda w: (None, [4], {})
    R['util.matrix.get_v'] = lambda w: (None, [4, w.sigma_k(4, vector_ok=False)], {})
    R['util.matrix.indicator'] = lambda w: (None, [np.array([0, 1, 0, 2, 1])], {})
    R['util.matrix.pairwise_contrast'] = lambda w: (None, [np.array([0, 1, 0, 2, 1])], {})
    R['util.matrix.pairwise_contrast_sparse'] = lambda w: (None, [np.array([0, 1, 0, 2, 1])], {})
    R['util.matrix.row_col_indicator_g'] = lambda w: (None, [4], {})
    R['util.matrix.row_col_indicator_rdm'] = lambda w: (None, [4], {})
    R['util.matrix.square_between_category_binary_mask'] = lambda w: (None, [[0, 1], [2, 3]], {'size': 5})
    R['util.matrix.square_category_binary_mask'] = lambda w: (None, [[0, 2]], {'size': 5})
    R['util.rdm_utils.add_pattern_index'] = lambda w: (None, [w.rdms(), 'cond'], {})
    R['util.rdm_utils.batch_to_matrices'] = lambda w: (
        None, [w.rdms().dissimilarities.copy() if w.rng.random() < .5 else w.rdms().get_matrices()], {})
    R['util.rdm_utils.batch_to_vectors'] = lambda w: (
        None, [w.pick([lambda: w.rdms().dissimilarities.copy(), lambda: w.rdms().get_matrices(),
                             lambda: w.rdms().dissimilarities[0].copy()])()], {})
    R['util.rdm_utils.category_condition_idxs'] = lambda w: (None, [w.rdms(), 'cat'], {})
    R['util.vis_utils.weight_to_matrices'] = lambda w: (
        None, [np.abs(w.rdms().dissimilarities) if w.rng.random() < .5 else np.abs(w.rdms().get_matrices())], {})

    @reg('util.searchlight.get_volume_searchlight')
    def _(w):
        return None, [np.ones((3, 3, 3), dtype=int)], {'radius': 1, 'threshold': 0.5}

    @reg('util.searchlight.get_searchlight_RDMs')
    def _(w):
        data = w._vals(8 * 27, -20, 400).reshape(8, 27)
        centers = np.array([13, 14])
        neighbors = [np.array([4, 10, 12, 13, 14, 16, 22]), np.array([5, 11, 13, 14, 17, 23])]
        events = np.array([0, 1, 2, 3, 0, 1, 2, 3])
        return None, [data, centers, neighbors, events], {'method': 'correlation', 'verbose': False}

    @reg('util.searchlight.evaluate_models_searchlight')
    def _(w):
        from rsatoolbox.inference import eval_fixed
        return None, [w.data_rdms(), w.model('fixed'), eval_fixed], {'method': 'corr', 'n_jobs': 1}

    return R


RECIPES = _recipes()

NO_FACTORY = {
    'rsatoolbox.util.vis_utils.smacof': 'MDS solver of the visualisation layer (out of scope: rsatoolbox.vis support code)',
    'rsatoolbox.util.vis_utils.Weighted_MDS': 'scikit-learn estimator of the visualisation layer (out of scope)',
    'rsatoolbox.util.matrix.run': 'not an rsatoolbox callable (scipy.sparse re-export picked up by module scan)',
}


def build_call(qualname, seed):
    key = qualname[len('rsatoolbox.'):]
    if qualname in NO_FACTORY:
        raise Uncovered(NO_FACTORY[qualname])
    if key not in RECIPES:
        raise Uncovered('no argument factory')
    w = World(seed)
    self_obj, args, kwargs = RECIPES[key](w)
    build_call.last_tags = sorted(w.tags)
    return self_obj, list(args), dict(kwargs)


def invoke(kind, fn, owner, qualname, self_obj, args, kwargs):
    if kind == 'method':
        return getattr(self_obj, qualname.rsplit('.', 1)[1])(*args, **kwargs)
    return fn(*args, **kwargs)
